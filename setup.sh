#!/bin/sh
# Offline set-up after a fresh restore: parse every specification, build the native extension from
# /repo/rust, warm the private bytecode cache for the current /repo tree.
set -e
cd "$(dirname "$0")"
mkdir -p .work evidence replays
fail=0
for f in specs/*.tla; do
  m=$(basename "$f" .tla)
  if ! (cd specs && java -cp /opt/veriftools/tla/tla2tools.jar:/opt/veriftools/tla/CommunityModules-deps.jar tla2sany.SANY "$m.tla" > ../.work/sany_$m.log 2>&1) \
     || grep -q -E "Fatal errors|\*\*\* Errors|Could not parse|Parse Error" .work/sany_$m.log; then
    echo "SANY FAILED: $m"; tail -20 .work/sany_$m.log; fail=1
  fi
done
[ $fail = 0 ] || exit 2
/venv/bin/python harness/repo.py
echo "setup ok"
