#!/bin/sh
# Offline set-up after a fresh restore: parse every specification (warnings only: TLC re-parses per check), build the native extension from
# /repo/rust, warm the private bytecode cache for the current /repo tree.
set -e
cd "$(dirname "$0")"
mkdir -p .work evidence replays
fail=0
for f in specs/*.tla; do
  m=$(basename "$f" .tla)
  if ! (cd specs && java -cp /opt/veriftools/tla/tla2tools.jar:/opt/veriftools/tla/CommunityModules-deps.jar tla2sany.SANY "$m.tla" > ../.work/sany_$m.log 2>&1) \
     || grep -q -E "Fatal errors|\*\*\* Errors|Could not parse|Parse Error" .work/sany_$m.log; then
    echo "WARNING: SANY rejects $m (the check using it will report a machinery failure)"; tail -5 .work/sany_$m.log; fail=1
  fi
done
/venv/bin/python harness/repo.py
echo "setup ok"
