"""C12 -- atom updates are atomic under every thread schedule and always terminate.

design check:  AtomImpl.tla (the mechanism as built, lock and compare-and-set split into steps) simulates
               Atom.tla (linearizable cell) for 2-3 threads; termination under weak fairness; the model
               without the lock / with comparison by equality only must FAIL (anti-vacuity).
code -> spec:  the real basilisp.core swap!/reset!/compare-and-set!/swap-vals!/reset-vals!/deref on a real
               Atom, 2-3 real threads under the deterministic scheduler, every schedule with <= 2 (3)
               pre-emptions at line granularity in atom.py/reference.py and at every lock operation; each
               execution is recorded (call / ret / watch events) and TLC decides whether it is a behaviour of
               Atom.tla (Atom_Trace: silent linearization step placed by TLC).
"""
import itertools
import json
import math
import multiprocessing as mp
import random

import boot
import dsched
import tlc

TARGETS = {"basilisp/lang/atom.py": None, "basilisp/lang/reference.py": None}

NIL = {"ty": "nil", "i": 0}


class FThrow(Exception):
    pass


class Weird:
    """an object that is not equal to itself"""

    def __eq__(self, other):
        return False

    def __ne__(self, other):
        return True

    __hash__ = object.__hash__


def make_nan(kind):
    if kind == "float":
        return float("nan")
    if kind == "vec":
        from basilisp.lang import vector
        return vector.vector([float("nan")])
    return Weird()


def absval(v):
    from basilisp.lang import vector
    if v is None:
        return NIL
    if isinstance(v, bool):
        return {"ty": "bool", "i": 1 if v else 0}
    if isinstance(v, int):
        return {"ty": "int", "i": v}
    if isinstance(v, float) and math.isnan(v):
        return {"ty": "nan", "i": 0}
    if isinstance(v, Weird):
        return {"ty": "nan", "i": 0}
    if isinstance(v, vector.PersistentVector):
        if len(v) == 1 and isinstance(v[0], float) and math.isnan(v[0]):
            return {"ty": "nan", "i": 0}
        if len(v) == 2:
            return {"ty": "pair", "a": absval(v[0]), "b": absval(v[1])}
    return {"ty": "other", "c": type(v).__name__}


def absexc(e):
    from basilisp.lang.exception import ExceptionInfo
    if isinstance(e, FThrow):
        return {"ty": "exc", "c": "fthrow"}
    if isinstance(e, ExceptionInfo) and "Invalid reference state" in str(e):
        return {"ty": "exc", "c": "invalid"}
    return {"ty": "exc", "c": "other:" + type(e).__name__}


def conc(v, nan_kind):
    if v["ty"] == "int":
        return v["i"]
    if v["ty"] == "nan":
        return make_nan(nan_kind)
    if v["ty"] == "nil":
        return None
    raise ValueError(v)


# ---- the operations a thread can perform: (op, f, a, b) with abstract values -----------------
def I(i):
    return {"ty": "int", "i": i}


NAN = {"ty": "nan", "i": 0}
OPS = {
    "swap-inc": ("swap", "inc", NIL, NIL),
    "swap-dbl": ("swap", "dbl", NIL, NIL),
    "swap-throw": ("swap", "throw", NIL, NIL),
    "swap-tonan": ("swap", "tonan", NIL, NIL),
    "swap-id": ("swap", "id", NIL, NIL),
    "swapvals-inc": ("swapvals", "inc", NIL, NIL),
    "reset-1": ("reset", "-", I(1), NIL),
    "reset-5": ("reset", "-", I(5), NIL),
    "reset-nan": ("reset", "-", NAN, NIL),
    "resetvals-2": ("resetvals", "-", I(2), NIL),
    "cas-0-1": ("cas", "-", I(0), I(1)),
    "cas-1-7": ("cas", "-", I(1), I(7)),
    "cas-1-0": ("cas", "-", I(1), I(0)),
    "deref": ("deref", "-", NIL, NIL),
}


def fns(sched, nan_kind, slow):
    def wrap(g):
        def f(x, *extra):
            if extra:
                raise TypeError("update function called with extra arguments %r" % (extra,))
            if slow:
                sched.point()
            try:
                return g(x)
            finally:
                sched.log(k="f-end", op="-", f="-", a=NIL, b=NIL, res=NIL)
                if slow:
                    sched.point()
        return f
    return {
        "inc": wrap(lambda x: x + 1 if isinstance(x, (int, float)) and not isinstance(x, bool) else x),
        "dbl": wrap(lambda x: x * 2 if isinstance(x, (int, float)) and not isinstance(x, bool) else x),
        "zero": wrap(lambda x: 0),
        "tonan": wrap(lambda x: make_nan(nan_kind)),
        "id": wrap(lambda x: x),
        "throw": wrap(_throw),
    }


def _throw(x):
    raise FThrow()


VALIDATORS = {
    "none": None,
    "lt3": lambda v: isinstance(v, int) and not isinstance(v, bool) and v < 3,
    "int": lambda v: isinstance(v, int) and not isinstance(v, bool),
}

_core = {}


def core():
    if not _core:
        boot.init()
        for n in ["swap!", "reset!", "swap-vals!", "reset-vals!", "compare-and-set!", "deref", "add-watch"]:
            _core[n] = boot.core_fn(n)
    return _core


def make_scenario(sc):
    """sc = dict(progs=[[opname,...],...], validator, watch, nan, slow, init) -> make(sched) for dsched"""
    c = core()
    from basilisp.lang import atom as A

    def make(s):
        vf = VALIDATORS[sc["validator"]]
        if vf is not None and sc.get("logv"):
            def vf(v, _vf=vf):
                try:
                    return _vf(v)
                finally:
                    if s.cur is not None:
                        s.log(k="v-end", op="-", f="-", a=NIL, b=NIL, res=NIL)
                        s.point()
        with dsched.patched():
            a = A.Atom(sc["init"], validator=vf)
        sc["_atom"] = a
        F = fns(s, sc["nan"], sc["slow"])
        if sc["watch"]:
            def w(k, ref, old, new):
                s.log(k="watch", op="-", f="-", a=absval(old), b=absval(new), res=NIL)
                if sc.get("logv"):
                    s.point()
            c["add-watch"](a, "w", w)

        def thread(prog):
            def run():
                for name in prog:
                    op, f, x, y = OPS[name]
                    s.log(k="call", op=op, f=f, a=x, b=y, res=NIL)
                    if sc.get("logv"):
                        s.point()
                    try:
                        if sc.get("api") == "py" and op in ("swap", "reset", "cas", "deref"):
                            # the Python-level API of lang/atom.py (used by the runtime itself), not the core fns
                            if op == "swap":
                                r = a.swap(F[f])
                            elif op == "reset":
                                r = a.reset(conc(x, sc["nan"]))
                            elif op == "cas":
                                r = a.compare_and_set(conc(x, sc["nan"]), conc(y, sc["nan"]))
                            else:
                                r = a.deref()
                        elif op == "swap":
                            r = c["swap!"](a, F[f])
                        elif op == "swapvals":
                            r = c["swap-vals!"](a, F[f])
                        elif op == "reset":
                            r = c["reset!"](a, conc(x, sc["nan"]))
                        elif op == "resetvals":
                            r = c["reset-vals!"](a, conc(x, sc["nan"]))
                        elif op == "cas":
                            r = c["compare-and-set!"](a, conc(x, sc["nan"]), conc(y, sc["nan"]))
                        else:
                            r = c["deref"](a)
                        res = absval(r)
                    except (dsched.Killed, dsched.StepLimit):
                        raise
                    except Exception as e:  # noqa
                        res = absexc(e)
                    s.log(k="ret", op="-", f="-", a=NIL, b=NIL, res=res)
                    if sc.get("logv"):
                        s.point()
            return run
        for i, prog in enumerate(sc["progs"]):
            s.spawn(i + 1, thread(prog))
        return lambda: absval(a.deref())
    return make


def to_trace(sc, events, final):
    return {"init": {"val": absval(sc["init"]), "validator": sc["validator"], "watch": bool(sc["watch"])},
            "ev": [{"k": e["k"], "t": e["t"], "op": e["op"], "f": e["f"], "a": e["a"], "b": e["b"],
                    "res": e["res"]} for e in events if e["k"] in ("call", "ret", "watch")],
            "final": final}


def explore_scenario(arg):
    sc, max_pre, limit, seed = arg
    out = {}     # canonical trace -> (trace, choices)
    fails = []   # (kind, choices)
    stats = {"schedules": 0, "preempted": 0}

    def on_result(s, final):
        stats["schedules"] += 1
        if s.preemptions():
            stats["preempted"] += 1
        choices = [t[1] for t in s.trace]
        if s.failed:
            if len(fails) < 3:
                fails.append((s.failed, choices))
            return
        excs = [(t, repr(st["exc"])) for t, st in s.threads.items() if st["exc"] is not None]
        if excs:
            if len(fails) < 3:
                fails.append(("harness-exception:%s" % excs, choices))
            return
        tr = to_trace(sc, s.events, final)
        key = json.dumps(tr, sort_keys=True)
        if key not in out:
            out[key] = (tr, choices)

    n, complete = dsched.explore(make_scenario(sc), TARGETS, max_preempt=max_pre, limit=limit, max_steps=800,
                                 on_result=on_result, seed=seed)
    stats["complete"] = complete
    sc.pop("_atom", None)
    return sc, list(out.values()), fails, stats


def scenarios(tier, rnd):
    singles = ["swap-inc", "swap-dbl", "swap-throw", "swapvals-inc", "reset-1", "reset-5", "resetvals-2",
               "cas-0-1", "cas-1-7", "deref", "swap-tonan", "reset-nan"]
    scs = []

    def add(progs, validator="none", nan="float", slow=False, init=0):
        scs.append({"progs": progs, "validator": validator, "watch": True, "nan": nan, "slow": slow, "init": init})
    # 2 threads x 1 op, all unordered pairs
    for p, q in itertools.combinations_with_replacement(singles, 2):
        add([[p], [q]], validator="none")
        if "nan" not in p + q:
            add([[p], [q]], validator="lt3")
    # values not equal to themselves, every concretisation; solo termination
    for nk in ("float", "vec", "obj"):
        add([["reset-nan", "swap-inc"], ["reset-1"]], nan=nk)
        add([["swap-tonan", "reset-5"], ["swap-id"]], nan=nk)
        add([["reset-nan", "reset-1"]], nan=nk)
        add([["swap-id"], ["deref"]], nan=nk, init=None)
    # 2 threads x 2 ops, slow update functions
    two = [["swap-inc", "swap-inc"], ["swap-inc", "deref"], ["reset-1", "swap-dbl"], ["cas-0-1", "cas-1-7"],
           ["swapvals-inc", "cas-1-0"], ["resetvals-2", "swap-inc"]]
    for p, q in itertools.combinations_with_replacement(two, 2):
        add([p, q], validator="lt3" if rnd.random() < 0.5 else "none", slow=True)
    # the same atom through the Python methods Atom.swap / reset / compare_and_set / deref (lang/atom.py): the pairs
    # of single operations and the slow two-operation programs
    py_singles = ["swap-inc", "swap-dbl", "swap-throw", "reset-1", "reset-5", "cas-0-1", "cas-1-7", "deref"]
    for p, q in itertools.combinations_with_replacement(py_singles, 2):
        add([[p], [q]], validator="lt3" if rnd.random() < 0.3 else "none")
        scs[-1]["api"] = "py"
    for p, q in itertools.combinations_with_replacement(two[:4], 2):
        add([p, q], validator="none", slow=True)
        scs[-1]["api"] = "py"
    if tier == "thorough":
        trip = ["swap-inc", "reset-1", "cas-0-1", "swapvals-inc", "deref", "swap-dbl", "cas-1-7", "reset-nan"]
        for p, q, r in itertools.combinations_with_replacement(trip, 3):
            add([[p], [q], [r]], validator="none")
        for p, q in itertools.combinations_with_replacement(two, 2):
            add([p, q, ["swap-inc"]], validator="none")
        for _ in range(60):
            add([[rnd.choice(singles) for _ in range(rnd.randint(1, 3))] for _ in range(rnd.randint(2, 3))],
                validator=rnd.choice(["none", "lt3", "int"]), nan=rnd.choice(["float", "vec", "obj"]),
                slow=rnd.random() < 0.5)
    return scs


def validate(chk, traces, name="Atom_Trace"):
    """batch trace validation; returns set of accepted indices (1-based)"""
    acc = set()
    B = 4000
    for off in range(0, len(traces), B):
        part = traces[off:off + B]
        p = tlc.write_json("atom_traces_%d" % off, part)
        r = tlc.run("Atom_Trace", "Atom_Trace.cfg", env={"TRACE_FILE": p}, timeout=1800)
        chk.add_tlc("Atom_Trace[%d..]" % off, r)
        if r.violated:
            # an invariant of the required spec broke on a matched prefix: find the traces one by one below
            pass
        acc |= {off + i for i in r.tagged("ACC")}
    return acc


def diagnose(chk, trace):
    p = tlc.write_json("atom_diag", [trace])
    r = tlc.run("Atom_Trace", "Atom_TraceDiag.cfg", env={"TRACE_FILE": p}, workers=1, timeout=300)
    ls = [x % 10000 for x in r.tagged("PFX")]
    reached = max(ls) if ls else 1
    n = len(trace["ev"])
    if reached > n:
        return "all %d events matched but final value %s or a pending call does not fit" % (n, trace["final"])
    return "event %d of %d has no matching step in Atom.tla: %s" % (reached, n, json.dumps(trace["ev"][reached - 1]))


def design_checks(chk):
    jobs = [("AtomImpl_MC.cfg", True), ("AtomImpl_MCnv.cfg", True), ("AtomImpl_NoLock.cfg", False),
            ("AtomImpl_DevEq.cfg", False)]
    if chk.tier == "thorough":
        jobs.append(("AtomImpl_MC3.cfg", True))
    for cfg, must_hold in jobs:
        r = tlc.run("AtomImpl_MC", cfg, timeout=3000)
        chk.add_tlc(cfg, r)
        if must_hold and (r.violated or not r.ok):
            chk.machinery("design check %s fails: %s\n%s" % (cfg, r.violated, r.error_trace()[:1500]))
        if not must_hold and not r.violated:
            chk.machinery("anti-vacuity: mutant model %s is not rejected by the design check" % cfg)


# ---- spec -> code: TLC behaviours of AtomImpl replayed step by step ------------------------------------------
OPNAME = {}


def _opname(call):
    for n, (op, f, a, b) in OPS.items():
        if (op, f, a, b) == (call["op"], call["f"], call["a"], call["b"]):
            return n
    raise KeyError(call)


def plan_of(beh, has_validator):
    """abstract steps -> observable boundaries (thread, event kind, ordinal) + the step index they end"""
    cnt = {}
    plan, idx = [], []
    cur_op = {}
    nxt = {t + 1: 0 for t in range(len(beh["progs"]))}
    for i, st in enumerate(beh["steps"]):
        t, at = st["t"], st["at"]
        if at == "idle":
            cur_op[t] = beh["progs"][t - 1][nxt[t]]["op"]
            nxt[t] += 1
            kind = "call"
        elif at == "read":
            kind = "lock:rel"
            cnt[(t, "lock:acq")] = cnt.get((t, "lock:acq"), 0) + 1     # deref takes and releases the lock
        elif at == "compute":
            kind = "f-end" if cur_op[t] in ("swap", "swapvals") else None
        elif at == "validate":
            kind = "v-end" if has_validator else None
        elif at == "acquire":
            kind = "lock:acq"
        elif at in ("relok", "relfail"):
            kind = "lock:rel"
        elif at == "notify":
            kind = "watch"
        elif at == "ret":
            kind = "ret"
        else:
            kind = None          # compare, set: inside the critical section, not observable
        if kind is None:
            continue
        cnt[(t, kind)] = cnt.get((t, kind), 0) + 1
        plan.append((t, kind, cnt[(t, kind)]))
        idx.append(i)
    return plan, idx


def replay_behaviour(arg):
    """-> list of (clause, expected, observed) mismatches for one TLC behaviour"""
    beh, validator, nan_kind = arg
    core()
    sc = {"progs": [[_opname(c) for c in p] for p in beh["progs"]], "validator": validator, "watch": True,
          "nan": nan_kind, "slow": False, "init": 0, "logv": True}
    plan, idx = plan_of(beh, validator != "none")
    bad = []

    def on_boundary(pi):
        st = beh["steps"][idx[pi]]
        # compared where the real state is determined: when a thread leaves its critical section (steps that
        # are not observable - compare, set - of OTHER threads cannot be pending then: they need the lock)
        if plan[pi][1] == "lock:rel":
            got = absval(sc["_atom"]._state)
            if got != st["val"]:
                bad.append(("AtomImpl!SameValue(step %d %s->%s of thread %d)" % (idx[pi], st["at"], st["to"], st["t"]),
                            st["val"], got))
    s = dsched.PlanSched(TARGETS, plan, max_steps=3000, on_boundary=on_boundary)
    finish = make_scenario(sc)(s)
    s.run()
    final = finish()
    sc.pop("_atom", None)
    if s.failed:
        bad.append(("AtomImpl_Gen!Replayable", "the interleaving is executable", s.failed))
        return beh, sc, bad
    rets = {}
    for e in s.events:
        if e["k"] == "ret":
            rets.setdefault(e["t"], []).append(e["res"])
    exp = {}
    for st in beh["steps"]:
        if st["to"] == "ret":
            exp.setdefault(st["t"], []).append(st["res"])
    for t in exp:
        if rets.get(t) != exp[t]:
            bad.append(("AtomImpl!ResultsTruthful(thread %d)" % t, exp[t], rets.get(t)))
    if final != beh["final"]:
        bad.append(("AtomImpl!SameValue(final)", beh["final"], final))
    return beh, sc, bad


def spec_to_code(chk):
    n = 300 if chk.tier == "quick" else 4000
    jobs = []
    for cfg, validator in [("AtomImpl_Gen.cfg", "lt3"), ("AtomImpl_Gennv.cfg", "none")] + (
            [("AtomImpl_Gen3.cfg", "lt3")] if chk.tier == "thorough" else []):
        r = tlc.run("AtomImpl_Gen", cfg, simulate=n, depth=120, seed=chk.seed + 1, workers=4, timeout=1800)
        chk.add_tlc(cfg + " (simulate)", r)
        behs = r.tagged("BEH")
        seen = set()
        for b in behs:
            key = json.dumps(b, sort_keys=True)
            if key in seen:
                continue
            seen.add(key)
            uses_nan = "nan" in key
            for nk in (("float", "vec", "obj") if uses_nan else ("float",)):
                jobs.append((b, validator, nk))
    ctx = mp.get_context("fork")
    with ctx.Pool(16) as pool:
        res = pool.map(replay_behaviour, jobs, chunksize=8)
    for beh, sc, bad in res:
        chk.count(1, traces=1)
        if len({st["t"] for st in beh["steps"][:6]}) > 1:
            chk.nontriv(n=1)
        for clause, exp, got in bad[:1]:
            chk.discrepancy(clause, {"behaviour": beh, "validator": sc["validator"], "nan": sc["nan"]}, exp, got,
                            module="AtomImpl_Gen", direction="spec->code")
    chk.extra["spec_behaviours_replayed"] = len(jobs)
    if res:
        chk.sample({"behaviour_steps": [(st["t"], st["at"]) for st in res[0][0]["steps"]][:40]})


def run(chk):
    rnd = random.Random(chk.seed)
    core()
    chk.rule = ("scenario = 2-3 thread programs of 1-3 atom operations x validator x kind of not-self-equal "
                "value; every schedule with <= k pre-emptions is executed on the real Atom; distinct traces "
                "(call/ret/watch sequences) are validated by TLC against Atom.tla; non-trivial = trace of an "
                "execution with at least one pre-emption in which two calls overlap")
    design_checks(chk)
    spec_to_code(chk)
    scs = scenarios(chk.tier, rnd)
    max_pre = 2 if chk.tier == "quick" else 3
    limit = 700 if chk.tier == "quick" else 20000
    ctx = mp.get_context("fork")
    with ctx.Pool(16) as pool:
        results = pool.map(explore_scenario, [(sc, max_pre, limit, chk.seed + i) for i, sc in enumerate(scs)], chunksize=1)
    traces, origin = [], []
    nsched = 0
    for sc, trs, fails, stats in results:
        nsched += stats["schedules"]
        for kind, choices in fails:
            clause = "Atom!Termination" if kind.startswith("steplimit") else (
                "Atom!NoDeadlock" if kind == "deadlock" else "Atom!CallsReturn")
            chk.discrepancy(clause, {"scenario": sc, "schedule": choices}, "every call returns", kind,
                            module="Atom", direction="code->spec")
        for tr, choices in trs:
            traces.append(tr)
            origin.append((sc, choices))
    chk.count(nsched)
    for i, tr in enumerate(traces):
        tr["id"] = i + 1
        if _overlaps(tr):
            chk.nontriv(n=1)
    acc = validate(chk, traces)
    chk.count(0, traces=len(traces))
    ndiag = 0
    for i, tr in enumerate(traces):
        if (i + 1) not in acc:
            sc, choices = origin[i]
            ndiag += 1
            why = diagnose(chk, tr) if ndiag <= 8 else "rejected by Atom_Trace (not diagnosed: more than 8 rejections)"
            chk.discrepancy("Atom_Trace!Accept", {"scenario": sc, "schedule": choices},
                            "a behaviour of Atom.tla (linearizable, truthful results, real watch transitions)",
                            why, module="Atom_Trace", direction="code->spec", extra={"trace": tr})
    for tr in traces[:: max(1, len(traces) // 4)][:4]:
        chk.sample({"trace": tr})
    chk.extra.update({"scenarios": len(scs), "schedules_executed": nsched,
                      "scenarios_explored_completely_within_bound": sum(1 for r in results if r[3]["complete"]), "distinct_traces": len(traces),
                      "preemption_bound": max_pre})


def _overlaps(tr):
    open_ = set()
    for e in tr["ev"]:
        if e["k"] == "call":
            if open_:
                return True
            open_.add(e["t"])
        elif e["k"] == "ret":
            open_.discard(e["t"])
    return False


def replay(chk, body):
    core()
    case = body["case"]
    if "behaviour" in case:
        beh, sc, bad = replay_behaviour((case["behaviour"], case["validator"], case["nan"]))
        chk.count(1)
        print("steps:", [(st["t"], st["at"]) for st in beh["steps"]])
        for clause, exp, got in bad:
            print("MISMATCH", clause, "expected", exp, "observed", got)
            chk.discrepancy(clause, case, exp, got, module="AtomImpl_Gen", direction="replay")
        return
    sc, choices = case["scenario"], case["schedule"]
    s, final = dsched.run_one(make_scenario(sc), TARGETS, choices=choices, max_steps=800)
    chk.count(1)
    print("schedule outcome:", s.failed, "final:", final)
    for e in s.events:
        if e["k"] != "lock":
            print("  ", e)
    if s.failed:
        chk.discrepancy(body["clause"], case, "every call returns", s.failed, module="Atom", direction="replay")
        return
    tr = to_trace(sc, s.events, final)
    tr["id"] = 1
    acc = validate(chk, [tr])
    if 1 not in acc:
        chk.discrepancy("Atom_Trace!Accept", case, body["expected"], diagnose(chk, tr), module="Atom_Trace",
                        direction="replay", extra={"trace": tr})
