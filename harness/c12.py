"""C12 -- atom updates are atomic under every thread schedule and always terminate.

design check:  AtomImpl.tla (the mechanism as built, lock and compare-and-set split into steps) simulates
               Atom.tla (linearizable cell) for 2-3 threads; termination under weak fairness; the model
               without the lock / with comparison by equality only must FAIL (anti-vacuity).
code -> spec:  the real basilisp.core swap!/reset!/compare-and-set!/swap-vals!/reset-vals!/deref on a real
               Atom, 2-3 real threads under the deterministic scheduler, every schedule with <= 2 (3)
               pre-emptions at line granularity in atom.py/reference.py and at every lock operation; each
               execution is recorded (call / ret / watch events) and TLC decides whether it is a behaviour of
               Atom.tla (Atom_Trace: silent linearization step placed by TLC).
"""
import itertools
import json
import math
import multiprocessing as mp
import random

import boot
import dsched
import tlc

TARGETS = {"basilisp/lang/atom.py": None, "basilisp/lang/reference.py": None}

NIL = {"ty": "nil", "i": 0}


class FThrow(Exception):
    pass


class Weird:
    """an object that is not equal to itself"""

    def __eq__(self, other):
        return False

    def __ne__(self, other):
        return True

    __hash__ = object.__hash__


def make_nan(kind):
    if kind == "float":
        return float("nan")
    if kind == "vec":
        from basilisp.lang import vector
        return vector.vector([float("nan")])
    return Weird()


def absval(v):
    from basilisp.lang import vector
    if v is None:
        return NIL
    if isinstance(v, bool):
        return {"ty": "bool", "i": 1 if v else 0}
    if isinstance(v, int):
        return {"ty": "int", "i": v}
    if isinstance(v, float) and math.isnan(v):
        return {"ty": "nan", "i": 0}
    if isinstance(v, Weird):
        return {"ty": "nan", "i": 0}
    if isinstance(v, vector.PersistentVector):
        if len(v) == 1 and isinstance(v[0], float) and math.isnan(v[0]):
            return {"ty": "nan", "i": 0}
        if len(v) == 2:
            return {"ty": "pair", "a": absval(v[0]), "b": absval(v[1])}
    return {"ty": "other", "c": type(v).__name__}


def absexc(e):
    from basilisp.lang.exception import ExceptionInfo
    if isinstance(e, FThrow):
        return {"ty": "exc", "c": "fthrow"}
    if isinstance(e, ExceptionInfo) and "Invalid reference state" in str(e):
        return {"ty": "exc", "c": "invalid"}
    return {"ty": "exc", "c": "other:" + type(e).__name__}


def conc(v, nan_kind):
    if v["ty"] == "int":
        return v["i"]
    if v["ty"] == "nan":
        return make_nan(nan_kind)
    if v["ty"] == "nil":
        return None
    raise ValueError(v)


# ---- the operations a thread can perform: (op, f, a, b) with abstract values -----------------
def I(i):
    return {"ty": "int", "i": i}


NAN = {"ty": "nan", "i": 0}
OPS = {
    "swap-inc": ("swap", "inc", NIL, NIL),
    "swap-dbl": ("swap", "dbl", NIL, NIL),
    "swap-throw": ("swap", "throw", NIL, NIL),
    "swap-tonan": ("swap", "tonan", NIL, NIL),
    "swap-id": ("swap", "id", NIL, NIL),
    "swapvals-inc": ("swapvals", "inc", NIL, NIL),
    "reset-1": ("reset", "-", I(1), NIL),
    "reset-5": ("reset", "-", I(5), NIL),
    "reset-nan": ("reset", "-", NAN, NIL),
    "resetvals-2": ("resetvals", "-", I(2), NIL),
    "cas-0-1": ("cas", "-", I(0), I(1)),
    "cas-1-7": ("cas", "-", I(1), I(7)),
    "cas-1-0": ("cas", "-", I(1), I(0)),
    "deref": ("deref", "-", NIL, NIL),
}


def fns(sched, nan_kind, slow):
    def wrap(g):
        def f(x, *extra):
            if extra:
                raise TypeError("update function called with extra arguments %r" % (extra,))
            if slow:
                sched.point()
            return g(x)
        return f
    return {
        "inc": wrap(lambda x: x + 1 if isinstance(x, (int, float)) and not isinstance(x, bool) else x),
        "dbl": wrap(lambda x: x * 2 if isinstance(x, (int, float)) and not isinstance(x, bool) else x),
        "zero": wrap(lambda x: 0),
        "tonan": wrap(lambda x: make_nan(nan_kind)),
        "id": wrap(lambda x: x),
        "throw": wrap(_throw),
    }


def _throw(x):
    raise FThrow()


VALIDATORS = {
    "none": None,
    "lt3": lambda v: isinstance(v, int) and not isinstance(v, bool) and v < 3,
    "int": lambda v: isinstance(v, int) and not isinstance(v, bool),
}

_core = {}


def core():
    if not _core:
        boot.init()
        for n in ["swap!", "reset!", "swap-vals!", "reset-vals!", "compare-and-set!", "deref", "add-watch"]:
            _core[n] = boot.core_fn(n)
    return _core


def make_scenario(sc):
    """sc = dict(progs=[[opname,...],...], validator, watch, nan, slow, init) -> make(sched) for dsched"""
    c = core()
    from basilisp.lang import atom as A

    def make(s):
        with dsched.patched():
            a = A.Atom(sc["init"], validator=VALIDATORS[sc["validator"]])
        F = fns(s, sc["nan"], sc["slow"])
        if sc["watch"]:
            def w(k, ref, old, new):
                s.log(k="watch", op="-", f="-", a=absval(old), b=absval(new), res=NIL)
            c["add-watch"](a, "w", w)

        def thread(prog):
            def run():
                for name in prog:
                    op, f, x, y = OPS[name]
                    s.log(k="call", op=op, f=f, a=x, b=y, res=NIL)
                    try:
                        if op == "swap":
                            r = c["swap!"](a, F[f])
                        elif op == "swapvals":
                            r = c["swap-vals!"](a, F[f])
                        elif op == "reset":
                            r = c["reset!"](a, conc(x, sc["nan"]))
                        elif op == "resetvals":
                            r = c["reset-vals!"](a, conc(x, sc["nan"]))
                        elif op == "cas":
                            r = c["compare-and-set!"](a, conc(x, sc["nan"]), conc(y, sc["nan"]))
                        else:
                            r = c["deref"](a)
                        res = absval(r)
                    except (dsched.Killed, dsched.StepLimit):
                        raise
                    except Exception as e:  # noqa
                        res = absexc(e)
                    s.log(k="ret", op="-", f="-", a=NIL, b=NIL, res=res)
            return run
        for i, prog in enumerate(sc["progs"]):
            s.spawn(i + 1, thread(prog))
        return lambda: absval(a.deref())
    return make


def to_trace(sc, events, final):
    return {"init": {"val": absval(sc["init"]), "validator": sc["validator"], "watch": bool(sc["watch"])},
            "ev": [{"k": e["k"], "t": e["t"], "op": e["op"], "f": e["f"], "a": e["a"], "b": e["b"],
                    "res": e["res"]} for e in events if e["k"] in ("call", "ret", "watch")],
            "final": final}


def explore_scenario(arg):
    sc, max_pre, limit, seed = arg
    out = {}     # canonical trace -> (trace, choices)
    fails = []   # (kind, choices)
    stats = {"schedules": 0, "preempted": 0}

    def on_result(s, final):
        stats["schedules"] += 1
        if s.preemptions():
            stats["preempted"] += 1
        choices = [t[1] for t in s.trace]
        if s.failed:
            if len(fails) < 3:
                fails.append((s.failed, choices))
            return
        excs = [(t, repr(st["exc"])) for t, st in s.threads.items() if st["exc"] is not None]
        if excs:
            if len(fails) < 3:
                fails.append(("harness-exception:%s" % excs, choices))
            return
        tr = to_trace(sc, s.events, final)
        key = json.dumps(tr, sort_keys=True)
        if key not in out:
            out[key] = (tr, choices)

    n, complete = dsched.explore(make_scenario(sc), TARGETS, max_preempt=max_pre, limit=limit, max_steps=800,
                                 on_result=on_result, seed=seed)
    stats["complete"] = complete
    return sc, list(out.values()), fails, stats


def scenarios(tier, rnd):
    singles = ["swap-inc", "swap-dbl", "swap-throw", "swapvals-inc", "reset-1", "reset-5", "resetvals-2",
               "cas-0-1", "cas-1-7", "deref", "swap-tonan", "reset-nan"]
    scs = []

    def add(progs, validator="none", nan="float", slow=False, init=0):
        scs.append({"progs": progs, "validator": validator, "watch": True, "nan": nan, "slow": slow, "init": init})
    # 2 threads x 1 op, all unordered pairs
    for p, q in itertools.combinations_with_replacement(singles, 2):
        add([[p], [q]], validator="none")
        if "nan" not in p + q:
            add([[p], [q]], validator="lt3")
    # values not equal to themselves, every concretisation; solo termination
    for nk in ("float", "vec", "obj"):
        add([["reset-nan", "swap-inc"], ["reset-1"]], nan=nk)
        add([["swap-tonan", "reset-5"], ["swap-id"]], nan=nk)
        add([["reset-nan", "reset-1"]], nan=nk)
        add([["swap-id"], ["deref"]], nan=nk, init=None)
    # 2 threads x 2 ops, slow update functions
    two = [["swap-inc", "swap-inc"], ["swap-inc", "deref"], ["reset-1", "swap-dbl"], ["cas-0-1", "cas-1-7"],
           ["swapvals-inc", "cas-1-0"], ["resetvals-2", "swap-inc"]]
    for p, q in itertools.combinations_with_replacement(two, 2):
        add([p, q], validator="lt3" if rnd.random() < 0.5 else "none", slow=True)
    if tier == "thorough":
        trip = ["swap-inc", "reset-1", "cas-0-1", "swapvals-inc", "deref", "swap-dbl", "cas-1-7", "reset-nan"]
        for p, q, r in itertools.combinations_with_replacement(trip, 3):
            add([[p], [q], [r]], validator="none")
        for p, q in itertools.combinations_with_replacement(two, 2):
            add([p, q, ["swap-inc"]], validator="none")
        for _ in range(60):
            add([[rnd.choice(singles) for _ in range(rnd.randint(1, 3))] for _ in range(rnd.randint(2, 3))],
                validator=rnd.choice(["none", "lt3", "int"]), nan=rnd.choice(["float", "vec", "obj"]),
                slow=rnd.random() < 0.5)
    return scs


def validate(chk, traces, name="Atom_Trace"):
    """batch trace validation; returns set of accepted indices (1-based)"""
    acc = set()
    B = 4000
    for off in range(0, len(traces), B):
        part = traces[off:off + B]
        p = tlc.write_json("atom_traces_%d" % off, part)
        r = tlc.run("Atom_Trace", "Atom_Trace.cfg", env={"TRACE_FILE": p}, timeout=1800)
        chk.add_tlc("Atom_Trace[%d..]" % off, r)
        if r.violated:
            # an invariant of the required spec broke on a matched prefix: find the traces one by one below
            pass
        acc |= {off + i for i in r.tagged("ACC")}
    return acc


def diagnose(chk, trace):
    p = tlc.write_json("atom_diag", [trace])
    r = tlc.run("Atom_Trace", "Atom_TraceDiag.cfg", env={"TRACE_FILE": p}, workers=1, timeout=300)
    ls = [x % 10000 for x in r.tagged("PFX")]
    reached = max(ls) if ls else 1
    n = len(trace["ev"])
    if reached > n:
        return "all %d events matched but final value %s or a pending call does not fit" % (n, trace["final"])
    return "event %d of %d has no matching step in Atom.tla: %s" % (reached, n, json.dumps(trace["ev"][reached - 1]))


def design_checks(chk):
    jobs = [("AtomImpl_MC.cfg", True), ("AtomImpl_MCnv.cfg", True), ("AtomImpl_NoLock.cfg", False),
            ("AtomImpl_DevEq.cfg", False)]
    if chk.tier == "thorough":
        jobs.append(("AtomImpl_MC3.cfg", True))
    for cfg, must_hold in jobs:
        r = tlc.run("AtomImpl_MC", cfg, timeout=3000)
        chk.add_tlc(cfg, r)
        if must_hold and (r.violated or not r.ok):
            chk.machinery("design check %s fails: %s\n%s" % (cfg, r.violated, r.error_trace()[:1500]))
        if not must_hold and not r.violated:
            chk.machinery("anti-vacuity: mutant model %s is not rejected by the design check" % cfg)


def run(chk):
    rnd = random.Random(chk.seed)
    core()
    chk.rule = ("scenario = 2-3 thread programs of 1-3 atom operations x validator x kind of not-self-equal "
                "value; every schedule with <= k pre-emptions is executed on the real Atom; distinct traces "
                "(call/ret/watch sequences) are validated by TLC against Atom.tla; non-trivial = trace of an "
                "execution with at least one pre-emption in which two calls overlap")
    design_checks(chk)
    scs = scenarios(chk.tier, rnd)
    max_pre = 2 if chk.tier == "quick" else 3
    limit = 700 if chk.tier == "quick" else 20000
    ctx = mp.get_context("fork")
    with ctx.Pool(16) as pool:
        results = pool.map(explore_scenario, [(sc, max_pre, limit, chk.seed + i) for i, sc in enumerate(scs)], chunksize=1)
    traces, origin = [], []
    nsched = 0
    for sc, trs, fails, stats in results:
        nsched += stats["schedules"]
        for kind, choices in fails:
            clause = "Atom!Termination" if kind.startswith("steplimit") else (
                "Atom!NoDeadlock" if kind == "deadlock" else "Atom!CallsReturn")
            chk.discrepancy(clause, {"scenario": sc, "schedule": choices}, "every call returns", kind,
                            module="Atom", direction="code->spec")
        for tr, choices in trs:
            traces.append(tr)
            origin.append((sc, choices))
    chk.count(nsched)
    for i, tr in enumerate(traces):
        tr["id"] = i + 1
        if _overlaps(tr):
            chk.nontriv(n=1)
    acc = validate(chk, traces)
    chk.count(0, traces=len(traces))
    ndiag = 0
    for i, tr in enumerate(traces):
        if (i + 1) not in acc:
            sc, choices = origin[i]
            ndiag += 1
            why = diagnose(chk, tr) if ndiag <= 8 else "rejected by Atom_Trace (not diagnosed: more than 8 rejections)"
            chk.discrepancy("Atom_Trace!Accept", {"scenario": sc, "schedule": choices},
                            "a behaviour of Atom.tla (linearizable, truthful results, real watch transitions)",
                            why, module="Atom_Trace", direction="code->spec", extra={"trace": tr})
    for tr in traces[:: max(1, len(traces) // 4)][:4]:
        chk.sample({"trace": tr})
    chk.extra.update({"scenarios": len(scs), "schedules_executed": nsched,
                      "scenarios_explored_completely_within_bound": sum(1 for r in results if r[3]["complete"]), "distinct_traces": len(traces),
                      "preemption_bound": max_pre})


def _overlaps(tr):
    open_ = set()
    for e in tr["ev"]:
        if e["k"] == "call":
            if open_:
                return True
            open_.add(e["t"])
        elif e["k"] == "ret":
            open_.discard(e["t"])
    return False


def replay(chk, body):
    core()
    case = body["case"]
    sc, choices = case["scenario"], case["schedule"]
    s, final = dsched.run_one(make_scenario(sc), TARGETS, choices=choices, max_steps=800)
    chk.count(1)
    print("schedule outcome:", s.failed, "final:", final)
    for e in s.events:
        if e["k"] != "lock":
            print("  ", e)
    if s.failed:
        chk.discrepancy(body["clause"], case, "every call returns", s.failed, module="Atom", direction="replay")
        return
    tr = to_trace(sc, s.events, final)
    tr["id"] = 1
    acc = validate(chk, [tr])
    if 1 not in acc:
        chk.discrepancy("Atom_Trace!Accept", case, body["expected"], diagnose(chk, tr), module="Atom_Trace",
                        direction="replay", extra={"trace": tr})
