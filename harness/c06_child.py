"""Child interpreter of the C06 check: executes multi-threaded scenarios on ONE real lazy sequence each.

usage: python c06_child.py <batch.json>

A scenario = {id, n, progs: [[op,...],...], plan: [{park, throw, re},...], hist: [{a: go|res, t},...]}:
  * cell k (1..n) of the sequence is a real basilisp LazySeq made by the real `lazy-seq` macro whose body
    calls the harness producer; cell n produces nil, cell k < n produces (cons <element k> <cell k+1>);
  * the producer logs pstart/pend, parks on a threading.Event when the plan says so (Event.wait releases the
    interpreter lock -- "the producer blocks outside the GIL" is literally true), performs an operation on
    its own cell when the plan says so, raises ProducerError on its first attempt when the plan says so;
  * consumer thread t performs its program with the real basilisp.core first/seq/rest/next/count, walking
    from the head, logging call/ret;
  * the controller (main thread) follows the decisions `hist` TLC proposed (start the next call of thread t /
    release the parked producer of thread t), waiting after each decision until every thread is idle, parked,
    or has been silent for a grace period (inferred "blocked in native code" -- used ONLY to steer), then
    lets everything run to completion.
Everything observable goes to stdout, one line each, written under the log lock (order = sequence order):
  R                       ready (basilisp initialised)
  B <id>                  scenario begins
  E <json event>          event {k, t, op, c, ok, res}
  H                       heartbeat of the controller (it holds the interpreter lock now and then)
  D <json>                scenario finished {id, status: ok|stuck, skipped}
  X                       batch finished
No verdict is computed here.
"""
import json
import os
import sys
import threading
import time

import boot

NIL = {"ty": "nil", "i": 0}
EXC = {"ty": "exc", "i": 0}
EMPTYV = {"ty": "empty", "i": 0}

_out_lock = threading.Lock()


def out(line):
    os.write(1, (line + "\n").encode())


class ProducerError(Exception):
    pass


class Env:
    def __init__(self):
        boot.init()
        from basilisp.lang import seq as lseq
        self.lseq = lseq
        self.core = {n: boot.core_fn(n) for n in ("first", "seq", "rest", "next", "count", "cons")}
        s = boot.Scratch("verif.c06child")
        # the real lazy-seq macro; the body calls the harness producer
        self.factory = s.eval("(fn [prod] (fn mk [k] (lazy-seq (prod mk k))))")


def elem(k):
    return 1000 + k


class Scenario:
    def __init__(self, env, sc, grace, stuck):
        self.env, self.sc = env, sc
        self.n = sc["n"]
        self.plan = sc["plan"]
        self.grace, self.stuck = grace, stuck
        self.cells, self.conses, self.att = {}, {}, {}
        self.cv = threading.Condition()
        self.state = {}       # t -> idle | running | parked | done
        self.go = {}          # t -> Event
        self.park_ev = {}     # t -> Event of the parked producer
        self.last = time.monotonic()
        self.tl = threading.local()
        self.mk = env.factory(self.prod)
        self.cells[1] = self.mk(1)
        self.nev = 0
        self.nevt = {}        # t -> events logged by thread t

    # ---- log ----------------------------------------------------------------------------------
    def log(self, k, t, op="-", c=0, ok=True, res=NIL):
        with _out_lock:
            self.nev += 1
            self.nevt[t] = self.nevt.get(t, 0) + 1
            out("E " + json.dumps({"k": k, "t": t, "op": op, "c": c, "ok": ok, "res": res}, separators=(",", ":")))
        self.last = time.monotonic()

    def set_state(self, t, s):
        with self.cv:
            self.state[t] = s
            self.cv.notify_all()

    # ---- the producer (runs inside the native LazySeq, in whatever thread demanded the cell) ---------
    def prod(self, mk, k):
        t = self.tl.tid
        with _out_lock:
            self.att[k] = a = self.att.get(k, 0) + 1
        self.log("pstart", t, c=k)
        pl = self.plan[k - 1]
        if pl["park"]:
            ev = threading.Event()
            self.park_ev[t] = ev
            self.log("park", t, c=k)
            self.set_state(t, "parked")
            ev.wait()                       # the interpreter lock is released here
            self.log("resume", t, c=k)
            self.set_state(t, "running")
        if pl["re"] != "-":
            self.do_call(t, pl["re"], self.cells[k], k)
        if pl["throw"] and a == 1:
            self.log("pend", t, c=k, ok=False)
            raise ProducerError("producer of cell %d" % k)
        if k == self.n:
            self.log("pend", t, c=k, ok=True)
            return None
        nxt = mk(k + 1)
        r = self.env.core["cons"](elem(k), nxt)
        with _out_lock:
            self.cells[k + 1] = nxt
            self.conses[k] = r
        self.log("pend", t, c=k, ok=True)
        return r

    # ---- one consumer operation ---------------------------------------------------------------------
    def which(self, r):
        for k, o in list(self.conses.items()):
            if o is r:
                return "seq", k
        for k, o in list(self.cells.items()):
            if o is r:
                return "cell", k
        return None, 0

    def absres(self, op, r):
        if op == "count":
            return {"ty": "int", "i": r} if isinstance(r, int) and not isinstance(r, bool) else {"ty": "other", "i": 0}
        if r is None:
            return NIL
        if op == "first":
            if isinstance(r, int) and 1000 < r <= 1000 + self.n:
                return {"ty": "int", "i": r - 1000}
            return {"ty": "other", "i": 0}
        if r is self.env.lseq.EMPTY:
            return EMPTYV
        kind, k = self.which(r)
        if kind is None:
            return {"ty": "other", "i": 0}
        if op == "rest":
            return {"ty": "cell", "i": k}
        return {"ty": "seq", "i": k}

    def do_call(self, t, op, h, c):
        self.log("call", t, op=op, c=c)
        try:
            r = self.env.core[op](h)
            res = self.absres(op, r)
        except ProducerError:
            r, res = None, EXC
        except BaseException as e:  # noqa  (a Rust panic surfaces as a BaseException)
            r, res = None, {"ty": "exc", "i": 1}
            sys.stderr.write("scenario %s: %s(%d) raised %r\n" % (self.sc["id"], op, c, e))
        self.log("ret", t, res=res)
        return r, res

    def worker(self, t, prog):
        self.tl.tid = t
        h, c = self.cells[1], 1
        for i, op in enumerate(prog):
            self.go[t].wait()
            self.go[t].clear()
            self.set_state(t, "running")
            r, res = self.do_call(t, op, h, c)
            if res["ty"] in ("cell", "seq"):
                h, c = r, res["i"]
            elif res["ty"] == "empty" or (res["ty"] == "nil" and op in ("next", "seq")) or res["ty"] == "other":
                break           # nothing left to ask of nil / the empty seq
            if i + 1 < len(prog):
                self.set_state(t, "idle")
        self.set_state(t, "done")

    # ---- the controller ---------------------------------------------------------------------------
    def settle(self, hb, woken=None):
        """wait until every thread is idle / parked / done, or has been silent for the grace period.
        woken = (t, n): the thread just started / released has to log its n-th event first (its `call` or
        `resume`), so that a slow machine does not make it look blocked before it has even been scheduled"""
        if woken is not None:
            t, n = woken
            t0 = time.monotonic()
            while self.nevt.get(t, 0) < n and time.monotonic() - t0 < 10.0:
                with self.cv:
                    self.cv.wait(0.002)
                hb()
            self.last = time.monotonic()
        while True:
            with self.cv:
                busy = [t for t, s in self.state.items() if s == "running"]
                if not busy:
                    return True
                self.cv.wait(0.002)
            now = time.monotonic()
            if now - self.last >= self.grace:
                return False
            hb()

    def run(self):
        sc = self.sc
        ths = []
        for i, prog in enumerate(sc["progs"]):
            t = i + 1
            self.state[t] = "idle" if prog else "done"
            self.go[t] = threading.Event()
            th = threading.Thread(target=self.worker, args=(t, prog), daemon=True)
            ths.append(th)
            th.start()
        lasthb = [time.monotonic()]

        def hb():
            now = time.monotonic()
            if now - lasthb[0] >= 0.1:
                lasthb[0] = now
                with _out_lock:
                    out("H")

        skipped = 0

        def decide(a, t):
            """-> None (not applicable now) or (t, number of events thread t will have logged once it is under way)"""
            with self.cv:
                s = self.state.get(t)
            n = self.nevt.get(t, 0) + 1
            if a == "go" and s == "idle":
                self.last = time.monotonic()
                self.set_state(t, "running")
                self.go[t].set()
                return (t, n)
            if a == "res" and s == "parked":
                self.last = time.monotonic()
                self.set_state(t, "running")
                self.park_ev[t].set()
                return (t, n)
            return None

        for d in sc["hist"]:
            w = decide(d["a"], d["t"])
            if w is None:
                skipped += 1
            self.settle(hb, w)
        # let everything finish: release parked producers, start remaining calls, lowest thread first
        t0 = time.monotonic()
        while True:
            with self.cv:
                st = dict(self.state)
            if all(s == "done" for s in st.values()):
                break
            acted = None
            for t in sorted(st):
                if st[t] == "parked":
                    acted = decide("res", t)
                elif st[t] == "idle":
                    acted = decide("go", t)
                if acted:
                    break
            if acted:
                t0 = time.monotonic()
                self.settle(hb, acted)
                continue
            # nothing to start or release: threads are inside calls (possibly waiting for each other)
            with self.cv:
                self.cv.wait(0.01)
            hb()
            if time.monotonic() - max(t0, self.last) > self.stuck:
                return "stuck", skipped
        for th in ths:
            th.join(5)
        return "ok", skipped


def main():
    batch = json.load(open(sys.argv[1]))
    sys.setswitchinterval(0.0005)
    env = Env()
    with _out_lock:
        out("R")
    for sc in batch["scenarios"]:
        with _out_lock:
            out("B %s" % sc["id"])
        s = Scenario(env, sc, batch["grace"], batch["stuck"])
        status, skipped = s.run()
        with _out_lock:
            out("D " + json.dumps({"id": sc["id"], "status": status, "skipped": skipped}))
        if status != "ok":
            os._exit(3)
    with _out_lock:
        out("X")
    os._exit(0)


if __name__ == "__main__":
    main()
