"""Execute programs of the C01/C02 corpus on the real compiler + runtime and project what happened.

run_batch(items, opts) with items = [(id, lisp text)] -> [(id, outcome, val, log)]
  outcome "val": val is the projected result; outcome "exc": val = {"ty": "exc", "c": <class name>}
The effect marker `m` is a real function interned in the scratch namespace: (m k) logs k and returns k,
(m k v) logs k and returns v.
"""
import os

import boot

os.environ.setdefault("BASILISP_EMIT_GENERATED_PYTHON", "false")

_state = {}


def project(v, depth=0):
    from basilisp.lang import keyword as kw, vector as vec, runtime
    from basilisp.lang.interfaces import ISeq
    if v is None:
        return {"ty": "nil"}
    if isinstance(v, bool):
        return {"ty": "bool", "i": 1 if v else 0}
    if isinstance(v, int):
        return {"ty": "int", "i": v}
    if isinstance(v, kw.Keyword):
        return {"ty": "kw", "n": (v.ns + "/" if v.ns else "") + v.name}
    if isinstance(v, vec.PersistentVector):
        return {"ty": "vec", "xs": [project(x, depth + 1) for x in v]}
    if isinstance(v, runtime.Var):
        return {"ty": "var", "n": v.name.name}
    if isinstance(v, Obj):
        return {"ty": "obj"}
    if isinstance(v, runtime.Unbound):
        return {"ty": "unbound"}
    if isinstance(v, BaseException):
        return {"ty": "exc", "c": type(v).__name__}
    if callable(v) and not isinstance(v, type):
        return {"ty": "fn"}
    if isinstance(v, ISeq):
        return {"ty": "seq", "xs": [project(x, depth + 1) for x in v]}
    return {"ty": "other", "c": type(v).__name__}


class Obj:
    """the harness object `o`: reading property p<n> logs 100+n (and yields n, nil for n = 0); calling method
    m<n> logs 200+n and returns the vector of its arguments"""

    def __init__(self, log):
        self._log = log

    def _p(self, n):
        self._log.append(100 + n)
        return n if n else None

    def _m(self, n, args):
        from basilisp.lang import vector as vec
        self._log.append(200 + n)
        return vec.vector(args)


for _n in range(4):
    setattr(Obj, "p%d" % _n, property(lambda self, _n=_n: self._p(_n)))
    setattr(Obj, "m%d" % _n, lambda self, *args, _n=_n: self._m(_n, args))


class _Identity:
    """stands in for PythonASTOptimizer: the generated module body is compiled as generated"""

    def visit(self, node):
        return node


class Runner:
    def __init__(self, opts):
        boot.init()
        from basilisp.lang import runtime, symbol as sym
        self.opts = {k: v for k, v in opts.items() if not k.startswith("__")}
        self.noopt = bool(opts.get("__noopt"))
        self.log = []
        self.sc = None
        self.n = 0
        self._fresh()

    def _fresh(self):
        from basilisp.lang import runtime, symbol as sym
        if self.sc is not None:
            self.sc.remove()
        self.sc = boot.Scratch(warn_on_unused_names=False, warn_on_shadowed_name=False,
                               warn_on_shadowed_var=False, warn_on_arity_mismatch=False,
                               warn_on_var_indirection=False, **self.opts)
        if self.noopt:
            self.sc.ctx._optimizer = _Identity()
        log = self.log

        def m(k, *v):
            log.append(k)
            return v[0] if v else k
        runtime.Var.intern(self.sc.ns, sym.symbol("m"), m)
        runtime.Var.intern(self.sc.ns, sym.symbol("o"), Obj(log))
        self.dirty = False

    def run(self, text):
        if self.dirty or self.n % 200 == 199:
            self._fresh()
        self.n += 1
        if "(def " in text:
            self.dirty = True
        del self.log[:]
        try:
            v = self.sc.eval(text)
            out = ("val", project(v))
        except RecursionError:
            out = ("exc", {"ty": "exc", "c": "RecursionError"})
        except Exception as e:  # noqa
            out = ("exc", {"ty": "exc", "c": type(e).__name__})
            self.dirty = True
        return out[0], out[1], list(self.log)


def run_batch(arg):
    items, opts = arg
    key = tuple(sorted(opts.items()))
    r = _state.get(key)
    if r is None:
        r = _state[key] = Runner(opts)
    return [(i,) + r.run(text) for i, text in items]
