"""C14 -- cached namespace bytecode is transparent and never used when invalid.

design check   CacheImpl_MC (Cache.tla = required loader + environment, CacheImpl.tla = as built with the keyword
               intern table): invariants NeverExecStale, CacheSound, LoadRunsCurrent, ValidAfterLoad,
               FailedLeavesNoValidCache, SnapshotEqual, refinement of Cache, termination of loads -- on the whole
               reachable state space (2 seeds, 3 source versions, edits of the source during a load included);
               eight mutant / deviation configurations must be rejected.
spec -> code   EDGE COVER (DESIGN 3.5).  TLC prints every edge of the state graph of CacheImpl (edits only between
   (A)         loads).  The loader's behaviour is a function of (source stat, cache bytes, seed), so every StartLoad
               edge is replayed on its own: the abstract source state is materialised on real files (a generated
               namespace under a temporary sys.path root, mtime and size set, the cache file made from a real cache
               written by a real process under the given seed, truncated to a byte offset of the abstract prefix
               class / given another magic number), ONE child interpreter (harness/c14_child.py, PYTHONHASHSEED =
               the edge's seed, own PYTHONPYCACHEPREFIX, bytecode writing as the edge says) performs the load, and
               its events are walked through the graph edge by edge: ReadCache, Decide, ExecCached | Recompile,
               WriteBegin/WriteBytes/WriteEnd, Snapshot, Exit; the file left behind must be the cache of the state
               TLC reached.  Crash edges of the writing phase are replayed by letting the child die inside the real
               set_data() after k bytes.
   (B)         decoding layer, in-process: importer._get_basilisp_bytecode on EVERY truncation length and every
               header perturbation of real cache files; TLC's decision table (TAB) says use / fall back and which
               exception families mean "fall back".
   (C)         bundled library namespaces: written from source under one seed, loaded from cache under others,
               compared with the from-source load under the reader's seed.
"""
import concurrent.futures as cf
import json
import marshal
import os
import random
import re
import shutil
import subprocess
import sys
import threading
import time
import types

import repo
import tlc

PAR = int(os.environ.get("C14_PAR") or 16)
MODULE = "c14gen.alpha"
REL = os.path.join("c14gen", "alpha.lpy")
CHILD = os.path.join(repo.HARNESS, "c14_child.py")
BAD = {2}                       # BadVersions of the configurations (V2)
PHASES = ["started", "read", "use", "fallback", "towrite", "writing", "done", "failed"]
IMPL_ACTS = ("StartLoad", "ReadCache", "Decide", "ExecCached", "Recompile", "WriteBegin", "WriteBytes", "WriteEnd",
             "Snapshot", "Exit")
ENV_ACTS = ("EditSource", "RemoveCache", "OtherMagic")

# ------------------------------------------------------------------------------------------------------
# generated namespaces
# ------------------------------------------------------------------------------------------------------
SMALL = r'''(ns c14gen.alpha
  "generated namespace, version @V@"
  (:require [basilisp.string :as str]))

(def version "C14-VERSION-@V@")
(def ^{:c14/tag :c14/meta-@V@ :doc "a number"} number @V@1)
(def kw :c14-a)
(def nskw ::own)
(def coll {:c14-a [1 2.5 "s" \c 3/4 1.5M #{:c14-b} 'sym/bol nil true]
           :c14-k@V@ #uuid "6ba7b810-9dad-11d1-80b4-00c04fd430c8"})
(defn f [] :c14-a)
(defn g [x] (identical? x :c14-a))
(defn h [m] (:c14-a m))
(defn ^:private hidden [] @V@)
(defmacro mac [x] `(vector ~x :c14-a))
(def re #"a+b@V@")
@BAD@
(def printed (pr-str coll))
(def sym-with-meta '^{:c14-m @V@} s)
(def lazy (map inc [1 2 @V@]))
(defn case-fn [x] (case x :c14-a 1 :c14-b 2 0))
(defn in-set [x] (contains? #{:c14-a :c14-b} x))
(defn lookup [x] (get {:c14-a @V@} x))
(def ^:dynamic *dyn* :c14-b)
(def upper (str/upper-case "abc@V@"))
(defn only-in-@V@ [] @V@)
'''
BIG = SMALL + r'''
(defprotocol Shape (area [this]) (describe [this opt]))
(defrecord Rec [a b] Shape (area [this] (* a b)) (describe [this opt] [:c14-a opt a]))
(deftype Box [w] Shape (area [this] (* w w)) (describe [this opt] [:c14-b opt w]))
(def rec (->Rec :c14-a @V@))
(defmulti mm (fn [x] (:kind x)))
(defmethod mm :c14-a [x] [:is-a @V@])
(defmethod mm :default [x] :c14-default)
(defn variadic ([] 0) ([a] a) ([a & more] (apply + a more)))
(defn destr [{:keys [c14-a c14-b] :or {c14-b @V@}}] [c14-a c14-b])
(def nested {:c14-a {:c14-b [#{:c14-a} '(:c14-a :c14-b) {:c14-k@V@ #inst "2020-01-0@V@T00:00:00Z"}]}})
(def strs (mapv #(str "s" % "-@V@") (range 40)))
(defn looped [n] (loop [i 0 acc []] (if (< i n) (recur (inc i) (conj acc (keyword (str "c14-" i)))) acc)))
(def py-things [#py [1 2 @V@] #py {"k" @V@} #py (1 2) #py #{@V@}])
(def ^{:c14/rich {:c14-a [1 2 @V@] :c14-b #{:x :y}}} rich-meta @V@)
'''
TEMPLATES = {"small": SMALL, "big": BIG}
BAD_FORMS = {"throw": '(throw (ex-info "C14 bad version" {:v 2}))',
             "unresolved": "(def oops (undefined-symbol-c14 1))",
             "eof": "(def unbalanced [1 2"}

# forms compiled FROM SOURCE in the loading process after the import.  cross: is the keyword held by the loaded
# namespace the very object this process gets for the same keyword (the specification's `identical`)?
# within: two references inside the loaded namespace.  value: anything else (compared with a from-source load).
CALLER = [
    ("cross", "(identical? (c14gen.alpha/f) :c14-a)"),
    ("cross", "(c14gen.alpha/g :c14-a)"),
    ("cross", "(identical? c14gen.alpha/kw :c14-a)"),
    ("cross", '(identical? (c14gen.alpha/f) (keyword "c14-a"))'),
    ("cross", "(identical? c14gen.alpha/nskw :c14gen.alpha/own)"),
    ("cross", "(identical? c14gen.alpha/*dyn* :c14-b)"),
    ("within", "(c14gen.alpha/g (c14gen.alpha/f))"),
    ("within", "(identical? c14gen.alpha/kw (c14gen.alpha/f))"),
    ("value", "(= (c14gen.alpha/f) :c14-a)"),
    ("value", "(= (hash (c14gen.alpha/f)) (hash :c14-a))"),
    ("value", "(c14gen.alpha/h {:c14-a 5})"),
    ("value", "(c14gen.alpha/case-fn :c14-a)"),
    ("value", "(c14gen.alpha/in-set :c14-a)"),
    ("value", "(c14gen.alpha/lookup :c14-a)"),
    ("value", "(c14gen.alpha/mac 1)"),
    ("value", "(get c14gen.alpha/coll :c14-a)"),
    ("value", "(:doc (meta (var c14gen.alpha/number)))"),
    ("value", "(:c14/tag (meta (var c14gen.alpha/number)))"),
    ("value", "(binding [c14gen.alpha/*dyn* 1] c14gen.alpha/*dyn*)"),
    ("value", "(re-matches c14gen.alpha/re \"aab1\")"),
]
CALLER_TEXT = "\n".join(t for _, t in CALLER)
KWNAMES = ["c14-a"]

M_BASE = 1_700_000_000
MT_DELTAS = [1, 0x10000, -1, 0x100, 0x1000000, -0x10000]
SZ_DELTAS = [1, 256, 2, 4096]
SEED_PAIRS = [(1, 2), (11, 4242), (2, 0)]
BADKINDS = ["throw", "unresolved", "eof"]


def make_concs(tier):
    """the concretisations: how abstract mtimes / sizes / seeds / the failing version become concrete"""
    out = []
    n = 3 if tier == "quick" else 8
    for i in range(n):
        out.append({"id": i, "tpl": "big" if i % 3 == 2 else "small", "seeds": list(SEED_PAIRS[0 if tier == "quick" else i % 3]),
                    "mt": MT_DELTAS[i % len(MT_DELTAS)], "sz": SZ_DELTAS[i % len(SZ_DELTAS)],
                    "bad": BADKINDS[i % 3]})
    return out


def ns_text(conc, v):
    t = TEMPLATES[conc["tpl"]].replace("@BAD@", BAD_FORMS[conc["bad"]] if v in BAD else "")
    return t.replace("@V@", str(v))


def base_len(conc):
    return max(len(ns_text(conc, v).encode()) for v in (1, 2, 3)) + 8


def conc_mtime(conc, m):
    return M_BASE + (m - 1) * conc["mt"]


def conc_size(conc, z):
    return base_len(conc) + (z - 1) * conc["sz"]


def conc_seed(conc, s):
    return conc["seeds"][s - 1]


def source_bytes(conc, v, z):
    b = ns_text(conc, v).encode()
    pad = conc_size(conc, z) - len(b)
    assert pad >= 2
    return b + b"\n;" + b"p" * (pad - 2)


# ------------------------------------------------------------------------------------------------------
# the state graph
# ------------------------------------------------------------------------------------------------------
def tup(x):
    return tuple(tup(y) for y in x) if isinstance(x, list) else x


def parse_edges(out):
    edges = []
    for line in out.splitlines():
        if line.startswith('<<"EDGE", '):
            edges.append(json.loads(json.loads(line.rstrip()[10:-2])))
    return edges


class Graph:
    def __init__(self, edges):
        self.succ = {}
        self.edges = []
        for a, args, f, t, valid in edges:
            f, t, args = tup(f), tup(t), tup(args)
            self.succ.setdefault(f, {})[(a, args)] = (t, valid)
            self.edges.append((f, a, args))
        self.all = set(self.edges)

    def add(self, edges):
        """further edges (of loads during which the source is edited); not counted in the cover"""
        for a, args, f, t, valid in edges:
            self.succ.setdefault(tup(f), {})[(a, tup(args))] = (tup(t), valid)

    def step(self, s, act, args=()):
        e = self.succ.get(s, {}).get((act, args))
        if e is None:
            raise RuntimeError("state graph has no edge %s%s from %s" % (act, args, s))
        return e


def st_hist(s):
    return s[0]


def st_cache(s):
    return s[1]


def st_proc(s):
    p = s[2]
    if not p:
        return None
    return {"seed": p[0], "write": p[1], "phase": PHASES[p[2] - 1], "stat": (p[3], p[4]), "got": p[5],
            "seen": p[6], "full": p[7], "wpos": p[8]}


def st_ran(s):
    r = s[3]
    return {"v": r[0], "from": "cache" if r[1] else "source", "ok": bool(r[2]), "complete": bool(r[3]),
            "writer": r[4]} if r else None


def st_snap(s):
    x = s[4]
    return {"ok": bool(x[0]), "code": x[1], "identical": bool(x[2])} if x else None


def file_rec(c):
    """wire file tuple -> dict | 'absent' | None"""
    if c == (0,):
        return "absent"
    if not c:
        return None
    return {"magicOk": bool(c[0]), "mtimeBytes": c[1], "mtimeVal": c[2], "sizeBytes": c[3], "sizeVal": c[4],
            "payload": ("none", "partial", "full")[c[5]], "ofVersion": c[6], "writerSeed": c[7]}


def file_pos(c):
    """prefix class 0..11 of a file record, or 'other' (complete file with another magic number)"""
    if not c["magicOk"] and c["mtimeBytes"] == 4:
        return "other"
    if not c["magicOk"]:
        return 0
    if c["mtimeBytes"] < 4:
        return 1 + c["mtimeBytes"]
    if c["sizeBytes"] < 4:
        return 5 + c["sizeBytes"]
    return 9 + ("none", "partial", "full").index(c["payload"])


def load_class(pre, seed, write, coarse):
    """projection of a StartLoad edge onto what the loader can depend on (used to pick representatives)"""
    hist, cache = pre[0], file_rec(pre[1])
    v = len(hist)
    m, z = hist[-1]
    if cache == "absent":
        c = ("absent",)
    else:
        pos = file_pos(cache)
        mm, zm, vv, ss = cache["mtimeVal"] == m, cache["sizeVal"] == z, cache["ofVersion"] == v, cache["writerSeed"] == seed
        if coarse:
            hdr = pos == "other" or pos >= 9
            c = (pos, mm if (pos == "other" or pos >= 5) else None, zm if hdr else None, vv,
                 ss if pos in (11, "other") else None)
        else:
            c = (pos, mm, zm, vv, ss)
    return (v not in BAD, c, write)


def class_text(cl):
    ok, c, write = cl
    if c == ("absent",):
        cs = "cache=absent"
    else:
        cs = "cache=pos:%s,mtime%s,size%s,%s-version,%s-seed" % (
            c[0], {True: "=", False: "#", None: "?"}[c[1]], {True: "=", False: "#", None: "?"}[c[2]],
            "same" if c[3] else "other", {True: "same", False: "other", None: "any"}[c[4]])
    return "src=%s %s write=%d" % ("ok" if ok else "failing", cs, write)


# ------------------------------------------------------------------------------------------------------
# running child interpreters
# ------------------------------------------------------------------------------------------------------
def copy_cache(src, dst):
    """copy a bytecode cache directory that other processes may be writing to (files may vanish meanwhile)"""
    def cp(a, b):
        try:
            shutil.copy2(a, b)
        except FileNotFoundError:
            pass
    try:
        shutil.copytree(src, dst, copy_function=cp)
    except shutil.Error:
        pass


class Run:
    """directories, the private bytecode cache and the child environment of one run of the check"""

    def __init__(self):
        self.dir = os.path.join(repo.WORK, "c14_%d" % os.getpid())
        shutil.rmtree(self.dir, ignore_errors=True)
        os.makedirs(self.dir)
        self.pyc = os.path.join(self.dir, "pyc")
        shared = os.path.join(repo.WORK, "pyc", repo.tree_hash())
        copy_cache(shared, self.pyc)               # core etc. start from their (valid) caches; nothing shared is written
        self.n = 0
        self.lock = threading.Lock()
        self.envs = {}
        self.children = 0
        from basilisp import importer
        self.importer = importer
        self.magic = importer.MAGIC_NUMBER

    def env(self, hashseed, pyc=None):
        k = (hashseed, pyc)
        if k not in self.envs:
            self.envs[k] = repo.child_env(str(hashseed), pyc=pyc or self.pyc)
        return self.envs[k]

    def newdir(self, kind):
        with self.lock:
            self.n += 1
            d = os.path.join(self.dir, "%s%05d" % (kind, self.n))
        os.makedirs(d)
        return d

    def cache_path(self, source, pyc=None):
        import importlib.util
        old = sys.pycache_prefix
        with self.lock:
            sys.pycache_prefix = pyc or self.pyc
            try:
                return self.importer._cache_from_source(source)
            finally:
                sys.pycache_prefix = old

    def child(self, d, job, hashseed, pyc=None, timeout=900):
        """-> (result dict | None, returncode, stderr tail)"""
        job = dict(job, out=os.path.join(d, "out.json"))
        jp = os.path.join(d, "job.json")
        with open(jp, "w") as f:
            json.dump(job, f)
        for attempt in (1, 2):
            try:
                p = subprocess.run([repo.PY, CHILD, jp], env=self.env(hashseed, pyc), stdout=subprocess.PIPE,
                                   stderr=subprocess.PIPE, text=True, timeout=timeout, cwd=d)
                break
            except subprocess.TimeoutExpired:
                if attempt == 2:
                    return None, -9, "timeout"
        with self.lock:
            self.children += 1
        try:
            res = json.load(open(job["out"]))
        except (OSError, ValueError):
            res = None
        return res, p.returncode, p.stderr[-1500:]

    def close(self):
        shutil.rmtree(self.dir, ignore_errors=True)


def read_file(p):
    try:
        with open(p, "rb") as f:
            return f.read()
    except FileNotFoundError:
        return None


GENSYM = re.compile(r"_\d+\b")
ROOTS = re.compile(re.escape(os.path.join(repo.WORK, "c14_")) + r"\d+/[a-z]\d+/root")


def norm(x, root):
    """modulo what the property does not fix: where the temporary directory is, gensym suffixes"""
    if isinstance(x, str):
        return GENSYM.sub("_N", ROOTS.sub("<ROOT>", x.replace(root, "<ROOT>")))
    if isinstance(x, list):
        return [norm(y, root) for y in x]
    if isinstance(x, dict):
        return {k: norm(v, root) for k, v in x.items()}
    return x


# ------------------------------------------------------------------------------------------------------
# one load: materialise, run, collect
# ------------------------------------------------------------------------------------------------------
def offsets_of_class(pos, n):
    """byte offsets (file lengths) of prefix class pos of a complete file of n bytes"""
    if pos == 0:
        return [0, 1, 2, 3]
    if 1 <= pos <= 8:
        return [3 + pos]
    if pos == 9:
        return [12]
    if pos == 10:
        return list(range(13, n))
    return [n]


def code_boundaries(data):
    """offsets at which a marshalled code object starts (type code 'c', possibly with the reference flag)"""
    return [i for i in range(12, len(data)) if data[i] in (0x63, 0xe3)]


def partial_offsets(data, tier, many):
    n = len(data)
    pts = {13, 14, 15, 16, 20, n - 1, n - 2, n - 3, n // 2, n // 3, (2 * n) // 3}
    bs = code_boundaries(data)
    for b in bs[:: max(1, len(bs) // (8 if not many else 40))]:
        pts.update((b, b + 1, b - 1))
    if many:
        pts.update(range(13, n, max(1, n // 150)))
    return sorted(k for k in pts if 13 <= k < n)


class Load:
    """a StartLoad edge (and possibly a Crash in the writing phase) with its concretisation"""

    def __init__(self, pre, seed, write, conc, offset=None, magic_variant=0, crash=None, tag="", edit=None):
        self.pre, self.seed, self.write, self.conc = pre, seed, write, conc
        self.offset, self.magic_variant, self.crash, self.tag = offset, magic_variant, crash, tag
        self.edit = edit            # {"phase", "m", "z"}: EditSource(m, z) while the load is in that phase
        self.res = self.rc = self.err = None
        self.before = self.after = None
        self.root = None

    def case(self):
        return {"kind": "load", "pre": [list(map(list, self.pre[0])), list(self.pre[1])], "seed": self.seed,
                "write": self.write, "conc": self.conc, "offset": self.offset, "magic_variant": self.magic_variant,
                "crash": self.crash, "edit": self.edit}


def ref_key(conc, c):
    return (conc["id"], c["ofVersion"], c["writerSeed"], c["mtimeVal"], c["sizeVal"])


def materialise_cache(run, load, refs):
    """bytes of the cache file of the load's source state (None = absent)"""
    c = file_rec(load.pre[1])
    if c == "absent":
        return None
    full = refs[ref_key(load.conc, c)]
    pos = file_pos(c)
    if pos == "other":
        b = bytearray(full)
        i = load.magic_variant % 4
        b[i] ^= 1 << (load.magic_variant // 4 % 8)
        return bytes(b)
    k = load.offset if load.offset is not None else offsets_of_class(pos, len(full))[0]
    assert k in offsets_of_class(pos, len(full)) or (pos == 10 and 12 < k < len(full)), (pos, k, len(full))
    return full[:k]


def execute(run, load, refs):
    d = run.newdir("e")
    conc = load.conc
    root = os.path.join(d, "root")
    os.makedirs(os.path.join(root, "c14gen"))
    src = os.path.join(root, REL)
    hist = load.pre[0]
    v = len(hist)
    m, z = hist[-1]
    with open(src, "wb") as f:
        f.write(source_bytes(conc, v, z))
    mt = conc_mtime(conc, m)
    os.utime(src, (mt, mt))
    cp = run.cache_path(src)
    before = materialise_cache(run, load, refs)
    if before is not None:
        os.makedirs(os.path.dirname(cp), exist_ok=True)
        with open(cp, "wb") as f:
            f.write(before)
    job = {"root": root, "module": MODULE, "ns": MODULE, "source": src, "write": bool(load.write),
           "crash_at": None, "caller": CALLER_TEXT, "snapshot": "full", "kwnames": KWNAMES}
    if load.crash is not None:
        job["crash_at"] = load.crash["k"]
        job["crash_full"] = bool(load.crash.get("full"))
    if load.edit is not None:
        newp = os.path.join(d, "edited.lpy")
        with open(newp, "wb") as f:
            f.write(source_bytes(conc, v + 1, load.edit["z"]))
        job["edit"] = {"at": load.edit["phase"], "content": newp, "mtime": conc_mtime(conc, load.edit["m"])}
    load.res, load.rc, load.err = run.child(d, job, conc_seed(conc, load.seed))
    load.before, load.after = before, read_file(cp)
    load.root, load.cache_path, load.src_stat = root, cp, (mt, conc_size(conc, z))
    shutil.rmtree(d, ignore_errors=True)
    shutil.rmtree(os.path.dirname(cp), ignore_errors=True)
    return load


# ------------------------------------------------------------------------------------------------------
# comparing one executed load with the path TLC prescribes
# ------------------------------------------------------------------------------------------------------
def _consts(code, seen=None):
    seen = set() if seen is None else seen
    for c in code.co_consts:
        if isinstance(c, types.CodeType):
            yield from _consts(c, seen)
        elif isinstance(c, (tuple, frozenset)):
            for x in c:
                yield x
        else:
            yield c


def file_conforms(run, data, c, conc, kwhash):
    """does the real file `data` (None = no file) lie in the abstract cache value c (wire tuple)?  -> list of reasons"""
    c = file_rec(c)
    if c == "absent":
        return [] if data is None else ["a file exists (%d bytes)" % len(data)]
    if data is None:
        return ["no file"]
    bad = []
    n = len(data)
    pos = file_pos(c)
    magic = run.magic
    if pos == 0:
        if not (n < 4 and data == magic[:n]):
            bad.append("not a proper prefix of the magic number (%d bytes)" % n)
        return bad
    if c["magicOk"] != (data[:4] == magic):
        bad.append("magic number %s" % ("wrong" if c["magicOk"] else "unexpectedly right"))
    mt = (conc_mtime(conc, c["mtimeVal"]) & 0xFFFFFFFF).to_bytes(4, "little")
    sz = (conc_size(conc, c["sizeVal"]) & 0xFFFFFFFF).to_bytes(4, "little")
    if data[4:8] != mt[:c["mtimeBytes"]] or (c["mtimeBytes"] < 4 and n != 4 + c["mtimeBytes"]):
        bad.append("mtime field %r, expected the first %d bytes of %r" % (data[4:8], c["mtimeBytes"], mt))
    if c["mtimeBytes"] == 4 and (data[8:12] != sz[:c["sizeBytes"]] or (c["sizeBytes"] < 4 and n != 8 + c["sizeBytes"])):
        bad.append("size field %r, expected the first %d bytes of %r" % (data[8:12], c["sizeBytes"], sz))
    if bad or c["sizeBytes"] < 4:
        return bad
    if c["payload"] == "none":
        return [] if n == 12 else ["payload present (%d bytes) where none is expected" % (n - 12)]
    try:
        code = marshal.loads(data[12:])
        full = isinstance(code, list) and all(isinstance(x, types.CodeType) for x in code)
        if full:
            try:
                marshal.loads(data[12:-1])
                full = False          # a shorter prefix decodes as well: trailing garbage
            except (EOFError, ValueError, TypeError):
                pass
    except (EOFError, ValueError, TypeError):
        code, full = None, False
    if c["payload"] == "partial":
        return ["payload decodes completely where a proper prefix is expected"] if full else (
            [] if n > 12 else ["no payload byte"])
    if not full:
        return ["payload does not decode to a list of code objects (%d bytes)" % (n - 12)]
    consts = set()
    for co in code:
        for x in _consts(co):
            if isinstance(x, (str, int)) and not isinstance(x, bool):
                consts.add(x)
    if "C14-VERSION-%d" % c["ofVersion"] not in consts:
        bad.append("payload is not the code of version %d (markers: %s)" % (
            c["ofVersion"], sorted(x for x in consts if isinstance(x, str) and x.startswith("C14-VERSION"))))
    hs = kwhash.get(conc_seed(conc, c["writerSeed"]))
    if hs is not None and hs["c14-a"] not in consts:
        bad.append("keyword hashes in the payload are not those of writer seed %s" % conc_seed(conc, c["writerSeed"]))
    return bad


def accepted_bytes(run, data, conc, stat):
    """the specification's Accepts on the real file: right magic, both header fields complete and equal to the
    concrete stat, a payload that decodes completely"""
    if data is None or len(data) <= 12 or data[:4] != run.magic:
        return False
    mt = (conc_mtime(conc, stat[0]) & 0xFFFFFFFF).to_bytes(4, "little")
    sz = (conc_size(conc, stat[1]) & 0xFFFFFFFF).to_bytes(4, "little")
    if data[4:8] != mt or data[8:12] != sz:
        return False
    try:
        return isinstance(marshal.loads(data[12:]), list)
    except (EOFError, ValueError, TypeError):
        return False


def unsound_file(run, data, conc, hist, seed, must_be_valid):
    """CacheSound / ValidAfterLoad on the real file: reasons why it is harmful, [] when it is harmless"""
    cur = (1, 4, hist[-1][0], 4, hist[-1][1], 2, len(hist), seed)
    valid_now = len(hist) not in BAD and not file_conforms(run, data, cur, conc, {})
    if must_be_valid and not valid_now:
        return ["not a valid cache of the current source after a successful load with writing enabled"]
    if accepted_bytes(run, data, conc, hist[-1]) and not valid_now:
        return ["a later load would accept this file although it is not the code of the current version"]
    return []


def families(exc, fallback):
    return sorted(set(exc["mro"]) & set(fallback))


def events_of(res, name):
    return [e for e in res["events"] if e["ev"] == name]


def compare_load(G, run, load, fallback, refsnaps, kwhash):
    """Walk the executed load through the graph.  -> (mismatches [(clause, expected, observed)], covered edges,
    snapshot info)"""
    mism, covered = [], []
    conc = load.conc
    res = load.res

    def step(s, act, args=()):
        t, valid = G.step(s, act, args)
        covered.append((s, act, args))
        return t

    def maybe_edit(s):
        if load.edit is not None and st_proc(s)["phase"] == load.edit["phase"]:
            s = step(s, "EditSource", (load.edit["m"], load.edit["z"]))
            if not [e for e in events_of(res, "edit") if e["at"] == load.edit["phase"]]:
                mism.append(("Cache!Phase(%s)" % load.edit["phase"], "the load reaches the phase",
                             {"events": [e["ev"] for e in res["events"]]}))
        return s

    if res is None or load.rc not in (0, 77):
        return [("Cache!Load", "the child interpreter reports its load", "no result (rc=%s) %s" % (load.rc, load.err))], [], None
    s = step(load.pre, "StartLoad", (load.seed, load.write))
    s = maybe_edit(s)
    st = events_of(res, "start")
    if st and (st[0]["mtime"], st[0]["size"]) != load.src_stat:
        mism.append(("Cache!StartLoad", {"stat": load.src_stat}, {"stat": (st[0]["mtime"], st[0]["size"])}))
    # ---- ReadCache
    s = step(s, "ReadCache")
    got = file_rec(st_proc(s)["got"])
    rd = events_of(res, "read")
    if got == "absent":
        if not (rd and rd[0]["out"] == "raise"):
            mism.append(("Cache!ReadCache", "reading the absent cache raises", rd[:1]))
    else:
        if not (rd and rd[0]["out"] == "ok" and rd[0]["n"] == len(load.before)):
            mism.append(("Cache!ReadCache", {"read_bytes": len(load.before)}, rd[:1]))
    # ---- Decide
    s = step(s, "Decide")
    exp = st_proc(s)["phase"]
    dec = events_of(res, "decode")
    if rd and rd[0]["out"] == "raise":
        obs = "fallback" if families(rd[0]["exc"], fallback) else "escape:" + rd[0]["exc"]["cls"]
    elif dec and dec[0]["out"] == "ok":
        obs = "use"
    elif dec:
        obs = "fallback" if families(dec[0]["exc"], fallback) else "escape:" + dec[0]["exc"]["cls"]
    else:
        obs = "no-decision"
    if obs != exp:
        mism.append(("Cache!Decide", exp, obs))
    s = maybe_edit(s)
    # ---- ExecCached | Recompile
    xc, rc = events_of(res, "exec_cached"), events_of(res, "recompile")
    if exp == "use":
        s = step(s, "ExecCached")
        ok = len(xc) == 2 and xc[1].get("out") == "ok" and not rc
        if not ok:
            mism.append(("Cache!ExecCached", "cached code executed, source not compiled",
                         {"exec_cached": [e.get("out", e["at"]) for e in xc], "recompile": [e.get("out", e["at"]) for e in rc]}))
    else:
        s = step(s, "Recompile")
        ran = st_ran(s)
        want = "ok" if ran["ok"] else "raise"
        ok = len(rc) == 2 and rc[1].get("out") == want and not xc
        if not ok:
            mism.append(("Cache!Recompile", {"source compiled and executed": want, "cached code executed": False},
                         {"recompile": [e.get("out", e["at"]) for e in rc], "exec_cached": [e.get("out", e["at"]) for e in xc]}))
    ran = st_ran(s)
    s = maybe_edit(s)
    # ---- writing
    wr = events_of(res, "write")
    if st_proc(s)["phase"] == "towrite":
        if load.crash is not None:
            s = step(s, "WriteBegin")
            for _ in range(load.crash["pos"]):
                s = step(s, "WriteBytes")
            s = step(s, "Crash")
            cr = events_of(res, "crash")
            tr = events_of(res, "truncated")
            if not cr or load.rc != 77:
                return [], [], {"crash_not_injected": True}    # this loader does not write through open(cache, "w+b")
            elif not tr or tr[0]["n"] != 0:
                mism.append(("Cache!WriteBegin", "opening the cache for writing leaves an empty file", tr))
            elif cr[0]["written"] not in offsets_of_class(load.crash["pos"], cr[0]["of"]):
                return [], [], None      # the offset fell into another class (file shorter than planned): not a replay
            bad = file_conforms(run, load.after, st_cache(s), conc, kwhash)
            if bad:
                why = unsound_file(run, load.after, conc, st_hist(s), load.seed, False)
                if why:
                    mism.append(("Cache!Crash(file)", {"cache": file_rec(st_cache(s))}, bad + why))
            return mism, covered, None
        s = step(s, "WriteBegin")
        for _ in range(11):
            s = step(s, "WriteBytes")
        s = step(s, "WriteEnd")
    elif load.crash is not None:
        return [], [], None
    # (whether and when the loader writes is judged by the file it leaves behind, see Exit below)
    # ---- Snapshot
    s = step(s, "Snapshot")
    snap = st_snap(s)
    info = {"snap": snap, "from_state": s, "ran": ran}
    imp = res["import"]
    if snap["ok"] != (imp["out"] == "ok"):
        mism.append(("Cache!Snapshot(outcome)", "load %s" % ("succeeds" if snap["ok"] else "raises"), imp))
    elif not snap["ok"]:
        ref = refsnaps.get((conc["id"], snap["code"], load.seed))
        if ref is not None and ref["exc"] != imp["exc"]["cls"]:
            mism.append(("Cache!Snapshot(error)", ref["exc"], imp["exc"]["cls"]))
    else:
        cur = {"snapshot": norm(res["snapshot"], load.root), "caller": norm(res["caller"], load.root)}
        info["cur"] = cur
        vals = cur["caller"] or []
        ver = [e["val"] for e in (cur["snapshot"] or []) if isinstance(e, dict) and e.get("name") == "version"]
        if ver != ['"C14-VERSION-%d"' % snap["code"]]:
            mism.append(("Cache!Snapshot(version)", "C14-VERSION-%d" % snap["code"], ver))
        if len(vals) != len(CALLER):
            mism.append(("Cache!Snapshot(caller)", "%d probe values" % len(CALLER), vals))
        else:
            cross = [v for (k, _), v in zip(CALLER, vals) if k == "cross"]
            within = [v for (k, _), v in zip(CALLER, vals) if k == "within"]
            info["cross"] = cross
            if within != ["true"] * len(within):
                mism.append(("Cache!Snapshot(identity within the namespace)", "true", within))
            want = "true" if snap["identical"] else "false"
            if cross != [want] * len(cross):
                mism.append(("Cache!Snapshot(identical)", {"identical": snap["identical"]},
                             {"identical?": dict(zip([t for k, t in CALLER if k == "cross"], cross))}))
            ref = refsnaps.get((conc["id"], snap["code"], load.seed))
            if ref is not None:
                a = _strip_cross(ref["cur"])
                b = _strip_cross(cur)
                if a != b:
                    mism.append(("Cache!Snapshot(values)", "the observation of a from-source load of version %d" % snap["code"],
                                 _first_diff(a, b)))
    # ---- Exit: the file left behind is the cache of the state TLC reached.  Where the loader leaves another file
    #      (it wrote although the specification's loader does not, or wrote differently) the specification's
    #      invariants are evaluated on the real file: CacheSound, and ValidAfterLoad where it applies.
    s = step(s, "Exit")
    bad = file_conforms(run, load.after, st_cache(s), conc, kwhash)
    if bad:
        must_be_valid = snap["ok"] and bool(load.write) and load.edit is None
        why = unsound_file(run, load.after, conc, st_hist(s), load.seed, must_be_valid)
        if why:
            mism.append(("Cache!Exit(file)", {"cache": file_rec(st_cache(s))},
                         bad + why + (["events: %s" % [e["at"] for e in wr]] if wr else [])))
    info["end"] = s
    return mism, covered, info


def _strip_cross(cur):
    vals = cur["caller"] or []
    return {"snapshot": cur["snapshot"],
            "caller": [v for (k, _), v in zip(CALLER, vals) if k != "cross"] if len(vals) == len(CALLER) else vals}


def _first_diff(a, b):
    if a["caller"] != b["caller"]:
        for (k, t), x, y in zip([c for c in CALLER if c[0] != "cross"], a["caller"], b["caller"]):
            if x != y:
                return {"form": t, "from_source": x, "observed": y}
    sa = {e["name"]: e for e in a["snapshot"] or []}
    sb = {e["name"]: e for e in b["snapshot"] or []}
    if sorted(sa) != sorted(sb):
        return {"public_names_only_from_source": sorted(set(sa) - set(sb)), "only_observed": sorted(set(sb) - set(sa))}
    for n in sorted(sa):
        if sa[n] != sb[n]:
            return {"var": n, "from_source": sa[n], "observed": sb[n]}
    return {"from_source": a, "observed": b}


# ------------------------------------------------------------------------------------------------------
# (B) the decoding layer, in-process
# ------------------------------------------------------------------------------------------------------
def tab_lookup(tab):
    rows = {}
    for r in tab["rows"]:
        rows[(r["magicOk"], r["mtimeBytes"], r["mtimeMatch"], r["sizeBytes"], r["sizeMatch"], r["payload"])] = r["use"]
    return rows


def decode_row(magic_ok, n, total, mt_match, sz_match):
    """abstract row of a file of n bytes cut from a complete file of `total` bytes"""
    if n < 4:
        return (False, 0, mt_match, 0, sz_match, "none")
    mb = min(4, n - 4)
    sb = min(4, max(0, n - 8))
    pl = "none" if n <= 12 else ("full" if n == total else "partial")
    return (magic_ok, mb, mt_match, sb, sz_match, pl)


def decode_call(importer, name, mtime, size, data, fallback):
    try:
        r = importer._get_basilisp_bytecode(name, mtime, size, data)
    except BaseException as e:  # noqa
        fam = set(c.__name__ for c in type(e).__mro__) & set(fallback)
        return ("fallback" if fam else "escape"), type(e).__name__
    ok = isinstance(r, list) and all(isinstance(x, types.CodeType) for x in r)
    return ("use" if ok else "use-garbage"), None


def decode_layer(importer, name, data, mtime, size, tab, tier, label):
    """every truncation length and header perturbation of one real cache file"""
    rows = tab_lookup(tab)
    fallback = tab["fallback"]
    n = len(data)
    exhaustive = n <= (60000 if tier == "quick" else 150000)
    if exhaustive:
        ks = range(0, n + 1)
    else:
        edge, stride, nb = (512, 300, 60) if tier == "quick" else (4096, 2000, 700)
        ks = set(range(0, edge)) | set(range(n - edge, n + 1)) | set(range(0, n, max(1, n // stride)))
        bs = code_boundaries(data)
        for b in bs[:: max(1, len(bs) // nb)]:
            ks.update((b - 1, b, b + 1))
        ks = sorted(k for k in ks if 0 <= k <= n)
    count = 0
    excs = {}
    found = []

    def check(kind, k, row, d, mt, sz):
        nonlocal count
        count += 1
        want = "use" if rows[row] else "fallback"
        got, cls = decode_call(importer, name, mt, sz, d, fallback)
        if cls:
            excs[cls] = excs.get(cls, 0) + 1
        if got != want:
            found.append(dict(clause="Cache!Decide(decoding layer)",
                              case={"kind": "decode", "file": label, "perturbation": kind, "length": k, "of": n},
                              expected=want, observed=got + (":" + cls if cls else ""),
                              sig="Cache!Decide(decode)|%s|%s|exp=%s|obs=%s%s" % (
                                  kind.split(":")[0].rstrip("+-0123456789"), "len<total" if k < n else "len=total", want, got,
                                  ":" + cls if cls else ""),
                              module="Cache", direction="spec->code"))

    for k in ks:
        check("truncate", k, decode_row(True, k, n, True, True), data[:k], mtime, size)
    # header perturbations of the complete file: every bit of the 12 header bytes
    for i in range(12):
        for bit in range(8):
            b = bytearray(data)
            b[i] ^= 1 << bit
            row = decode_row(i >= 4, n, n, not (4 <= i < 8), not (8 <= i < 12))
            check("flip:%d.%d" % (i, bit), n, row, bytes(b), mtime, size)
    # the source changed instead of the file: mtime / size differing in one byte or by small amounts
    for d in (1, -1, 2, 255, 256, 65536, -65536, 1 << 24, 1 << 31):
        if 0 <= mtime + d:
            check("mtime%+d" % d, n, decode_row(True, n, n, False, True), data, mtime + d, size)
        if 0 <= size + d:
            check("size%+d" % d, n, decode_row(True, n, n, True, False), data, mtime, size + d)
    # perturbed header AND truncated payload
    for k in (12, 13, n // 2, n - 1):
        if 12 <= k < n:
            b = bytearray(data[:k])
            b[5] ^= 0x10
            check("flip+truncate", k, decode_row(True, k, n, False, True), bytes(b), mtime, size)
            b = bytearray(data[:k])
            b[0] ^= 0x01
            check("magic+truncate", k, decode_row(False, k, n, True, True), bytes(b), mtime, size)
    return count, exhaustive, excs, found[:40]


# ------------------------------------------------------------------------------------------------------
# the run
# ------------------------------------------------------------------------------------------------------
NEG = [("CacheImpl_DevIntern.cfg", "SnapshotEqual"), ("CacheImpl_NoMagic.cfg", "NeverExecStale"),
       ("CacheImpl_NoMtime.cfg", "NeverExecStale"), ("CacheImpl_NoSize.cfg", "NeverExecStale"),
       ("CacheImpl_NoPayload.cfg", "NeverExecStale"), ("CacheImpl_StatLate.cfg", "CacheSound"),
       ("CacheImpl_WriteFailed.cfg", "CacheSound"), ("CacheImpl_SameStat.cfg", None)]


def tlc_jobs(chk, need_design=True):
    """-> (Graph of the required/as-built-without-deviation model, dev snapshots, TAB) or None"""
    jobs = [("edges", "CacheImpl_Edges.cfg"), ("edgesdev", "CacheImpl_EdgesDev.cfg"), ("edit", "CacheImpl_EdgesEdit.cfg")]
    devcache = os.environ.get("C14_DEVCACHE")          # development aid only: reuse the TLC output of an earlier run
    if devcache and os.path.exists(devcache):
        e, d, tab, ed = json.load(open(devcache))
        G = Graph(e)
        G.edit_edges = ed
        G.add(ed)
        return G, {tup(f)[:4]: st_snap(tup(t)) for a, args, f, t, valid in d}, tab
    if need_design:
        jobs += [("mc", "CacheImpl_MC.cfg")] + [("neg", c) for c, _ in NEG]
    w = max(1, min(4, PAR // 4))

    def one(j):
        kind, cfg = j
        return j, tlc.run("CacheImpl_MC", cfg, workers=(4 if kind in ("mc", "edges") else w), timeout=3000,
                          coverage=(kind == "mc"))

    with cf.ThreadPoolExecutor(max(1, min(4, PAR // 2))) as ex:
        results = list(ex.map(one, jobs))
    G = dev = tab = raw_ed = None
    for (kind, cfg), r in results:
        chk.add_tlc(cfg, r)
        if kind == "mc":
            if r.violated or not r.ok:
                chk.machinery("design check %s fails: %s\n%s" % (cfg, r.violated, r.error_trace()[:1500]))
            cov = r.coverage()
            for a in ("IStartLoad", "IExecCached", "IRecompile", "ISnapshot", "IExit", "ICrash"):
                if a in cov and cov[a][1] == 0:
                    chk.machinery("design check is vacuous: action %s never taken" % a)
        elif kind == "neg":
            want = dict(NEG)[cfg]
            if not r.violated or (want and want not in r.violated):
                chk.machinery("anti-vacuity: %s is not rejected (%s)" % (cfg, r.violated))
        elif kind == "edges":
            if r.violated or not r.ok:
                chk.machinery("%s: invariants fail on the edge-emitting model: %s" % (cfg, r.violated))
            raw_e = parse_edges(r.out)
            G = Graph(raw_e)
            t = r.tagged("TAB")
            tab = t[0] if t else None
        elif kind == "edit":
            if r.violated or not r.ok:
                chk.machinery("%s: invariants fail: %s" % (cfg, r.violated))
            raw_ed = parse_edges(r.out)
        else:
            dev = {}
            raw_d = parse_edges(r.out)
            for a, args, f, t, valid in raw_d:
                f, t = tup(f), tup(t)
                dev[f[:4]] = st_snap(t)
    if G is None or not G.edges or tab is None or not dev or not raw_ed:
        chk.machinery("the edge-emitting jobs produced no graph")
        return None
    G.edit_edges = raw_ed
    G.add(raw_ed)
    if devcache:
        json.dump([raw_e, raw_d, tab, raw_ed], open(devcache, "w"))
    return G, dev, tab


def pick_pre_for_ref(G, v, stat):
    """an idle state with version v, stat, no cache"""
    for s in sorted(k for k in G.succ if not k[2] and k[1] == (0,)):
        if len(s[0]) == v and s[0][-1] == stat:
            return s
    return None


def plan_loads(G, chk, concs):
    """-> (reference loads, StartLoad replays, Crash replays)"""
    tier = chk.tier
    starts = sorted((f, args) for f, a, args in G.edges if a == "StartLoad")
    rnd = random.Random(chk.seed)
    # which edges: quick = one representative per (coarse) class; thorough = every edge
    if tier == "quick":
        byc = {}
        for f, args in starts:
            byc.setdefault(load_class(f, args[0], args[1], True), []).append((f, args))
        chosen = [rnd.choice(v) for _, v in sorted(byc.items(), key=lambda kv: repr(kv[0]))]
    else:
        chosen = starts
    if os.environ.get("C14_LIMIT"):           # development aid only
        chosen = chosen[:: max(1, len(chosen) // int(os.environ["C14_LIMIT"]))]
    loads = []
    for i, (f, args) in enumerate(chosen):
        conc = concs[i % len(concs)]
        c = file_rec(f[1])
        pos = None if c == "absent" else file_pos(c)
        loads.append((f, args, conc, pos, i))
    return starts, loads


EDIT_PHASES = ("started", "use", "fallback", "towrite")


def plan_edit_loads(G, chk, concs, refs):
    """EditSource edges whose source state has a loading process in a phase where the child can be made to edit
    the source; the load is replayed from its StartLoad edge with that edit injected"""
    cands = {}
    for a, args, f, t, valid in G.edit_edges:
        if a != "EditSource":
            continue
        f = tup(f)
        p = st_proc(f)
        if p is None or p["phase"] not in EDIT_PHASES or sum(p["seen"]) != 1:
            continue
        pre = (f[0], f[1], (), (), (), 0)
        if pre not in G.succ or ("StartLoad", (p["seed"], p["write"])) not in G.succ[pre]:
            continue
        m, z = hist_last = f[0][-1]
        kind = ("m=" if args[0] == m else "m#") + ("z=" if args[1] == z else "z#")
        cl = (p["phase"], load_class(pre, p["seed"], p["write"], True), kind if chk.tier != "quick" else None)
        cands.setdefault(cl, []).append((pre, p["seed"], p["write"], p["phase"], tuple(args)))
    rnd = random.Random(chk.seed + 2)
    keys = sorted(cands, key=repr)
    if chk.tier == "quick":             # a few of every phase
        rnd.shuffle(keys)
        keys = [k for ph in EDIT_PHASES for k in [x for x in keys if x[0] == ph][:7]]
    out = []
    for i, k in enumerate(keys):
        pre, seed, write, phase, (m, z) = rnd.choice(sorted(cands[k]))
        conc = concs[i % len(concs)]
        c = file_rec(pre[1])
        if c != "absent" and ref_key(conc, c) not in refs:
            conc = next((x for x in concs if ref_key(x, c) in refs), None)
            if conc is None:
                continue
        pos = None if c == "absent" else file_pos(c)
        off = None
        if pos == 0:
            off = i % 4
        elif pos == 10:
            po = partial_offsets(refs[ref_key(conc, c)], chk.tier, many=False)
            off = po[i % len(po)]
        out.append(Load(pre, seed, write, conc, offset=off, magic_variant=i, edit={"phase": phase, "m": m, "z": z}))
    return out


def run(chk):
    chk.rule = ("a replay = one StartLoad edge of CacheImpl's state graph: source stat + cache file materialised, one child "
                "interpreter loads the namespace, its events are walked through the graph; non-trivial = the cache "
                "file exists before the load (stale, truncated, foreign or valid) or the process dies while writing; "
                "decoding layer: one evaluation per truncation length / header perturbation of a real cache file")
    chk.assumptions = [
        "distinct versions of a source file differ in (mtime second, size): the property calls a cache stale when 'source "
        "mtime or size differs'; CacheImpl_SameStat.cfg shows that without it a stale cache is executed (as with .pyc files)",
        "damage to a cache file other than truncation or a changed header (bit rot inside the payload) is out of scope",
        "a failing namespace version fails in its own code (throw, unresolved symbol, unbalanced form), not by raising "
        "ImportError/OSError/EOFError from cached code",
    ]
    import boot
    boot.init()
    t0 = time.time()
    got = tlc_jobs(chk)
    if got is None:
        return
    G, dev, tab = got
    fallback = tab["fallback"]
    concs = make_concs(chk.tier)
    run_ = Run()
    try:
        _run(chk, run_, G, dev, tab, fallback, concs)
    finally:
        run_.close()


def _pool(fn, items):
    with cf.ThreadPoolExecutor(PAR) as ex:
        return list(ex.map(fn, items))


def _run(chk, run_, G, dev, tab, fallback, concs):
    tier = chk.tier
    starts, planned = plan_loads(G, chk, concs)
    # ---- reference loads: every (concretisation, version, writer seed, stat) a cache file is needed of, and a
    #      from-source load of every (concretisation, version, seed) as the concrete meaning of SourceSnap(v)
    need = {}
    for f, args, conc, pos, i in planned:
        c = file_rec(f[1])
        if c != "absent":
            need[ref_key(conc, c)] = (conc, c["ofVersion"], c["writerSeed"], (c["mtimeVal"], c["sizeVal"]))
    for conc in concs:
        for v in (1, 2, 3):
            for s in (1, 2):
                if not any(k[0] == conc["id"] and k[1] == v and k[2] == s for k in need):
                    pre = next((x for x in sorted(k for k in G.succ if not k[2] and k[1] == (0,)) if len(x[0]) == v), None)
                    need[(conc["id"], v, s) + pre[0][-1]] = (conc, v, s, pre[0][-1])
    ref_loads = []
    for key, (conc, v, s, stat) in sorted(need.items(), key=lambda kv: kv[0]):
        pre = pick_pre_for_ref(G, v, stat)
        if pre is None:
            chk.machinery("no idle state with version %d stat %s" % (v, stat))
            continue
        ld = Load(pre, s, 1, conc, tag="ref")
        ld.key = key
        ref_loads.append(ld)
    _pool(lambda ld: execute(run_, ld, {}), ref_loads)
    refs, refsnaps, kwhash = {}, {}, {}
    covered = set()
    nload = [0]
    not_injected = [0]
    walk_errors = []

    def judge(ld):
        nload[0] += 1
        try:
            mism, cov, info = compare_load(G, run_, ld, fallback, refsnaps, kwhash)
        except Exception as e:  # noqa  (the walk itself failed: report once, go on with the other loads)
            if not walk_errors:
                chk.machinery("walking a load through the graph failed: %s: %s (%s)" % (type(e).__name__, e, ld.case()))
            walk_errors.append(1)
            return [], None
        covered.update(cov)
        chk.count(1, traces=1)
        if info and info.get("crash_not_injected"):
            not_injected[0] += 1
        if ld.before is not None or ld.crash is not None:
            chk.nontriv(("load", ld.pre[:2], ld.seed, ld.write, ld.conc["id"], ld.offset, json.dumps(ld.crash)))
        if mism:
            report(chk, G, dev, ld, mism, info)
        return mism, info

    for ld in ref_loads:
        if ld.res is not None and ld.res.get("kwhash"):
            kwhash[conc_seed(ld.conc, ld.seed)] = ld.res["kwhash"]
    for ld in ref_loads:
        mism, info = judge(ld)
        v = len(ld.pre[0])
        k3 = (ld.conc["id"], v, ld.seed)
        if mism or info is None:
            continue
        if v in BAD:
            refsnaps.setdefault(k3, {"exc": ld.res["import"]["exc"]["cls"]})
        else:
            if ld.after is not None:
                refs[ld.key] = ld.after
            if k3 not in refsnaps:
                refsnaps[k3] = {"cur": info["cur"]}
    chk.sample({"reference_load": ref_loads[0].case(), "events": [e["ev"] for e in ref_loads[0].res["events"]] if ref_loads[0].res else None,
                "cache_bytes": len(ref_loads[0].after or b"")})
    # ---- the StartLoad edges
    loads = []
    for f, args, conc, pos, i in planned:
        c = file_rec(f[1])
        if c != "absent" and ref_key(conc, c) not in refs:
            continue            # its reference load failed (reported above)
        full = None if c == "absent" else refs[ref_key(conc, c)]
        if pos == 0:
            offs = offsets_of_class(0, 0) if tier != "quick" else [i % 4]
        elif pos == 10:
            po = partial_offsets(full, tier, many=False)
            offs = po if tier != "quick" and i % 7 == 0 else [po[i % len(po)]]
        else:
            offs = [None]
        if pos == "other":
            offs = [None]
        for k in offs:
            loads.append(Load(f, args[0], args[1], conc, offset=k, magic_variant=i))
    # ---- Crash edges of the writing phase: for a sample of writing loads, die in every prefix class
    crash_loads = []
    rnd = random.Random(chk.seed + 1)
    wl = [ld for ld in loads if ld.write and len(ld.pre[0]) not in BAD and _falls_back(G, ld)]
    rnd.shuffle(wl)
    nchains = 2 if tier == "quick" else 40
    for j, ld in enumerate(wl[:nchains]):
        for pos in range(12):
            if pos == 0:
                ks = [0, 1, 2, 3] if (tier != "quick" or j == 0) else [j % 4]
            elif pos == 10:
                ks = [13, 200, 2000] if tier == "quick" else [13, 14, 100, 1000, 2500, 4000]
            elif pos == 11:
                ks = [10 ** 9]
            else:
                ks = offsets_of_class(pos, 0)
            for k in ks:
                crash_loads.append(Load(ld.pre, ld.seed, 1, ld.conc, offset=ld.offset, magic_variant=ld.magic_variant,
                                        crash={"pos": pos, "k": k, "full": pos == 11}))
    # ---- EditSource while a load is under way (after the loader stat'ed the source)
    edit_loads = plan_edit_loads(G, chk, concs, refs)
    _pool(lambda ld: execute(run_, ld, refs), loads + crash_loads + edit_loads)
    for ld in loads + crash_loads + edit_loads:
        judge(ld)
    # ---- accounting: which edges of the graph were exercised
    impl_edges = [e for e in G.edges if e[1] in IMPL_ACTS]
    crash_w = [e for e in G.edges if e[1] == "Crash" and st_proc(e[0])["phase"] == "writing"]
    crash_other = [e for e in G.edges if e[1] == "Crash" and st_proc(e[0])["phase"] != "writing"]
    env_edges = [e for e in G.edges if e[1] in ENV_ACTS]
    cov_impl = sum(1 for e in impl_edges if e in covered)
    cov_crash = sum(1 for e in crash_w if e in covered)
    chk.extra["edge_cover"] = {
        "edges_in_graph": len(G.edges),
        "loader_edges": len(impl_edges), "loader_edges_replayed": cov_impl,
        "crash_edges_while_writing": len(crash_w), "crash_edges_replayed": cov_crash,
        "crash_edges_before_any_file_is_touched": len(crash_other),
        "environment_edges(materialised, not executed)": len(env_edges),
        "startload_edges": len(starts), "startload_edges_replayed": len({(ld.pre, ld.seed, ld.write) for ld in loads}),
        "startload_classes(coarse)": len({load_class(f, a[0], a[1], True) for f, a in starts}),
        "loads_with_the_source_edited_meanwhile": len(edit_loads),
        "crash_injections_that_did_not_fire": not_injected[0],
        "child_loads": run_.children,
    }
    chk.exhaustive = (tier != "quick" and cov_impl == len(impl_edges))
    # ---- (B) decoding layer
    decode_all(chk, run_, refs, tab, concs)
    # ---- (C) bundled namespaces
    bundled(chk, run_, tier)


def _falls_back(G, ld):
    s = G.step(ld.pre, "StartLoad", (ld.seed, ld.write))[0]
    s = G.step(s, "ReadCache")[0]
    s = G.step(s, "Decide")[0]
    return st_proc(s)["phase"] == "fallback"


def report(chk, G, dev, ld, mism, info):
    clause, exp, obs = mism[0]
    cl = class_text(load_class(ld.pre, ld.seed, ld.write, False))
    sig = "%s|%s%s|exp=%s|obs=%s" % (clause, cl, "|crash@%s" % ld.crash["pos"] if ld.crash else "",
                                     _sigval(exp), _sigval(obs))
    # does the as-built model with the named deviation predict exactly this observation?
    if len(mism) == 1 and clause == "Cache!Snapshot(identical)" and info is not None:
        d = dev.get(info["from_state"][:4])
        cross = info.get("cross") or []
        if d is not None and d["ok"] and d["code"] == info["snap"]["code"] and \
                cross == ["true" if d["identical"] else "false"] * len(cross):
            sig = "dev:InternByForeignHash"
    chk.discrepancy(clause, ld.case(), exp, obs, sig=sig, module="CacheImpl", direction="spec->code",
                    extra={"all_mismatches": mism[:6], "events": ld.res["events"] if ld.res else None,
                           "class": cl})


def _sigval(x):
    s = x if isinstance(x, str) else json.dumps(x, sort_keys=True, default=str)
    s = re.sub(r"\d{4,}", "N", s)
    return s[:160]


_DECODE_ARGS = None


def _decode_one(i):
    importer, tab, tier, files = _DECODE_ARGS
    label, name, data, mtime, size = files[i]
    return decode_layer(importer, name, data, mtime, size, tab, tier, label)


def decode_all(chk, run_, refs, tab, concs, only=None):
    importer = run_.importer
    tier = chk.tier
    files = []
    # real caches of bundled namespaces (the private copy of the harness cache: valid for the working tree)
    base = os.path.join(run_.pyc, repo.SRC.lstrip(os.sep), "basilisp")
    for dp, dns, fns in sorted(os.walk(base)):
        for fn in sorted(fns):
            if fn.endswith(".lpyc"):
                p = os.path.join(dp, fn)
                rel = os.path.relpath(p, base)
                srcp = os.path.join(repo.SRC, "basilisp", os.path.dirname(rel), fn.split(".")[0] + ".lpy")
                if os.path.exists(srcp):
                    st = os.stat(srcp)
                    data = read_file(p)
                    # a subject must be a complete cache of the current source (the copy may have caught a file
                    # another check was just writing): header fields equal to the stat, payload decodes
                    hdr = run_.magic + (int(st.st_mtime) & 0xFFFFFFFF).to_bytes(4, "little") + (
                        st.st_size & 0xFFFFFFFF).to_bytes(4, "little")
                    try:
                        okp = data[:12] == hdr and isinstance(marshal.loads(data[12:]), list)
                    except (EOFError, ValueError, TypeError):
                        okp = False
                    if okp:
                        files.append(("bundled:" + rel, "basilisp." + rel.split(".")[0].replace(os.sep, "."),
                                      data, int(st.st_mtime), st.st_size))
    for key, data in sorted(refs.items())[: (2 if tier == "quick" else 6)]:
        conc = concs[key[0]]
        files.append(("generated:%s" % (key,), MODULE, data, conc_mtime(conc, key[3]), conc_size(conc, key[4])))
    if only is not None:
        files = [f for f in files if f[0] == only]
    total = 0
    summary = []
    global _DECODE_ARGS
    _DECODE_ARGS = (importer, tab, tier, files)
    import multiprocessing as mp
    with mp.get_context("fork").Pool(max(1, min(PAR, len(files)))) as pool:       # no thread is alive here
        outs = pool.map(_decode_one, range(len(files)), chunksize=1)
    for (label, name, data, mtime, size), (n, exh, excs, found) in zip(files, outs):
        total += n
        summary.append({"file": label, "bytes": len(data), "evaluations": n, "every_offset": exh, "exceptions": excs})
        if n:
            chk.nontriv(("decode", label))
        for d in found:
            chk.discrepancy(d["clause"], d["case"], d["expected"], d["observed"], sig=d["sig"], module=d["module"],
                            direction=d["direction"])
    chk.count(total)
    chk.extra["decoding_layer"] = summary


# ------------------------------------------------------------------------------------------------------
# (C) bundled namespaces
# ------------------------------------------------------------------------------------------------------
def bundled_namespaces(tier):
    root = os.path.join(repo.SRC, "basilisp")
    out = []
    for dp, dns, fns in sorted(os.walk(root)):
        dns[:] = sorted(d for d in dns if d != "__pycache__")
        for fn in sorted(fns):
            if fn.endswith(".lpy"):
                p = os.path.join(dp, fn)
                rel = os.path.relpath(p, repo.SRC)[:-4]
                mod = rel.replace(os.sep, ".")
                out.append((mod, p))
    if tier == "quick":
        keep = {"basilisp.set", "basilisp.walk"}
        out = [x for x in out if x[0] in keep]
    return out


def bundled(chk, run_, tier, only=None):
    seeds = [1, 2] if tier == "quick" else [1, 2, 77]
    nss = [x for x in bundled_namespaces("thorough") if x[0] == only] if only else bundled_namespaces(tier)
    results = {}

    def one(item):
        mod, src = item
        nsname = mod.replace("_", "-")
        # an own copy of the bytecode cache: loads of this namespace never meet another experiment's writes
        d = run_.newdir("b")
        pyc = os.path.join(d, "pyc")
        copy_cache(os.path.join(repo.WORK, "pyc", repo_tree), pyc)
        cp = run_.cache_path(src, pyc)
        out = {"mod": mod, "issues": [], "loads": 0}
        job = {"root": None, "module": mod, "ns": nsname, "source": src, "write": True, "crash_at": None,
               "caller": None, "snapshot": "full", "kwnames": []}
        written, srcsnap = {}, {}
        for w in seeds:
            if os.path.exists(cp):
                os.unlink(cp)
            res, rc, err = run_.child(d, job, w, pyc=pyc, timeout=1800)
            out["loads"] += 1
            if res is None or res["import"]["out"] != "ok":
                out["skip"] = "does not import from source here: %s" % (res["import"] if res else err[-300:])
                break
            evs = [e["ev"] + ":" + e.get("out", e.get("at", "")) for e in res["events"]]
            if "recompile:ok" not in evs or "write:end" not in evs or read_file(cp) is None:
                out["issues"].append(("Cache!Recompile(bundled)", {"seed": w}, "compiled from source, cache written", evs))
                break
            written[w] = read_file(cp)
            srcsnap[w] = norm(res["snapshot"], "\0")
        else:
            for w in seeds:
                for r in seeds:
                    with open(cp, "wb") as f:
                        f.write(written[w])
                    res, rc, err = run_.child(d, job, r, pyc=pyc, timeout=1800)
                    out["loads"] += 1
                    case = {"writer_seed": w, "reader_seed": r}
                    if res is None or res["import"]["out"] != "ok":
                        out["issues"].append(("Cache!Snapshot(bundled outcome)", case, "loads", res["import"] if res else err[-300:]))
                        continue
                    evs = [e["ev"] + ":" + e.get("out", e.get("at", "")) for e in res["events"]]
                    if "decode:ok" not in evs or "exec_cached:ok" not in evs or any(e.startswith("recompile") for e in evs):
                        out["issues"].append(("Cache!ExecCached(bundled)", case, "valid cache is used", evs))
                    if read_file(cp) != written[w]:
                        out["issues"].append(("Cache!NoWrite(bundled)", case, "cache untouched", "cache rewritten"))
                    snap = norm(res["snapshot"], "\0")
                    if snap != srcsnap[r]:
                        a = {e["name"]: e for e in srcsnap[r]}
                        b = {e["name"]: e for e in snap}
                        diff = [n for n in sorted(set(a) | set(b)) if a.get(n) != b.get(n)]
                        out["issues"].append(("Cache!Snapshot(bundled values)", case,
                                              {"from_source": [a.get(n) for n in diff[:2]]},
                                              {"from_cache": [b.get(n) for n in diff[:2]], "vars": diff[:8]}))
        shutil.rmtree(d, ignore_errors=True)
        return out

    repo_tree = repo.tree_hash()
    outs = _pool(one, nss)
    summary = []
    for o in outs:
        chk.count(o["loads"], traces=o["loads"])
        summary.append({"ns": o["mod"], "loads": o["loads"], "skipped": o.get("skip")})
        if not o.get("skip"):
            chk.nontriv(("bundled", o["mod"]))
        for clause, case, exp, obs in o["issues"]:
            chk.discrepancy(clause, dict(case, kind="bundled", ns=o["mod"]), exp, obs,
                            sig="%s|%s|%s" % (clause, o["mod"], "same-seed" if case.get("writer_seed") == case.get("reader_seed") else "cross-seed"),
                            module="CacheImpl", direction="spec->code")
    chk.extra["bundled_namespaces"] = summary
    chk.extra["bundled_seeds"] = seeds


# ------------------------------------------------------------------------------------------------------
def replay(chk, body):
    import boot
    boot.init()
    case = body["case"]
    got = tlc_jobs(chk, need_design=False)
    if got is None:
        return
    G, dev, tab = got
    run_ = Run()
    try:
        if case["kind"] == "load":
            conc = case["conc"]
            pre = None
            want = (tup(case["pre"][0]), tup(case["pre"][1]))
            for s in G.succ:
                if not s[2] and (s[0], s[1]) == want:
                    pre = s
            if pre is None:
                chk.machinery("replay: the source state is not in the graph")
                return
            refs, refsnaps, kwhash = {}, {}, {}
            c = file_rec(pre[1])
            todo = []
            if c != "absent":
                todo.append((c["ofVersion"], c["writerSeed"], (c["mtimeVal"], c["sizeVal"]), ref_key(conc, c)))
            v = len(pre[0])
            for vv in (1, 2, 3):
                st = pre[0][vv - 1] if vv <= v else None
                if vv == v + 1 and case.get("edit"):
                    st = (case["edit"]["m"], case["edit"]["z"])
                if st is not None:
                    todo.append((vv, case["seed"], st, None))
            for vv, s, stat, key in todo:
                p0 = pick_pre_for_ref(G, vv, stat)
                ld = Load(p0, s, 1, conc)
                execute(run_, ld, {})
                if ld.res and ld.res.get("kwhash"):
                    kwhash[conc_seed(conc, s)] = ld.res["kwhash"]
                mism, cov, info = compare_load(G, run_, ld, tab["fallback"], refsnaps, kwhash)
                if key is not None and ld.after is not None:
                    refs[key] = ld.after
                if info is not None and not mism:
                    k3 = (conc["id"], vv, s)
                    if vv in BAD:
                        refsnaps.setdefault(k3, {"exc": ld.res["import"]["exc"]["cls"]})
                    elif "cur" in info:
                        refsnaps.setdefault(k3, {"cur": info["cur"]})
            ld = Load(pre, case["seed"], case["write"], conc, offset=case["offset"],
                      magic_variant=case.get("magic_variant", 0), crash=case.get("crash"), edit=case.get("edit"))
            execute(run_, ld, refs)
            mism, cov, info = compare_load(G, run_, ld, tab["fallback"], refsnaps, kwhash)
            chk.count(1, traces=1)
            print("source state:", class_text(load_class(pre, ld.seed, ld.write, False)))
            print("events:", [(e["ev"], e.get("out", e.get("at"))) for e in (ld.res or {}).get("events", [])])
            print("probes:", list(zip([t for _, t in CALLER], (ld.res or {}).get("caller") or [])))
            print("mismatches:", mism)
            if mism:
                report(chk, G, dev, ld, mism, info)
        elif case["kind"] == "bundled":
            bundled(chk, run_, "thorough", only=case["ns"])
        else:
            # decoding layer: the whole file is examined again (every length / perturbation)
            label = case["file"]
            refs = {}
            concs = make_concs(body.get("tier") or "quick")
            if label.startswith("generated:"):
                key = tuple(int(x) for x in re.findall(r"-?\d+", label))
                conc = concs[key[0]]
                ld = Load(pick_pre_for_ref(G, key[1], (key[3], key[4])), key[2], 1, conc)
                execute(run_, ld, {})
                if ld.after is None:
                    chk.machinery("replay: the reference cache could not be produced")
                    return
                refs[key] = ld.after
            chk.tier = body.get("tier") or chk.tier
            decode_all(chk, run_, refs, tab, concs, only=label)
    finally:
        run_.close()
