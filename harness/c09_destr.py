"""C09, destructuring half: concretise the patterns / values of Destructure.tla, execute the real let / fn / loop
forms and compare with the table TLC computed (Bind).  Nothing about what a pattern must bind is decided here.

A TAB record (one per pattern) = {pat, names, rows: [{v, r}], kw: [{args, r}], rest: [{args, r}]},
r = {st: ok|err|unspec, env: [{n, v}], c}.
"""
import os

import boot

# how a namespaced key family (:n/keys [a], :n/syms [b]) is spelled; the abstract namespace "n" becomes NS
STYLES = ["ns-keys", "elem-sym", "elem-kw", "auto", "auto-alias"]

_W = {}


def world():
    """per process: a scratch namespace (current namespace of the compiled forms) with an alias al -> library ns"""
    if not _W:
        boot.init()
        from basilisp.lang import keyword as kw, symbol as sym, vector as vec, list as llist, map as lmap, \
            set as lset, runtime
        from basilisp.lang.interfaces import ISeq, IPersistentVector, IPersistentMap, IPersistentSet
        pid = os.getpid()
        sc = boot.Scratch(name="c09.d%d" % pid, warn_on_unused_names=False, warn_on_shadowed_name=False,
                          warn_on_shadowed_var=False, warn_on_var_indirection=False)
        lib = boot.Scratch(name="c09.dl%d" % pid)
        sc.ns.add_alias(lib.ns, sym.symbol("al"))
        _W.update(sc=sc, lib=lib, kw=kw, sym=sym, vec=vec, llist=llist, lmap=lmap, lset=lset, rt=runtime,
                  ISeq=ISeq, IVec=IPersistentVector, IMap=IPersistentMap, ISet=IPersistentSet,
                  cmap=boot.core_fn("map"), identity=boot.core_fn("identity"), rest=boot.core_fn("rest"),
                  cons=boot.core_fn("cons"), seqp=boot.core_fn("seq?"), apply=boot.core_fn("apply"),
                  macroexpand=boot.core_fn("macroexpand"))
    return _W


class Variant:
    def __init__(self, k):
        w = world()
        self.k = k
        self.style = STYLES[k % len(STYLES)]
        self.ns = {"auto": w["sc"].name, "auto-alias": w["lib"].name}.get(self.style, "n")

    def qual(self, n):
        """abstract name 'n/x' -> concrete 'NS/x'"""
        return self.ns + n[1:] if n.startswith("n/") else n

    def unqual(self, n):
        return "n" + n[len(self.ns):] if self.ns != "n" and n.startswith(self.ns + "/") else n


# ---- printing patterns -------------------------------------------------------------------------------
def vtext(v, V):
    """literal text of a constant value (keys, defaults)"""
    ty = v["ty"]
    if ty == "kw":
        return ":" + V.qual(v["n"])
    if ty == "sym":
        return "'" + V.qual(v["n"])
    if ty == "str":
        return '"%s"' % "".join(v["s"])
    if ty == "int":
        return str(v["i"])
    if ty == "nil":
        return "nil"
    if ty == "bool":
        return "true" if v["i"] else "false"
    raise ValueError(v)


def ptext(p, V):
    if p["p"] == "sym":
        return p["n"]
    if p["p"] == "vec":
        parts = [ptext(x, V) for x in p["items"]]
        if p["rest"]:
            parts += ["&", p["rest"]]
        if p["as"]:
            parts += [":as", p["as"]]
        return "[" + " ".join(parts) + "]"
    fam = {}          # special key text -> element texts (merged so that no key of the map literal repeats)
    binds = []

    def add(k, e):
        fam.setdefault(k, []).append(e)
    for ent in p["ents"]:
        e = ent["e"]
        if e == "bind":
            binds.append(ptext(ent["pat"], V) + " " + vtext(ent["key"], V))
            continue
        word = e                                     # keys | strs | syms
        for n in ent["names"]:
            if e == "strs" or ent["ns"] == "":
                add(":" + word, n)
            elif V.style == "ns-keys" or (V.style == "elem-kw" and e == "syms"):
                add(":%s/%s" % (V.ns, word), n)
            elif V.style == "elem-sym":
                add(":" + word, "%s/%s" % (V.ns, n))
            elif V.style == "elem-kw":
                add(":" + word, ":%s/%s" % (V.ns, n))
            elif V.style == "auto":
                add("::" + word, n)
            else:
                add("::al/" + word, n)
    parts = ["%s [%s]" % (k, " ".join(es)) for k, es in fam.items()] + binds
    if p["ors"]:
        parts.append(":or {%s}" % " ".join("%s %s" % (o["n"], vtext(o["d"], V)) for o in p["ors"]))
    if p["as"]:
        parts.append(":as " + p["as"])
    return "{" + " ".join(parts) + "}"


def names_vec(names, extra=()):
    return "[" + " ".join(list(names) + list(extra)) + "]"


def form_texts(p, names, V):
    """form kind -> Lisp text of a function of the value(s); every form returns the vector of all bound names"""
    P, N = ptext(p, V), names_vec(names)
    out = {
        "let": "(fn [v] (let [%s v] %s))" % (P, N),
        "fn": "(fn [%s] %s)" % (P, N),
        "fn2": "(fn [q %s] %s)" % (P, N),
        "loop": "(fn [v] (loop [%s v i 0] (if (< i 1) (recur v (inc i)) %s)))" % (P, N),
    }
    if p["p"] == "map":
        out["kw"] = "(fn [& %s] %s)" % (P, N)
        out["kw2"] = "(fn [q & %s] %s)" % (P, N)
    if p["p"] == "vec":
        out["rest"] = "(fn [& %s] %s)" % (P, N)
        out["rest2"] = "(fn [q & %s] %s)" % (P, N)
    if names:
        out["let-later"] = "(fn [v] (let [%s v zz %s] %s))" % (P, names[0], names_vec(names, ["zz"]))
        out["loop-later"] = "(fn [v] (loop [%s v zz %s] %s))" % (P, names[0], names_vec(names, ["zz"]))
    return out


# ---- values --------------------------------------------------------------------------------------------
def conc(v, V, flavour=0):
    """abstract value -> real object; flavour picks the concrete kind of every seq? value"""
    w = world()
    ty = v["ty"]
    if ty == "nil":
        return None
    if ty == "bool":
        return bool(v["i"])
    if ty == "int":
        return v["i"]
    if ty in ("kw", "sym"):
        n = V.qual(v["n"])
        ns, _, nm = n.rpartition("/")
        return (w["kw"].keyword if ty == "kw" else w["sym"].symbol)(nm, ns=ns or None)
    if ty == "str":
        return "".join(v["s"])
    if ty == "vec":
        return w["vec"].vector([conc(x, V, flavour) for x in v["xs"]])
    if ty == "seq":
        xs = [conc(x, V, flavour) for x in v["xs"]]
        if flavour == 0:
            s = w["llist"].list(xs)
        elif flavour == 1:
            s = w["cmap"](w["identity"], w["vec"].vector(xs))                    # a lazy seq
        else:
            s = w["rest"](w["cons"](0, w["llist"].list(xs)))                      # the rest of a cons
        assert w["seqp"](s), "seq flavour %d is not seq?" % flavour
        return s
    if ty == "set":
        return w["lset"].set([conc(x, V, flavour) for x in v["xs"]])
    if ty == "map":
        return w["lmap"].map({conc(k, V, flavour): conc(x, V, flavour) for k, x in zip(v["ks"], v["vs"])})
    raise ValueError(v)


ANY = ("any",)


def canon_abs(v, V):
    """canonical (hashable, order-free) form of an abstract value"""
    ty = v["ty"]
    if ty == "any":
        return ANY
    if ty == "nil":
        return ("nil",)
    if ty in ("bool", "int"):
        return (ty, v["i"])
    if ty in ("kw", "sym"):
        return (ty, v["n"])
    if ty == "str":
        return ("str", "".join(v["s"]))
    if ty in ("vec", "seq"):
        return (ty, tuple(canon_abs(x, V) for x in v["xs"]))
    if ty == "set":
        return ("set", frozenset(canon_abs(x, V) for x in v["xs"]))
    if ty == "map":
        return ("map", frozenset((canon_abs(k, V), canon_abs(x, V)) for k, x in zip(v["ks"], v["vs"])))
    if ty == "exc":
        return ("exc", v["c"])
    raise ValueError(v)


def canon_obs(o, V, depth=0):
    """canonical form of a real object (projection to what the model distinguishes)"""
    w = world()
    if o is None:
        return ("nil",)
    if isinstance(o, bool):
        return ("bool", 1 if o else 0)
    if isinstance(o, int):
        return ("int", o)
    if isinstance(o, w["kw"].Keyword):
        return ("kw", V.unqual((o.ns + "/" if o.ns else "") + o.name))
    if isinstance(o, w["sym"].Symbol):
        return ("sym", V.unqual((o.ns + "/" if o.ns else "") + o.name))
    if isinstance(o, str):
        return ("str", o)
    if depth > 12:
        return ("deep",)
    if isinstance(o, w["IVec"]):
        return ("vec", tuple(canon_obs(x, V, depth + 1) for x in o))
    if isinstance(o, w["IMap"]):
        return ("map", frozenset((canon_obs(k, V, depth + 1), canon_obs(x, V, depth + 1)) for k, x in o.items()))
    if isinstance(o, w["ISet"]):
        return ("set", frozenset(canon_obs(x, V, depth + 1) for x in o))
    if isinstance(o, w["ISeq"]):
        out = []
        for k, x in enumerate(o):
            if k > 64:
                return ("seq-too-long",)
            out.append(canon_obs(x, V, depth + 1))
        return ("seq", tuple(out))
    return ("other", type(o).__name__)


def show(c):
    """canonical form -> short readable text (for reports and signatures)"""
    t = c[0]
    if t in ("nil", "any", "deep"):
        return t
    if t == "bool":
        return "true" if c[1] else "false"
    if t == "int":
        return str(c[1])
    if t == "kw":
        return ":" + c[1]
    if t == "sym":
        return "'" + c[1]
    if t == "str":
        return '"%s"' % c[1]
    if t == "vec":
        return "[" + " ".join(show(x) for x in c[1]) + "]"
    if t == "seq":
        return "(" + " ".join(show(x) for x in c[1]) + ")"
    if t == "set":
        return "#{" + " ".join(sorted(show(x) for x in c[1])) + "}"
    if t == "map":
        return "{" + " ".join(sorted(show(k) + " " + show(x) for k, x in c[1])) + "}"
    return str(c)


# ---- classification of a mismatch (signature = input class + wrong outcome) ---------------------------------
def binding_kind(p, name):
    """how the pattern binds name: vec-item / vec-rest / vec-as / map-as / keys / ns-keys / strs / syms / ns-syms /
    bind-<key type>; '+or' when the name has a default; None when the name is not bound here"""
    if p["p"] == "sym":
        return "symbol" if p["n"] == name else None
    if p["p"] == "vec":
        if p["rest"] == name:
            return "vec-rest" + ("+as" if p["as"] else "")
        if p["as"] == name:
            return "vec-as" + ("+rest" if p["rest"] else "")
        for it in p["items"]:
            if it["p"] == "sym" and it["n"] == name:
                return "vec-item"
            k = binding_kind(it, name)
            if k:
                return k
        return None
    if p["as"] == name:
        return "map-as"
    has_or = any(o["n"] == name for o in p["ors"])
    for ent in p["ents"]:
        if ent["e"] == "bind":
            if ent["pat"]["p"] == "sym" and ent["pat"]["n"] == name:
                kt = ent["key"]["ty"]
                if kt == "kw" and "/" in ent["key"]["n"]:
                    kt = "nskw"
                return "bind-%s-key" % kt + ("+or" if has_or else "")
            k = binding_kind(ent["pat"], name)
            if k:
                return k
        elif name in ent["names"]:
            return ("ns-" if ent["ns"] else "") + ent["e"] + ("+or" if has_or else "")
    return None


def value_class(c, name, coarse=False):
    """class of a bound value for signatures; coarse (the expected side): default | value-from-data"""
    if c == ("kw", "d" + name):
        return "default"
    if coarse:
        return "value-from-data"
    if c == ("nil",):
        return "nil"
    if c == ("bool", 0):
        return "false"
    if c == ("kw", "w" + name):
        return "value-of-key"
    return c[0]


def top_class(v):
    ty = v["ty"]
    if ty in ("vec", "seq", "map", "set"):
        return "%s[%d]" % (ty, len(v.get("xs", v.get("ks", []))))
    if ty == "str":
        return "str[%d]" % len(v["s"])
    return ty


# ---- execution -------------------------------------------------------------------------------------------
def compile_forms(p, names, V, kinds):
    """-> {kind: callable | ('compile-exc', class name, message)}"""
    w = world()
    sc = w["sc"]
    out = {}
    texts = form_texts(p, names, V)
    for k in kinds:
        if k == "letm":          # (a form and its macroexpansion evaluate alike): the expansion of the let form
            try:
                form = sc.read_all("(let [%s v] %s)" % (ptext(p, V), names_vec(names)))[0]
                with w["rt"].ns_bindings(sc.name):
                    exp = w["macroexpand"](form)
                fnstar = w["llist"].l(w["sym"].symbol("fn*"), w["vec"].v(w["sym"].symbol("v")), exp)
                out[k] = sc.eval_form(fnstar)
            except Exception as e:  # noqa
                out[k] = ("compile-exc", type(e).__name__, str(e)[:200])
            continue
        if k not in texts:
            continue
        try:
            out[k] = sc.eval(texts[k])
        except Exception as e:  # noqa
            out[k] = ("compile-exc", type(e).__name__, str(e)[:200])
    return out, texts


def call(f, args):
    try:
        r = f(*args)
    except RecursionError:
        return ("exc", "RecursionError", False)
    except Exception as e:  # noqa
        return ("exc", type(e).__name__, isinstance(e, TypeError))
    return ("val", r)


def compare(p, names, V, r, obs, later=False, exp=None):
    """r = the model's result, obs = call(...) -> None when they agree, else (signature tail, expected, observed)"""
    if r["st"] == "unspec":
        return None
    if r["st"] == "err":
        if obs[0] == "exc" and obs[2]:
            return None
        if obs[0] == "exc":
            return ("wrong-exception-class:want=TypeError:got=" + obs[1], "TypeError", obs[1])
        return ("missing-exception:want=TypeError:got=value", "TypeError", "returned " + show(canon_obs(obs[1], V)))
    if exp is None:
        exp = [canon_abs(b["v"], V) for b in r["env"]]
    if later:
        exp = exp + [exp[0]]
    if obs[0] == "exc":
        return ("unexpected-exception:" + obs[1], [show(x) for x in exp], "exc:" + obs[1])
    got = canon_obs(obs[1], V)
    if got[0] != "vec" or len(got[1]) != len(exp):
        return ("result-shape", [show(x) for x in exp], show(got))
    nm = list(names) + (["zz"] if later else [])
    for n, e, g in zip(nm, exp, got[1]):
        if e is ANY or e == g:
            continue
        if n == "zz":
            kind = "later-binding-init"
            n0 = names[0]
        else:
            kind = binding_kind(p, n) or "?"
            n0 = n
        return ("%s:want=%s:got=%s" % (kind, value_class(e, n0, coarse=True), value_class(g, n0)),
                {"name": n, "value": show(e), "all": [show(x) for x in exp]},
                {"name": n, "value": show(g), "all": [show(x) for x in got[1]]})
    return None


ROW_FORMS = ["let", "letm", "fn", "fn2", "loop"]


def run_pattern(rec, idx, tier):
    """-> (n evaluations, set of nontrivial keys, list of discrepancies (clause, case, expected, observed, sig))"""
    p, names = rec["pat"], rec["names"]
    V = Variant(idx)
    second = idx % 3 == 0                      # the variants with a leading plain parameter: every third pattern
    kinds = ["let", "fn", "loop"] + (["letm"] if idx % 2 == 0 else []) + (["fn2"] if second else [])
    if p["p"] == "map":
        kinds += ["kw"] + (["kw2"] if second else [])
    if p["p"] == "vec":
        kinds += ["rest"] + (["rest2"] if second else [])
    if names and idx % 4 == 0:
        kinds += ["let-later", "loop-later"]
    fns, texts = compile_forms(p, names, V, kinds)
    texts["letm"] = "(fn* [v] (macroexpand '%s))" % texts["let"][8:-1]
    n, nontriv, disc = 0, set(), []

    def report(kind, what, case, tail, exp, got):
        clause = {"kw": "Destructure!BindKw", "kw2": "Destructure!BindKw", "rest": "Destructure!BindRest",
                  "rest2": "Destructure!BindRest"}.get(kind, "Destructure!Bind")
        disc.append((clause, case, exp, got, "destructure:" + tail))

    for k, f in fns.items():
        if isinstance(f, tuple):
            case = {"part": "destructure", "form": k, "text": texts.get(k), "pat": p, "names": names, "variant": V.k,
                    "row": None}
            fk = {"fn2": "fn", "kw2": "kw", "rest2": "rest", "letm": "macroexpanded-let"}.get(k, k)
            report(k, "compile", case, "%s:does-not-compile" % fk, "compiles", f[1] + ": " + f[2])
            n += 1
    for ri, row in enumerate(rec["rows"]):
        v, r = row["v"], row["r"]
        flavours = [0, 1, 2] if v["ty"] == "seq" else [(idx + ri) % 3]
        if r["st"] != "unspec" and v["ty"] != "nil":
            nontriv.add((idx, ri))
        exp = [canon_abs(b["v"], V) for b in r["env"]] if r["st"] == "ok" else None
        for fl in flavours:
            val = conc(v, V, fl)
            for k in ROW_FORMS + ["let-later", "loop-later"]:
                f = fns.get(k)
                if f is None or isinstance(f, tuple):
                    continue
                obs = call(f, (None, val) if k == "fn2" else (val,))
                n += 1
                bad = compare(p, names, V, r, obs, later=k.endswith("later"), exp=exp)
                if bad:
                    case = {"part": "destructure", "form": k, "text": texts.get(k), "pat": p, "names": names,
                            "variant": V.k, "row": row, "flavour": fl, "args": None}
                    report(k, "row", case, bad[0], bad[1], bad[2])
    for fam, kk in (("kw", ["kw", "kw2"]), ("rest", ["rest", "rest2"])):
        for ri, row in enumerate(rec[fam]):
            args, r = row["args"], row["r"]
            fl = (idx + ri) % 3
            vals = [conc(a, V, fl) for a in args]
            if r["st"] != "unspec" and args:
                nontriv.add((idx, fam, ri))
            for k in kk:
                f = fns.get(k)
                if f is None or isinstance(f, tuple):
                    continue
                obs = call(f, ([None] if k.endswith("2") else []) + vals)
                n += 1
                bad = compare(p, names, V, r, obs)
                if bad:
                    case = {"part": "destructure", "form": k, "text": texts.get(k), "pat": p, "names": names,
                            "variant": V.k, "row": None, "args": args, "r": r, "flavour": fl}
                    report(k, "args", case, bad[0], bad[1], bad[2])
    return n, nontriv, disc


# ---- the primitives themselves -----------------------------------------------------------------------------
def check_prims(prims):
    """the model's Nth / NthNext / Get against the real nth / nthnext / get -> list of mismatch texts"""
    w = world()
    V = Variant(0)
    nth, nthnext, get = boot.core_fn("nth"), boot.core_fn("nthnext"), boot.core_fn("get")
    bad = []

    def same(model, obs, what):
        if model["ok"]:
            if obs[0] != "val" or canon_abs(model["v"], V) != canon_obs(obs[1], V):
                bad.append("%s: model %s, real %s" % (what, show(canon_abs(model["v"], V)),
                                                      show(canon_obs(obs[1], V)) if obs[0] == "val" else obs[1]))
        elif obs[0] != "exc" or not obs[2]:
            bad.append("%s: model raises %s, real %s" % (what, model["v"]["c"], obs[:2]))
    n = 0
    for rec in prims:
        unordered = rec["v"]["ty"] in ("map", "set") and len(rec["v"].get("ks", rec["v"].get("xs"))) > 1
        for fl in ([0, 1, 2] if rec["v"]["ty"] == "seq" else [0]):
            val = conc(rec["v"], V, fl)
            txt = show(canon_abs(rec["v"], V))
            for i in range(4):
                same(rec["nth"][i], call(nth, (val, i, None)), "(nth %s %d nil)" % (txt, i))
                if not unordered:          # the order in which a map / set is traversed is not fixed
                    same(rec["nthnext"][i], call(nthnext, (val, i)), "(nthnext %s %d)" % (txt, i))
                n += 2
            for g in rec["get"]:
                k = conc(g["k"], V)
                same({"ok": True, "v": g["r"]}, call(get, (val, k, w["kw"].keyword("dflt"))),
                     "(get %s %s :dflt)" % (txt, show(canon_abs(g["k"], V))))
                n += 1
    return n, bad
