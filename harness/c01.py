"""C01 -- compiled programs compute the values their source denotes (see langcheck.py, specs/Lang.tla)."""
import langcheck


def run(chk):
    langcheck.run(chk, "C01")


def replay(chk, body):
    langcheck.replay(chk, body, "C01")
