"""Python `ast` trees -> the JSON shape read by specs/Opt.tla (abstraction function of C15).

Statements keep their structure; expressions keep their structure where the optimizer could act (calls to
the `operator` module, native operators, if/while tests) and are abstracted to {"k": "x", "h": <hash>}
where it cannot (no operator call anywhere below).  Nothing here judges a rewrite.
"""
import ast
import hashlib

from basilisp.lang.compiler.constants import OPERATOR_ALIAS


def _h(node):
    return hashlib.sha1(ast.dump(node).encode()).hexdigest()[:12]


def _has_opcall(node):
    for n in ast.walk(node):
        if isinstance(n, ast.Call) and isinstance(n.func, ast.Attribute) and isinstance(n.func.value, ast.Name) \
                and n.func.value.id == OPERATOR_ALIAS:
            return True
        # native operator nodes are what an operator call may have been turned into: keep both sides structured
        if isinstance(n, (ast.Delete, ast.BinOp, ast.UnaryOp, ast.Compare, ast.Subscript)):
            return True
    return False


NONE = {"k": "const", "v": "None", "single": True}


def expr(e, full=False):
    """full: never abstract (used for tests of if/while, whose purity the specification must see)"""
    if e is None:
        return NONE
    if isinstance(e, ast.Constant):
        v = e.value
        return {"k": "const", "v": repr(v)[:60], "single": v is True or v is False or v is None or v is ...}
    if isinstance(e, ast.Name):
        return {"k": "name", "n": e.id}
    if isinstance(e, ast.Delete):  # only ever produced by the optimizer, in place of an expression
        return {"k": "delete", "targets": [expr(t, full) for t in e.targets]}
    if not full and not _has_opcall(e):
        return {"k": "x", "h": _h(e)}
    if isinstance(e, ast.Call) and isinstance(e.func, ast.Attribute) and isinstance(e.func.value, ast.Name) \
            and e.func.value.id == OPERATOR_ALIAS and not e.keywords \
            and not any(isinstance(a, ast.Starred) for a in e.args):
        return {"k": "opcall", "fn": e.func.attr, "args": [expr(a, full) for a in e.args]}
    if isinstance(e, ast.BinOp):
        return {"k": "binop", "op": type(e.op).__name__, "l": expr(e.left, full), "r": expr(e.right, full)}
    if isinstance(e, ast.UnaryOp):
        return {"k": "unary", "op": type(e.op).__name__, "e": expr(e.operand, full)}
    if isinstance(e, ast.Compare) and len(e.ops) == 1:
        return {"k": "compare", "op": type(e.ops[0]).__name__, "l": expr(e.left, full), "r": expr(e.comparators[0], full)}
    if isinstance(e, ast.Subscript) and isinstance(e.ctx, (ast.Load, ast.Del)):
        return {"k": "subscript", "v": expr(e.value, full), "i": expr(e.slice, full)}
    return _gen_expr(e, full)


def _gen_expr(e, full):
    lit, ch = [], []
    for name, val in ast.iter_fields(e):
        if isinstance(val, ast.AST):
            if isinstance(val, (ast.expr_context, ast.operator, ast.unaryop, ast.cmpop, ast.boolop)):
                lit.append("%s=%s" % (name, type(val).__name__))
            else:
                ch.append(expr(val, full) if isinstance(val, ast.expr) else _gen_expr(val, full))
        elif isinstance(val, list):
            if val and all(isinstance(v, ast.AST) for v in val):
                ch.append({"k": "list", "ch": [expr(v, full) if isinstance(v, ast.expr) else
                                               (_gen_expr(v, full) if not isinstance(v, (ast.cmpop,)) else
                                                {"k": "name", "n": type(v).__name__}) for v in val]})
            else:
                lit.append("%s=%r" % (name, val))
        else:
            lit.append("%s=%r" % (name, val))
    return {"k": "gen", "cls": type(e).__name__, "lit": ";".join(lit)[:200], "ch": ch}


def block(stmts, gl):
    return [stmt(s, gl) for s in stmts]


def stmt(s, gl):
    """gl: list of names declared `global` earlier in the same function (depth-first order); mutated"""
    if isinstance(s, ast.Expr):
        return {"s": "expr", "e": expr(s.value)}
    if isinstance(s, ast.Assign):
        return {"s": "assign", "tg": [expr(t) for t in s.targets], "e": expr(s.value)}
    if isinstance(s, ast.AnnAssign):
        return {"s": "assign", "tg": [expr(s.target), {"k": "x", "h": _h(s.annotation)}], "e": expr(s.value)}
    if isinstance(s, ast.Return):
        return {"s": "return", "e": expr(s.value)}
    if isinstance(s, ast.Raise):
        return {"s": "raise", "e": expr(s.exc), "cause": expr(s.cause)}
    if isinstance(s, ast.Break):
        return {"s": "break"}
    if isinstance(s, ast.Continue):
        return {"s": "continue"}
    if isinstance(s, ast.Pass):
        return {"s": "pass"}
    if isinstance(s, ast.If):
        return {"s": "if", "t": expr(s.test, full=True), "a": block(s.body, gl), "b": block(s.orelse, gl)}
    if isinstance(s, ast.While):
        return {"s": "while", "t": expr(s.test, full=True), "body": block(s.body, gl), "orelse": block(s.orelse, gl)}
    if isinstance(s, ast.Try):
        return {"s": "try", "body": block(s.body, gl),
                "hs": [{"ty": expr(h.type), "n": h.name or "", "body": block(h.body, gl)} for h in s.handlers],
                "orelse": block(s.orelse, gl), "fin": block(s.finalbody, gl)}
    if isinstance(s, (ast.FunctionDef, ast.AsyncFunctionDef)):
        sig = hashlib.sha1((ast.dump(s.args) + "|" + "|".join(ast.dump(d) for d in s.decorator_list) + "|" +
                            (ast.dump(s.returns) if s.returns else "")).encode()).hexdigest()[:12]
        return {"s": "def", "n": s.name, "sig": sig, "body": block(s.body, [])}
    if isinstance(s, ast.ClassDef):
        sig = hashlib.sha1(("|".join(ast.dump(b) for b in s.bases) + "|" + "|".join(ast.dump(k) for k in s.keywords)
                            + "|" + "|".join(ast.dump(d) for d in s.decorator_list)).encode()).hexdigest()[:12]
        return {"s": "class", "n": s.name, "sig": sig, "body": block(s.body, gl)}
    if isinstance(s, ast.Global):
        out = {"s": "global", "names": list(s.names), "prior": sorted(set(gl))}
        gl.extend(s.names)
        return out
    if isinstance(s, ast.Delete):
        return {"s": "delete", "targets": [expr(t) for t in s.targets]}
    # anything else (with, for, import, nonlocal, assert, ...): generic, blocks recursively
    lit, ch, blocks = [], [], []
    for name, val in ast.iter_fields(s):
        if isinstance(val, ast.expr):
            ch.append(expr(val))
        elif isinstance(val, list) and val and all(isinstance(v, ast.stmt) for v in val):
            blocks.append(block(val, gl))
        elif isinstance(val, list) and val and all(isinstance(v, ast.AST) for v in val):
            ch.append({"k": "x", "h": hashlib.sha1("|".join(ast.dump(v) for v in val).encode()).hexdigest()[:12]})
        elif isinstance(val, ast.AST):
            ch.append({"k": "x", "h": _h(val)})
        else:
            lit.append("%s=%r" % (name, val))
    return {"s": "gen", "cls": type(s).__name__, "lit": ";".join(lit)[:200], "ch": ch, "blocks": blocks}


def module(m):
    return block(m.body, [])


def count_nodes(m):
    return sum(1 for _ in ast.walk(m))
