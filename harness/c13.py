"""C13 -- delays run once, promises deliver once, futures yield their body's outcome.

design check:  DeferredImpl.tla (delay = state record in an Atom, body run inside swap's retry loop | guarded;
               promise = Condition + flag; future = worker + condition + wrapper) simulates Deferred.tla
               (call / silent Lin|Expire|Publish / return machines) for 2-3 threads, terminates under weak
               fairness; the pinned tree's mechanisms are explained by exactly the two named deviations
               (AsBuilt* jobs) and are REJECTED without them (Dev* jobs), as are a deliver without the
               delivered-check and a promise without its lock (anti-vacuity).
code -> spec:  the real basilisp.core delay / promise / deliver / future / deref / realized? on 2-4 real threads
               (+ the executor's worker as a scheduled logical thread) under the deterministic scheduler, every
               schedule with <= 2 (3) pre-emptions at line granularity in delay.py / promise.py / futures.py /
               atom.py and at every lock / condition operation; a timed wait's expiry is a scheduler choice
               (virtual time).  Bodies are harness callables that log body-start / body-end, may be slow
               (contain yield points) and may raise (also TimeoutError).  Every distinct recorded history is
               decided by TLC (Deferred_Trace); a history that is rejected is validated once more with one
               named deviation enabled: accepted there => sig dev:<Name>, else a case signature.
"""
import itertools
import json
import multiprocessing as mp
import random
from concurrent.futures import ThreadPoolExecutor as _TPE

import boot
import dsched
import tlc

TARGETS = {"basilisp/lang/delay.py": None, "basilisp/lang/promise.py": None, "basilisp/lang/futures.py": None,
           "basilisp/lang/atom.py": None}

NIL = {"ty": "nil", "i": 0}
TOV = {"ty": "tov", "i": 0}
WORKER_TID = 9
DEVIATIONS = {"delay": "DelayBodyInRetryLoop", "future": "FutureSwallowsTimeoutError"}


class Boom(Exception):
    pass


def I(i):
    return {"ty": "int", "i": i}


def absexc(e):
    if isinstance(e, Boom):
        return {"ty": "exc", "i": 1}
    if isinstance(e, TimeoutError):
        return {"ty": "exc", "i": 2}
    return {"ty": "exc", "i": 0, "cls": type(e).__name__}


_core = {}


def core():
    if not _core:
        boot.init()
        for n in ["deref", "realized?", "deliver", "promise", "force", "future-call"]:
            _core[n] = boot.core_fn(n)
        from basilisp.lang import keyword as kw
        _core["tov"] = kw.keyword("timed-out")
        sc = boot.Scratch()
        # the real macros: (delay ...) and (future ...) with the executor taken from *executor-pool*
        _core["mk-delay"] = sc.eval("(fn [f] (delay (f)))")
        _core["mk-future"] = sc.eval("(fn [f pool] (binding [*executor-pool* pool] (future (f))))")
        from basilisp.lang import futures
        _core["pool"] = futures.ThreadPoolExecutor(max_workers=1)
    return _core


def absval(v):
    if v is None:
        return NIL
    if v is _core.get("tov"):
        return TOV
    if isinstance(v, bool):
        return {"ty": "bool", "i": 1 if v else 0}
    if isinstance(v, int):
        return {"ty": "int", "i": v}
    return {"ty": "other", "i": 0, "cls": type(v).__name__}


# ---- scenarios ----------------------------------------------------------------------------------
# sc = {"kind": delay|promise|future, "body": val|slow|throw1|throw|timeout|-, "progs": [[op,...],...]}
# ops: deref, dereft (timed), realized, force (delay), deliver1, deliver2 (promise)
def make_body(s, kind):
    """the harness callable given to delay / future: logs its runs; run k returns 10 + k"""
    runs = [0]

    def body():
        runs[0] += 1
        k = runs[0]
        s.log(k="bstart", op="-", timed=False, a=NIL, res=NIL)
        if kind == "slow":
            s.point()
            s.point()
        if kind == "throw" or (kind == "throw1" and k == 1):
            s.log(k="bend", op="-", timed=False, a=NIL, res=absexc(Boom()))
            raise Boom()
        if kind == "timeout":
            s.log(k="bend", op="-", timed=False, a=NIL, res=absexc(TimeoutError()))
            raise TimeoutError("raised by the body")
        s.log(k="bend", op="-", timed=False, a=NIL, res=I(10 + k))
        return 10 + k
    return body


def make_scenario(sc):
    c = core()

    def make(s):
        kind = sc["kind"]
        uninstall = None
        with dsched.patched():
            if kind == "delay":
                o = c["mk-delay"](make_body(s, sc["body"]))
            elif kind == "promise":
                o = c["promise"]()
            else:
                uninstall = dsched.install_executor(s, first_tid=WORKER_TID)
                o = c["mk-future"](make_body(s, sc["body"]), c["pool"])

        def thread(prog):
            def run():
                for op in prog:
                    timed = op == "dereft"
                    aop = {"dereft": "deref", "force": "deref", "deliver1": "deliver", "deliver2": "deliver"}.get(op, op)
                    arg = I(int(op[-1])) if aop == "deliver" else NIL
                    s.log(k="call", op=aop, timed=timed, a=arg, res=NIL)
                    try:
                        if op == "deref":
                            r = absval(c["deref"](o))
                        elif op == "force":
                            r = absval(c["force"](o))
                        elif op == "dereft":
                            r = absval(c["deref"](o, 1000, c["tov"]))
                        elif op == "realized":
                            r = absval(c["realized?"](o))
                        else:
                            c["deliver"](o, arg["i"])
                            r = NIL         # the property does not say what deliver returns
                    except (dsched.Killed, dsched.StepLimit):
                        raise
                    except Exception as e:  # noqa
                        r = absexc(e)
                    s.log(k="ret", op="-", timed=False, a=NIL, res=r)
            return run
        for i, prog in enumerate(sc["progs"]):
            s.spawn(i + 1, thread(prog))

        def finish():
            if uninstall:
                uninstall()
            if s.failed:
                return None
            real = bool(c["realized?"](o))
            val = absval(c["deref"](o)) if real and kind != "future" else NIL
            return {"real": real, "val": val}
        return finish
    return make


def to_trace(sc, events, final):
    return {"kind": sc["kind"],
            "ev": [{"k": e["k"], "t": e["t"], "op": e["op"], "timed": e["timed"], "a": e["a"], "res": e["res"]}
                   for e in events if e["k"] in ("call", "ret", "bstart", "bend")],
            "final": final}


def canon_key(tr):
    """Deferred.tla is symmetric in the calling threads: histories that differ only in the names of the threads
    are one history (threads renamed in order of first appearance; the worker keeps its name)"""
    ren = {WORKER_TID: WORKER_TID}
    evs = []
    for e in tr["ev"]:
        t = ren.setdefault(e["t"], len(ren))
        evs.append((e["k"], t, e["op"], e["timed"], e["a"]["i"], e["res"]["ty"], e["res"]["i"]))
    return json.dumps([tr["kind"], evs, tr["final"]], sort_keys=True)


def explore_scenario(arg):
    sc, max_pre, limit, seed = arg
    out = {}
    fails = []
    stats = {"schedules": 0, "preempted": 0}

    def on_result(s, final):
        stats["schedules"] += 1
        if s.preemptions():
            stats["preempted"] += 1
        choices = [t[1] for t in s.trace]
        if s.failed:
            if len(fails) < 3:
                fails.append((s.failed, choices))
            return
        excs = [(t, repr(st["exc"])) for t, st in s.threads.items() if st["exc"] is not None]
        if excs:
            if len(fails) < 3:
                fails.append(("harness-exception:%s" % excs, choices))
            return
        tr = to_trace(sc, s.events, final)
        key = canon_key(tr)
        if key not in out:
            out[key] = (tr, choices)

    n, complete = dsched.explore(make_scenario(sc), TARGETS, max_preempt=max_pre, limit=limit, max_steps=1500,
                                 on_result=on_result, seed=seed)
    stats["complete"] = complete
    return sc, list(out.values()), fails, stats


def feasible(sc):
    """every untimed deref of a promise can be satisfied: some thread delivers before any untimed deref of its own"""
    if sc["kind"] != "promise":
        return True
    for p in sc["progs"]:
        for op in p:
            if op.startswith("deliver"):
                return True
            if op == "deref":
                break
    return False


def scenarios(tier, rnd):
    scs = []

    def add(kind, body, progs):
        sc = {"kind": kind, "body": body, "progs": progs}
        assert feasible(sc), sc
        scs.append(sc)
    full = tier == "thorough"
    # ---- delay: 2-4 threads racing to force one delay
    for body in ("val", "throw1", "slow", "throw"):
        main = full or body in ("val", "throw1")
        for n in (2, 3, 4):
            if main or n == 2 or (n == 3 and body == "slow"):
                add("delay", body, [["deref"]] * n)
        add("delay", body, [["realized", "deref"], ["deref", "realized"]])
        if main:
            add("delay", body, [["deref", "deref"], ["force", "realized"]])
            add("delay", body, [["realized", "realized"], ["deref"], ["realized", "deref"]])
    # ---- promise: deliver / deref / timed deref / realized?
    P = [[["deliver1"], ["deref"]],
         [["deliver1"], ["dereft"]],
         [["deliver1"], ["deliver2"], ["deref"]],
         [["deliver1", "deref"], ["deliver2", "deref"]],
         [["deliver1", "deliver2", "deref"], ["dereft", "dereft"]],
         [["deliver1"], ["dereft", "realized"]],
         [["deliver1"], ["realized", "realized"], ["realized", "dereft"]],
         [["realized", "deliver1", "realized"], ["deliver2", "dereft"]],
         [["deliver1"], ["deliver2"], ["deref"], ["dereft"]]]
    if full:
        P += [[["deliver1"], ["realized", "deref"], ["dereft", "deref"]],
              [["deliver1", "deref"], ["deliver2", "deref"], ["deref"], ["dereft", "realized"]]]
    for progs in P:
        add("promise", "-", progs)
    # ---- future: body's value / exception (also TimeoutError) for every dereffing thread
    for body in ("val", "timeout", "slow", "throw"):
        main = full or body in ("val", "timeout")
        add("future", body, [["deref"]])
        add("future", body, [["dereft"]])
        add("future", body, [["deref"], ["dereft"]])
        if main or body == "slow":
            add("future", body, [["realized", "deref"], ["dereft", "realized"]])
        if main:
            add("future", body, [["realized", "realized"], ["dereft", "dereft"]])
            add("future", body, [["deref"], ["deref", "realized"], ["dereft"]])
    if tier == "thorough":
        ops = {"delay": ["deref", "deref", "realized", "force"],
               "promise": ["deliver1", "deliver2", "deref", "dereft", "realized"],
               "future": ["deref", "dereft", "realized"]}
        bodies = {"delay": ["val", "slow", "throw1", "throw"], "promise": ["-"],
                  "future": ["val", "slow", "throw", "timeout"]}
        n = 0
        while n < 24:
            kind = rnd.choice(["delay", "promise", "future"])
            progs = [[rnd.choice(ops[kind]) for _ in range(rnd.randint(1, 2))] for _ in range(rnd.randint(2, 3))]
            sc = {"kind": kind, "body": rnd.choice(bodies[kind]), "progs": progs}
            if feasible(sc):
                scs.append(sc)
                n += 1
    return scs


# ---- TLC ------------------------------------------------------------------------------------------
def validate(chk, traces, devs="none", tag=""):
    """batch trace validation against Deferred.tla (devs: 'none' or one deviation name); -> accepted ids"""
    acc = set()
    B = 8000
    for off in range(0, len(traces), B):
        part = traces[off:off + B]
        p = tlc.write_json("deferred_traces_%s%d" % (tag, off), part)
        r = tlc.run("Deferred_Trace", "Deferred_Trace.cfg", env={"TRACE_FILE": p, "DEVS": devs}, timeout=1800)
        chk.add_tlc("Deferred_Trace[%s%s%d..]" % (tag, devs + ":" if devs != "none" else "", off), r)
        if r.violated:
            chk.machinery("Deferred_Trace: a clause of the required specification fails on a matched prefix "
                          "(the specification contradicts itself): %s\n%s" % (r.violated, r.error_trace()[:1500]))
        acc |= {off + i for i in r.tagged("ACC")}
    return acc


def diagnose(trace):
    p = tlc.write_json("deferred_diag", [trace])
    r = tlc.run("Deferred_Trace", "Deferred_TraceDiag.cfg", env={"TRACE_FILE": p, "DEVS": "none"}, workers=1,
                timeout=300)
    ls = [x % 10000 for x in r.tagged("PFX")]
    reached = max(ls) if ls else 1
    n = len(trace["ev"])
    if reached > n:
        return ("all %d events matched but the final observation %s (or a call still pending) does not fit"
                % (n, trace["final"])), "final"
    e = trace["ev"][reached - 1]
    return ("event %d of %d has no matching step in Deferred.tla: %s" % (reached, n, json.dumps(e))), \
        "%s:%s:%s" % (e["k"], e["op"], json.dumps(e["res"], sort_keys=True))


MC_JOBS = [  # (cfg, must hold, tier)
    ("DeferredImpl_MCq.cfg", True, "quick"), ("DeferredImpl_AsBuiltq.cfg", True, "quick"),
    ("DeferredImpl_DevDelay.cfg", False, "quick"), ("DeferredImpl_DevFuture.cfg", False, "quick"),
    ("DeferredImpl_NoCheck.cfg", False, "quick"), ("DeferredImpl_NoLock.cfg", False, "quick"),
    ("DeferredImpl_MC.cfg", True, "thorough"), ("DeferredImpl_AsBuilt.cfg", True, "thorough"),
    ("DeferredImpl_MC3.cfg", True, "thorough"), ("DeferredImpl_AsBuilt3.cfg", True, "thorough"),
]


def design_checks(chk):
    """started in background threads; returns a function that collects the results"""
    jobs = [j for j in MC_JOBS if j[2] == "quick" or chk.tier == "thorough"]
    ex = _TPE(max_workers=3)

    def one(job):
        cfg, must_hold, _ = job
        try:
            return job, tlc.run("DeferredImpl_MC", cfg, workers=4, timeout=3000), None
        except Exception as e:  # noqa
            return job, None, e
    futs = [ex.submit(one, j) for j in jobs]

    def collect():
        for f in futs:
            (cfg, must_hold, _), r, err = f.result()
            if err is not None:
                chk.machinery("design check %s: %s" % (cfg, str(err)[-1500:]))
                continue
            chk.add_tlc(cfg, r)
            if must_hold and (r.violated or not r.ok):
                chk.machinery("design check %s fails: %s\n%s" % (cfg, r.violated, r.error_trace()[:1500]))
            if not must_hold and not r.violated:
                chk.machinery("anti-vacuity: deviating / mutant model %s is not rejected by the design check" % cfg)
        ex.shutdown()
    return collect


def _overlaps(tr):
    open_ = set()
    for e in tr["ev"]:
        if e["k"] == "call":
            if open_:
                return True
            open_.add(e["t"])
        elif e["k"] == "ret":
            open_.discard(e["t"])
    return False


def judge(chk, traces, origin, direction="code->spec"):
    """validate traces; report each rejected one.  origin[i] = (scenario, schedule)"""
    for i, tr in enumerate(traces):
        tr["id"] = i + 1
    acc = validate(chk, traces)
    rej = [i for i in range(len(traces)) if (i + 1) not in acc]
    # second opinion: is a rejected history explained by exactly one named deviation of the as-built model?
    explained = {}
    if rej:
        sub = [dict(traces[i], id=j + 1) for j, i in enumerate(rej)]
        # both deviations are enabled at once: each is confined to its own kind of object
        acc2 = validate(chk, sub, devs="both", tag="dev")
        for j, i in enumerate(rej):
            if (j + 1) in acc2 and traces[i]["kind"] in DEVIATIONS:
                explained[i] = DEVIATIONS[traces[i]["kind"]]
    ndiag = 0
    per_sig = {}
    for i in rej:
        sc, choices = origin[i]
        tr = traces[i]
        case = {"scenario": sc, "schedule": choices}
        if i in explained:
            sig = "dev:" + explained[i]
            n = per_sig[sig] = per_sig.get(sig, 0) + 1
            if n > 40:
                continue
            why = ("not a behaviour of Deferred.tla; accepted with exactly the named deviation %s of the as-built "
                   "model (DeferredImpl_AsBuilt*)" % explained[i])
            if n <= 2:
                why += "; " + diagnose(tr)[0]
            chk.discrepancy("Deferred_Trace!Accept", case, "a behaviour of Deferred.tla", why, sig=sig,
                            module="Deferred_Trace", direction=direction, extra={"trace": tr})
        else:
            ndiag += 1
            if ndiag <= 8:
                why, where = diagnose(tr)
            else:
                why, where = "rejected by Deferred_Trace (not diagnosed: more than 8 unexplained rejections)", "?"
            sig = "case:%s/%s/%s" % (sc["kind"], sc["body"], where)
            chk.discrepancy("Deferred_Trace!Accept", case,
                            "a behaviour of Deferred.tla (body runs, values per thread, realized? monotone)", why,
                            sig=sig, module="Deferred_Trace", direction=direction, extra={"trace": tr})
    return acc, per_sig


def run(chk):
    rnd = random.Random(chk.seed)
    core()
    chk.rule = ("scenario = one delay / promise / future x kind of body (returns, slow, raises once, raises always, "
                "raises TimeoutError) x 1-4 thread programs of 1-3 calls (deref, timed deref, realized?, deliver); "
                "every schedule with <= k pre-emptions is executed on the real objects; distinct histories "
                "(call / ret / body-start / body-end) are validated by TLC against Deferred.tla; non-trivial = "
                "history in which two calls overlap")
    scs = scenarios(chk.tier, rnd)
    max_pre = 2 if chk.tier == "quick" else 3
    limit = 650 if chk.tier == "quick" else 1200
    ctx = mp.get_context("fork")
    with ctx.Pool(12) as pool:           # forked before any thread exists in this process
        collect = design_checks(chk)     # TLC design checks run in the background meanwhile
        results = pool.map(explore_scenario, [(sc, max_pre, limit, chk.seed + i) for i, sc in enumerate(scs)],
                           chunksize=1)
    traces, origin, seen = [], [], set()
    nsched = 0
    for sc, trs, fails, stats in results:
        nsched += stats["schedules"]
        for kind, choices in fails:
            clause = "Deferred!Termination" if kind.startswith("steplimit") else (
                "Deferred!NoDeadlock" if kind == "deadlock" else "Deferred!CallsReturn")
            chk.discrepancy(clause, {"scenario": sc, "schedule": choices}, "every call returns", kind,
                            sig="case:%s/%s/%s" % (sc["kind"], sc["body"], kind.split(":")[0]),
                            module="Deferred", direction="code->spec")
        for tr, choices in trs:
            key = canon_key(tr)
            if key not in seen:
                seen.add(key)
                traces.append(tr)
                origin.append((sc, choices))
    chk.count(nsched)
    acc, per_sig = judge(chk, traces, origin)
    chk.count(0, traces=len(traces))
    for tr in traces:
        if _overlaps(tr):
            chk.nontriv(n=1)
    collect()
    for kind in ("delay", "promise", "future"):
        for tr in [t for t in traces if t["kind"] == kind and _overlaps(t)][:2]:
            chk.sample({"trace": tr})
    chk.extra.update({"scenarios": len(scs), "schedules_executed": nsched,
                      "scenarios_explored_completely_within_bound": sum(1 for r in results if r[3]["complete"]),
                      "distinct_traces": len(traces), "accepted_traces": len(acc), "preemption_bound": max_pre,
                      "rejected_traces_by_deviation": per_sig})


def replay(chk, body):
    core()
    case = body["case"]
    sc, choices = case["scenario"], case["schedule"]
    s, final = dsched.run_one(make_scenario(sc), TARGETS, choices=choices, max_steps=1500)
    chk.count(1)
    print("schedule outcome:", s.failed, "final:", final)
    for e in s.events:
        if e["k"] != "lock":
            print("  ", e)
    if s.failed:
        chk.discrepancy(body["clause"], case, "every call returns", s.failed, sig=body.get("sig"), module="Deferred",
                        direction="replay")
        return
    judge(chk, [to_trace(sc, s.events, final)], [(sc, choices)], direction="replay")
