"""C09 -- syntax-quote is hygienic and destructuring binds what nth / nthnext / get would return.

spec -> code
  Destructure.tla   one state per pattern of the documented vocabulary (depth <= 2 quick, <= 3 thorough); TLC checks that
                    Bind is total, that :or applies exactly on absence, that :as is the value, and emits per pattern the
                    table value -> bindings (conforming, short, nil, wrongly typed values; keyword-argument lists; rest
                    argument lists).  Every row is replayed through real let / fn / loop forms (and the macroexpansion of
                    the let form); the model's Nth / NthNext / Get are first compared with the real nth / nthnext / get.
  SyntaxQuote.tla   one state per (namespace state, template); TLC checks EvalForm(Expand(t)) = the direct reading, the
                    gensym laws, independence from irrelevant namespace state; the namespace states are established for
                    real, the template text is read in that namespace, the form is matched against Expand up to a
                    bijection on generated symbols, evaluated and compared; Var-only templates are evaluated a second
                    time, as code, in a namespace where every name means something else (hygiene).
code <-> code       a form and its macroexpansion evaluate alike (value, exception class, effect log) on a corpus of
                    programs inside core macros with destructuring.
"""
import collections
import concurrent.futures as cf
import json
import multiprocessing as mp
import os
import time

import boot
import tlc

import c09_destr as D
import c09_mx as MX
import c09_sq as SQ

W = int(os.environ.get("VERIF_WORKERS") or 16)
PER_SIG = 3          # discrepancies kept per signature and chunk (all are counted)


# ---- workers (forked before anything big exists; records reach them as arguments) ---------------------------------
def _keep(acc, counts, disc):
    for d in disc:
        counts[d[4]] += 1
        if counts[d[4]] <= PER_SIG:
            acc.append(d)


def _job_d(arg):
    base, recs, tier = arg
    t0 = time.process_time()
    n, nt, acc, counts = 0, 0, [], collections.Counter()
    for k, rec in enumerate(recs):
        a, b, disc = D.run_pattern(rec, base + k, tier)
        n += a
        nt += len(b)
        _keep(acc, counts, disc)
    return n, nt, acc, dict(counts), time.process_time() - t0


def _job_q(arg):
    recs, exprs = arg
    t0 = time.process_time()
    n, nt, acc, counts, unrec, hyg = 0, 0, [], collections.Counter(), 0, 0
    for rec in recs:
        a, b, disc, u = SQ.run_record(rec, exprs)
        n += a
        nt += 1 if b else 0
        unrec += u
        hyg += 1 if rec["hyg"] else 0
        _keep(acc, counts, disc)
    return n, nt, acc, dict(counts), unrec, hyg, time.process_time() - t0


def _job_m(items):
    t0 = time.process_time()
    out = MX.run_chunk(items)
    return out, time.process_time() - t0


def _chunks(xs, parts):
    step = max(1, (len(xs) + parts - 1) // parts)
    return [(lo, xs[lo:lo + step]) for lo in range(0, len(xs), step)]


# ---- TLC -----------------------------------------------------------------------------------------------------------
def _tlc_jobs(chk):
    quick = chk.tier == "quick"
    jobs = [("Destructure", "Destructure_Q.cfg", "main", None),
            ("SyntaxQuote", "SyntaxQuote_Q.cfg" if quick else "SyntaxQuote_T.cfg", "main", None)]
    if not quick:
        jobs += [("Destructure", "Destructure_T.cfg", "main", None), ("Destructure", "Destructure_W.cfg", "main", None)]
    jobs += [("Destructure", "Destructure_NegOr.cfg", "neg", "OrExact"),            # mutant models: must be rejected
             ("SyntaxQuote", "SyntaxQuote_NegShared.cfg", "neg", "GensymFresh"),
             ("SyntaxQuote", "SyntaxQuote_NegNoEnv.cfg", "neg", "GensymFunction"),
             ("SyntaxQuote", "SyntaxQuote_NegSpecial.cfg", "neg", "AllQualified"),
             ("SyntaxQuote", "SyntaxQuote_NegNest.cfg", "neg", "GensymFunction")]
    per = max(2, W // 3)
    res = {}
    with cf.ThreadPoolExecutor(3) as ex:
        futs = {ex.submit(tlc.run, mod, cfg, workers=(2 if kind == "neg" else per), timeout=3000, heap="6g"): (mod, cfg, kind, inv)
                for mod, cfg, kind, inv in jobs}
        for f in cf.as_completed(futs):
            mod, cfg, kind, inv = futs[f]
            try:
                res[cfg] = f.result()
            except tlc.TLCError as e:
                chk.machinery("%s: %s" % (cfg, str(e)[-1500:]))
                res[cfg] = None
    ok = True
    for mod, cfg, kind, inv in jobs:
        r = res.get(cfg)
        if r is None:
            ok = False
            continue
        chk.add_tlc(cfg[:-4], r)
        if kind == "neg":
            if inv not in r.violated:
                chk.machinery("%s: the mutant model must violate %s (anti-vacuity), TLC says %s" % (cfg, inv, r.violated or "no error"))
                ok = False
        elif r.violated or not r.ok:
            chk.machinery("%s: the specification breaks its own invariant %s\n%s" % (cfg, r.violated, r.error_trace()[:1500]))
            ok = False
    return ok, res


# ---- run --------------------------------------------------------------------------------------------------------------
def _worker_init():
    """diagnostics only: say why a worker goes away (a dead worker would leave the pool waiting for ever)"""
    import atexit
    import faulthandler
    import signal
    import sys
    faulthandler.enable()
    log = os.environ.get("C09_WORKER_LOG")
    if not log:
        return

    def note(msg):
        with open(log, "a") as f:
            f.write("%d %s %s\n" % (os.getpid(), time.strftime("%H:%M:%S"), msg))

    def on(sig, frm):
        note("signal %d" % sig)
        signal.signal(sig, signal.SIG_DFL)
        os.kill(os.getpid(), sig)
    for sg in (signal.SIGTERM, signal.SIGHUP, signal.SIGINT, signal.SIGQUIT, signal.SIGUSR1, signal.SIGUSR2, signal.SIGPIPE):
        signal.signal(sg, on)
    atexit.register(lambda: note("atexit"))
    note("start")


def run(chk):
    ctx = mp.get_context("fork")
    pool = ctx.Pool(W, initializer=_worker_init)   # before any thread is started and before the tables are in memory
    try:
        _run(chk, pool)
    finally:
        pool.terminate()


def _run(chk, pool):
    boot.init()
    quick = chk.tier == "quick"
    sample = int(os.environ.get("C09_SAMPLE") or 1)          # development aid only: every k-th pattern / template
    chk.rule = ("destructuring: every (pattern, value / argument list) row of the TLC table x the forms let, macroexpanded "
                "let, fn (1st and 2nd parameter), loop+recur, later-binding variants, keyword-argument and rest-argument "
                "fns; non-trivial = a row whose value is not nil and whose outcome the model fixes.  syntax-quote: every "
                "(namespace state, template) record read + matched + evaluated (+ hygiene evaluation); non-trivial = a "
                "collection template or a non-default namespace state.  macroexpansion: every corpus form evaluated 3 ways; "
                "non-trivial = a form whose effect log has >= 2 markers")
    chk.assumptions += [
        "a value satisfying seq? given to a map pattern is read as keyword arguments (what the repository's own tests and "
        "Clojure do); odd-length seqs and non-documented keyword-argument lists are left unspecified",
        "the shape of the form produced for a syntax-quoted collection is not fixed by the property: the driver recognises "
        "the reader's seq/concat/list and apply/vector|hash-set|hash-map/concat idiom and otherwise compares only values",
        "a non-empty list template all of whose splices are empty may evaluate to nil or (); the literal () must stay a list",
    ]
    mx = MX.corpus(chk.tier, chk.seed)[::sample]
    rc = pool.map_async(_job_m, [c for _, c in _chunks(mx, W * 3)], chunksize=1)     # needs no TLC: starts at once
    ok, res = _tlc_jobs(chk)
    if not ok:
        return
    # ---- part A: destructuring ---------------------------------------------------------------------------------
    rq = res["Destructure_Q.cfg"]
    prims = rq.tagged("PRIM")
    np_, bad = D.check_prims(prims)
    chk.count(np_)
    if not prims or bad:
        chk.machinery("the model's Nth / NthNext / Get are not the real nth / nthnext / get (the yardstick of the "
                      "specification must be re-established): %s" % "; ".join(bad[:8] or ["no PRIM table"]))
        return
    recs = list(rq.tagged("TAB"))
    if not quick:
        seen = {json.dumps(r["pat"], sort_keys=True) for r in recs}
        for name in ("Destructure_W.cfg", "Destructure_T.cfg"):
            for r in res[name].tagged("TAB"):
                k = json.dumps(r["pat"], sort_keys=True)
                if k not in seen:
                    seen.add(k)
                    recs.append(r)
    recs.sort(key=lambda r: json.dumps(r["pat"], sort_keys=True))
    recs = recs[::sample]
    ra = pool.map_async(_job_d, [(lo, c, chk.tier) for lo, c in _chunks(recs, W * 8)], chunksize=1)
    # ---- part B records ---------------------------------------------------------------------------------------------
    rs = res["SyntaxQuote_Q.cfg" if quick else "SyntaxQuote_T.cfg"]
    ex = rs.tagged("EXPR")
    if len(ex) != 1:
        chk.machinery("SyntaxQuote: expected one EXPR table, got %d" % len(ex))
        return
    exprs, reject = ex[0]["exprs"], ex[0]["reject"]
    qrecs = list(rs.tagged("TAB"))
    qrecs.sort(key=lambda r: json.dumps([r["ns"], r["tpl"]], sort_keys=True))
    qrecs = qrecs[::sample]
    plain = SQ.family({"shadow": False, "alias": False, "refer": False})
    badx = SQ.check_exprs(plain, exprs)
    if badx:
        chk.machinery("SyntaxQuote.Exprs does not describe the real values: %s" % "; ".join(badx[:5]))
        return
    rb = pool.map_async(_job_q, [(c, exprs) for _, c in _chunks(qrecs, W * 3)], chunksize=1)
    sig_counts = collections.Counter()
    ra, rb, rc = ra.get(), rb.get(), rc.get()
    # A
    cpu = {"destructure": 0.0, "syntax_quote": 0.0, "macroexpansion": 0.0}
    for n, nt, acc, counts, dt in ra:
        cpu["destructure"] += dt
        chk.count(n, traces=n)
        chk.nontriv(n=nt)
        sig_counts.update(counts)
        for clause, case, exp, got, sig in acc:
            chk.discrepancy(clause, case, exp, got, sig=sig, module="Destructure", direction="spec->code")
    if recs:
        r0 = recs[len(recs) // 2]
        V = D.Variant(len(recs) // 2)
        chk.sample({"pattern": D.ptext(r0["pat"], V), "names": r0["names"], "rows": len(r0["rows"]),
                    "a_row": {"value": D.show(D.canon_abs(r0["rows"][0]["v"], V)), "model": r0["rows"][0]["r"]["st"]}})
    # B
    unrec = nhyg = 0
    for n, nt, acc, counts, u, h, dt in rb:
        cpu["syntax_quote"] += dt
        chk.count(n, traces=n)
        chk.nontriv(n=nt)
        unrec += u
        nhyg += h
        sig_counts.update(counts)
        for clause, case, exp, got, sig in acc:
            case = dict(case, exprs=exprs)
            chk.discrepancy(clause, case, exp, got, sig=sig, module="SyntaxQuote", direction="spec->code")
    for t in reject:
        chk.count(1)
        bad = SQ.run_reject(plain, exprs, t)
        if bad:
            chk.discrepancy(bad[0], dict(bad[1], exprs=exprs), bad[2], bad[3], sig=bad[4], module="SyntaxQuote",
                            direction="spec->code")
    if qrecs:
        q0 = next((q for q in qrecs if q["depth"] >= 2 and len(q["forms"]) == 3), qrecs[0])
        chk.sample({"template": "`" + SQ.ttext(q0["tpl"], plain, exprs), "ns": q0["ns"], "value": q0["vals"][0]})
    # C
    nm = 0
    for part, dt in rc:
        cpu["macroexpansion"] += dt
        for it, dme, dme1, direct, others, steps in part:
            nm += 1
            chk.count(3, traces=1)
            if dme == "harness":
                chk.machinery("macroexpansion corpus: %s: %s" % (it["text"][:200], dme1))
                continue
            if len(direct[2]) >= 2:
                chk.nontriv(("mx", it["text"]))
            for mode, dif, obs in (("macroexpand", dme, others[0]), ("macroexpand-1*", dme1, others[1])):
                if dif:
                    sig = "macroexpansion:%s:%s" % (mode, dif) if dif.startswith("expander-raises") else \
                        "macroexpansion:%s:top=%s:%s" % (mode, it["ctx"], dif)
                    sig_counts[sig] += 1
                    if sig_counts[sig] <= 2 * PER_SIG:
                        chk.discrepancy("MacroexpansionEvaluatesAlike", {"part": "macroexpand", "text": it["text"],
                                                                         "ctx": it["ctx"], "mode": mode},
                                        list(direct), list(obs), sig=sig, module="-", direction="code<->code")
    if mx:
        chk.sample({"macroexpansion_form": mx[len(mx) // 3]["text"]})
    chk.exhaustive = sample == 1
    chk.extra.update({"patterns": len(recs), "pattern_rows": sum(len(r["rows"]) + len(r["kw"]) + len(r["rest"]) for r in recs),
                      "templates_x_namespace_states": len(qrecs), "hygiene_evaluations": nhyg,
                      "form_shape_not_recognised": unrec,
                      "macroexpansion_forms": nm, "discrepancies_by_signature": dict(sig_counts),
                      "worker_cpu_seconds": {k: round(v, 1) for k, v in cpu.items()},
                      "examined_outside_the_property": EXAMINED})
    if sample != 1:
        chk.extra["note_sampled"] = "C09_SAMPLE=%d: development run, not the full enumeration" % sample
    if unrec and unrec == len(qrecs):
        chk.extra["note"] = "the reader's construction idiom was not recognised for any template: forms were compared by value only"


EXAMINED = {
    "`Foo. (constructor sugar)": "qualified like any unknown symbol -> (cur.ns/Foo. 1); for a deftype Foo of the current "
                                 "namespace the expansion does not compile: (deftype P [x]) (defmacro mk [v] `(P. ~v)) (mk 5) "
                                 "=> CompilerException, while `(new P ~v) works.  Not a symbol kind of the property: reported only",
    "metadata inside syntax-quote": "kept on symbols (incl. x#); dropped from list / vector / map / set forms: "
                                    "(meta (nth `(defn f ^{:pre 1} [a] 1) 2)) => nil.  The property does not speak of metadata",
    ":or with the key present and nil / false": "binds the nil / false (holds; checked on every :or pattern)",
    "& rest with :as": "rest = (nthnext v n), :as = v itself (holds)",
    "map-in-vector-in-map patterns": "hold at depth 3 (thorough tier)",
    "keyword arguments with a trailing map": "joined, the trailing map wins (holds); an odd number of arguments or one "
                                             "non-map argument raises IndexError from hash-map: not documented, unspecified",
    "::keys / ::alias/keys / :keys [::a]": "auto-resolved at read time, behave like :ns/keys (hold)",
    "[a & [b c]] in let / loop": "a pattern after & is rejected at macroexpansion in let and loop (works in fn); the "
                                 "documentation only promises `& name`: outside the vocabulary",
    "(catch Exception e# ..) in a template": "Exception is qualified with the current namespace (it names no Var) and the "
                                             "expansion does not compile; python/Exception works.  As specified (unknown symbol)",
}


# ---- replay ---------------------------------------------------------------------------------------------------------
def replay(chk, body):
    boot.init()
    case = body["case"]
    part = case.get("part")
    chk.count(1)
    if part == "destructure":
        V = D.Variant(case["variant"])
        p, names, k = case["pat"], case["names"], case["form"]
        print("form:", case.get("text"))
        fns, texts = D.compile_forms(p, names, V, [k])
        f = fns.get(k)
        if isinstance(f, tuple):
            print("does not compile:", f)
            chk.discrepancy(body["clause"], case, body["expected"], f[1] + ": " + f[2], sig=body["sig"], direction="replay")
            return
        if case.get("row") is None and case.get("args") is None:
            print("compiles now")
            return
        if case.get("args") is not None:
            vals = [D.conc(a, V, case.get("flavour", 0)) for a in case["args"]]
            r = case["r"]
            obs = D.call(f, ([None] if k.endswith("2") else []) + vals)
        else:
            row = case["row"]
            r = row["r"]
            val = D.conc(row["v"], V, case.get("flavour", 0))
            obs = D.call(f, (None, val) if k == "fn2" else (val,))
        print("model:", r["st"], [(b["n"], D.show(D.canon_abs(b["v"], V))) for b in r["env"]])
        print("real :", obs[0], D.show(D.canon_obs(obs[1], V)) if obs[0] == "val" else obs[1])
        bad = D.compare(p, names, V, r, obs, later=k.endswith("later"))
        if bad:
            chk.discrepancy(body["clause"], case, bad[1], bad[2], sig=body["sig"], direction="replay")
    elif part == "syntax-quote":
        rec = {"ns": case["ns"], "tpl": case["tpl"], "forms": case["forms"], "vals": case["vals"], "hyg": case["hyg"],
               "depth": 0}
        n, nt, disc, u = SQ.run_record(rec, case["exprs"])
        print("text:", case["text"], " namespace state:", case["ns"])
        for clause, c2, exp, got, sig in disc:
            print(clause, sig, "\n  expected", json.dumps(exp)[:400], "\n  observed", str(got)[:400])
            chk.discrepancy(clause, case, exp, got, sig=sig, direction="replay")
    elif part == "syntax-quote-reject":
        fam = SQ.family({"shadow": False, "alias": False, "refer": False})
        bad = SQ.run_reject(fam, case["exprs"], case["tpl"])
        print("text:", case["text"], "->", bad[3] if bad else "rejected")
        if bad:
            chk.discrepancy(bad[0], case, bad[2], bad[3], sig=bad[4], direction="replay")
    elif part == "macroexpand":
        d, me, me1, steps = MX.run_item(case)
        print("text:", case["text"])
        print("direct          :", d)
        print("macroexpand     :", me)
        print("macroexpand-1 * :", me1, "(%d steps)" % steps)
        dif = MX.differs(d, me if case["mode"] == "macroexpand" else me1)
        if dif:
            chk.discrepancy(body["clause"], case, list(d), list(me if case["mode"] == "macroexpand" else me1),
                            sig=body["sig"], direction="replay")
    else:
        chk.machinery("unknown replay case")
