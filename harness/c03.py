"""C03 -- readable printing round-trips through the reader.

spec -> code:  PrintRead.tla enumerates the value universe (all strings of <= 2 (quick) / 3 (thorough)
escape-relevant character classes, named numeric atoms, names, collections, Python collections, metadata
wrappers) times the print configurations that can matter, and TLC checks on the specified printing scheme
that Read(Print(v)) = <<v>> and that printing is idempotent (negative jobs: the \\xNN printer and the greedy
\\uXXXX reader are rejected; a second scheme, greedy reader + printer escaping a hex digit after \\u, is
accepted).  Every emitted (value, configuration) is concretised (two representatives per class), the real
Vars are bound, and the value goes through the real pr-str, the real read-string and
basilisp.lang.reader.read_str.  Compared: exactly one form; equal by the real `=` AND structurally (type,
order of sequential types, float bit patterns, NaN as NaN, Decimal digits); metadata under *print-meta*;
printing the re-read value gives the same text; printing twice gives the same text.
Without a model (oracle = bit equality): random doubles from boundary exponents, random Unicode strings.
"""
import datetime
import decimal
import fractions
import json
import math
import os
import random
import re
import struct
import uuid

import boot
import tlc

REPS = [
    {"hexalpha": "a", "alpha": "g", "digit": "1", "dq": '"', "bs": "\\", "nl": "\n", "tab": "\t", "cr": "\r",
     "bsp": "\b", "ff": "\f", "bel": "\a", "vt": "\v", "nul": "\0", "ctl": "\x1f", "del": "\x7f",
     "lat1": "\xe9", "bmp": "中", "astral": "\U0001F600", "sp": " "},
    {"hexalpha": "F", "alpha": "Z", "digit": "0", "dq": '"', "bs": "\\", "nl": "\n", "tab": "\t", "cr": "\r",
     "bsp": "\b", "ff": "\f", "bel": "\a", "vt": "\v", "nul": "\0", "ctl": "\x01", "del": "\x7f",
     "lat1": "\xff", "bmp": "€", "astral": "\U0001D4B3", "sp": " "},
]
NAMES = [{"a": "a", "b": "b", "x-y?": "x-y?", "+": "+"}, {"a": "foo", "b": "bar", "x-y?": "k*!", "+": "-"}]
NSS = [{"n": "n", "n.m": "n.m"}, {"n": "ns1", "n.m": "my.ns"}]
INTS = [{"zero": 0, "small": 7, "neg": -5, "huge": 10 ** 30, "neghuge": -(10 ** 30)},
        {"zero": 0, "small": 42, "neg": -1, "huge": 2 ** 70, "neghuge": -(2 ** 70) - 1}]
FLOATS = {"1.5": 1.5, "-0.0": -0.0, "0.1": 0.1, "100.0": 100.0, "1e16": 1e16, "1e22": 1e22, "1e23": 1e23,
          "5e-324": 5e-324, "1.401298464324817e-45": 1.401298464324817e-45, "1e-7": 1e-7,
          "1.2345678901234568e17": 1.2345678901234568e17, "-2.5e-10": -2.5e-10, "inf": math.inf,
          "-inf": -math.inf, "nan": math.nan}
RATIOS = {"1/3": fractions.Fraction(1, 3), "-7/2": fractions.Fraction(-7, 2),
          "huge/3": fractions.Fraction(10 ** 30 + 1, 3)}
DECS = {"1.5M": "1.5", "1M": "1", "-0.0M": "-0.0", "1E+3M": "1E+3", "1E-7M": "1E-7",
        "hugeM": "123456789012345678901234567890.123456789"}
IMAGS = {"2J": 2j, "-2J": -2j, "1.5J": 1.5j, "-0.5J": -0.5j}      # -2j = (- 2J) has the real part -0.0
REGEXES = {"re-plain": "a+b", "re-backslash": "\\d+\\.x", "re-dq": 'a"b', "re-nonascii": "\xe9+",
           "re-newline": "a\nb"}
BYTES = {"b-empty": b"", "b-ascii": b"abc 1", "b-high": b"\x00\xff\x80\n", "b-dq": b'a"b', "b-sq": b"a'b",
         "b-both": b"a'\"b", "b-bs": b"a\\b"}
UTC = datetime.timezone.utc
INSTS = {"inst-utc": datetime.datetime(2020, 1, 2, 3, 4, 5, tzinfo=UTC),
         "inst-naive-micro": datetime.datetime(2021, 12, 31, 23, 59, 59, 123456),
         "inst-offset": datetime.datetime(1999, 6, 7, 8, 9, 10,
                                          tzinfo=datetime.timezone(datetime.timedelta(hours=5, minutes=30)))}
UUID1 = uuid.UUID("6f3e1a2c-1b2d-4c3e-8f9a-0b1c2d3e4f5a")

_R = {}


def _init():
    if _R:
        return _R
    rt, _ = boot.init()
    from basilisp.lang import reader, keyword as kw, symbol as sym, list as llist, vector as vec
    from basilisp.lang import map as lmap, set as lset, queue as lqueue
    _R.update(rt=rt, reader=reader, kw=kw, sym=sym, llist=llist, vec=vec, lmap=lmap, lset=lset, lqueue=lqueue,
              pr_str=boot.core_fn("pr-str"), read_string=boot.core_fn("read-string"), eq=boot.core_fn("="),
              vars={n: rt.Var.find(sym.symbol(n, ns="basilisp.core"))
                    for n in ("*print-dup*", "*print-meta*", "*print-namespace-maps*", "*print-readably*",
                              "*print-length*", "*print-level*")})
    return _R


# ------------------------------------------------------------------------------------------------
# concretisation of abstract values
# ------------------------------------------------------------------------------------------------
def conc(v, var):
    R = _R
    ty, n, xs = v["ty"], v["n"], v["xs"]
    if ty == "nil":
        return None
    if ty == "bool":
        return n == "true"
    if ty == "int":
        return INTS[var][n]
    if ty == "float":
        return FLOATS[n] + 0.0
    if ty == "ratio":
        return RATIOS[n]
    if ty == "dec":
        return decimal.Decimal(DECS[n])
    if ty == "imag":
        return IMAGS[n]
    if ty == "uuid":
        return UUID1
    if ty == "inst":
        return INSTS[n]
    if ty == "regex":
        return re.compile(REGEXES[n])
    if ty == "bytes":
        return BYTES[n]
    if ty == "str":
        return "".join(REPS[var][c] for c in v["cs"])
    if ty in ("kw", "sym"):
        ns = NSS[var][v["ns"]] if v["ns"] else None
        name = NAMES[var][n]
        return R["kw"].keyword(name, ns=ns) if ty == "kw" else R["sym"].symbol(name, ns=ns)
    items = [conc(x, var) for x in xs]
    if ty == "list":
        return R["llist"].list(items)
    if ty == "vec":
        return R["vec"].vector(items)
    if ty == "set":
        return R["lset"].set(items)
    if ty == "queue":
        return R["lqueue"].queue(items)
    if ty == "map":
        return R["lmap"].map(dict(zip(items[0::2], items[1::2])))
    if ty == "pylist":
        return list(items)
    if ty == "pytuple":
        return tuple(items)
    if ty == "pyset":
        return set(items)
    if ty == "pydict":
        return dict(zip(items[0::2], items[1::2]))
    if ty == "meta":
        return items[1].with_meta(items[0])
    raise ValueError(ty)


# ------------------------------------------------------------------------------------------------
# structural identity of two real values
# ------------------------------------------------------------------------------------------------
def _bits(x):
    return struct.pack(">d", x)


def _user_meta(o):
    """the metadata of o without the reader's location keys"""
    m = getattr(o, "meta", None)
    if not isinstance(m, _R["lmap"].PersistentMap):
        return {}
    return {k: v for k, v in m.items() if getattr(k, "ns", None) != "basilisp.lang.reader"}


def same(a, b, meta):
    """-> None when a and b are the same value of the same type, else a short description"""
    R = _R
    if type(a) is not type(b):
        return "type:%s->%s" % (type(a).__name__, type(b).__name__)
    if isinstance(a, float):
        return None if _bits(a) == _bits(b) else "float-bits:%r->%r" % (a, b)
    if isinstance(a, complex):      # an imaginary literal cannot express the sign of a zero real part
        return None if a.real == b.real and _bits(a.imag) == _bits(b.imag) else "complex-bits"
    if isinstance(a, decimal.Decimal):
        return None if a.as_tuple() == b.as_tuple() else "decimal-digits:%s->%s" % (a, b)
    if isinstance(a, re.Pattern):
        return None if (a.pattern, a.flags) == (b.pattern, b.flags) else \
            "regex-pattern:%r->%r" % (a.pattern, b.pattern)
    if isinstance(a, (R["llist"].PersistentList, R["vec"].PersistentVector, R["lqueue"].PersistentQueue,
                      list, tuple)):
        la, lb = list(a), list(b)
        if len(la) != len(lb):
            return "length"
        for x, y in zip(la, lb):
            r = same(x, y, meta)
            if r:
                return r
    elif isinstance(a, (R["lset"].PersistentSet, set, frozenset)):
        la, lb = list(a), list(b)
        if len(la) != len(lb):
            return "length"
        for x in la:
            if not any(same(x, y, meta) is None for y in lb):
                return "set-element"
    elif isinstance(a, (R["lmap"].PersistentMap, dict)):
        la, lb = list(a.items()), list(b.items())
        if len(la) != len(lb):
            return "length"
        for k, v in la:
            if not any(same(k, k2, meta) is None and same(v, v2, meta) is None for k2, v2 in lb):
                return "map-entry"
    elif a != b:
        return "value:%r->%r" % (a, b)
    if meta:
        ma, mb = _user_meta(a), _user_meta(b)
        if len(ma) != len(mb):
            return "meta:%s->%s" % (ma, mb)
        for k, v in ma.items():
            if not any(same(k, k2, meta) is None and same(v, v2, meta) is None for k2, v2 in mb.items()):
                return "meta:%s->%s" % (ma, mb)
    return None


def strip_loc(o):
    """a copy of o without the reader's line/col metadata"""
    R = _R
    if isinstance(o, (str, bytes)) or o is None:
        return o
    if isinstance(o, R["sym"].Symbol):
        m = _user_meta(o)
        return o.with_meta(R["lmap"].map(m) if m else None)
    if isinstance(o, (R["llist"].PersistentList, R["vec"].PersistentVector, R["lset"].PersistentSet,
                      R["lqueue"].PersistentQueue)):
        ctor = {R["llist"].PersistentList: R["llist"].list, R["vec"].PersistentVector: R["vec"].vector,
                R["lset"].PersistentSet: R["lset"].set, R["lqueue"].PersistentQueue: R["lqueue"].queue}[type(o)]
        m = {strip_loc(k): strip_loc(v) for k, v in _user_meta(o).items()}
        return ctor([strip_loc(x) for x in o]).with_meta(R["lmap"].map(m) if m else None)
    if isinstance(o, R["lmap"].PersistentMap):
        m = {strip_loc(k): strip_loc(v) for k, v in _user_meta(o).items()}
        return R["lmap"].map({strip_loc(k): strip_loc(v) for k, v in o.items()}).with_meta(
            R["lmap"].map(m) if m else None)
    if isinstance(o, list):
        return [strip_loc(x) for x in o]
    if isinstance(o, tuple):
        return tuple(strip_loc(x) for x in o)
    if isinstance(o, set):
        return {strip_loc(x) for x in o}
    if isinstance(o, dict):
        return {strip_loc(k): strip_loc(v) for k, v in o.items()}
    return o


# ------------------------------------------------------------------------------------------------
# one round trip through the real printer and reader
# ------------------------------------------------------------------------------------------------
def round_trip(val, cfg):
    """-> (outcome, detail, text); outcome 'same' or what went wrong"""
    R = _R
    rt, lmap = R["rt"], R["lmap"]
    vs = R["vars"]
    binds = {vs["*print-dup*"]: bool(cfg.get("dup")), vs["*print-meta*"]: bool(cfg.get("meta")),
             vs["*print-namespace-maps*"]: bool(cfg.get("nsmaps")), vs["*print-readably*"]: True,
             vs["*print-length*"]: None, vs["*print-level*"]: None}
    rt.push_thread_bindings(lmap.map(binds))
    try:
        try:
            text = R["pr_str"](val)
            text2 = R["pr_str"](val)
        except Exception as e:  # noqa
            return "print-error:" + type(e).__name__, str(e)[:80], None
        if text != text2:
            return "nondeterministic", text2, text
        if cfg.get("dup"):
            # *print-dup* claims readability whatever *print-length* says: the text must not be elided
            rt.push_thread_bindings(lmap.map({vs["*print-length*"]: 1}))
            try:
                text3 = R["pr_str"](val)
            finally:
                rt.pop_thread_bindings()
            if text3 != text:
                return "print-dup-elided-by-print-length", text3, text
        try:
            forms = list(R["reader"].read_str(text))
        except Exception as e:  # noqa
            return "unreadable:" + type(e).__name__, str(e)[:100], text
        if len(forms) != 1:
            return "forms:%d" % len(forms), repr(forms)[:100], text
        back = forms[0]
        d = same(val, back, bool(cfg.get("meta")))
        if d:
            return "differs", d, text
        try:
            e = R["eq"](val, back)
        except Exception as ex:  # noqa
            e = "exc:" + type(ex).__name__
        if e is not True and not _has_nan(val):
            return "not=", repr(e), text
        try:
            viaread = R["read_string"](text)
        except Exception as ex:  # noqa
            return "read-string-error:" + type(ex).__name__, str(ex)[:80], text
        d = same(back, viaread, bool(cfg.get("meta")))
        if d:
            return "read-string-differs", d, text
        # reader location metadata (line/col) is not part of the value: dropped before printing again
        again = R["pr_str"](strip_loc(back) if cfg.get("meta") else back)
        if again != text and not _unordered(val):
            return "reprint-differs", again, text
        return "same", None, text
    finally:
        rt.pop_thread_bindings()


def _has_nan(v):
    if isinstance(v, float):
        return v != v
    if isinstance(v, (str, bytes)):
        return False
    if isinstance(v, dict) or hasattr(v, "items") and callable(getattr(v, "items")):
        return any(_has_nan(k) or _has_nan(x) for k, x in v.items())
    try:
        return any(_has_nan(x) for x in v)
    except TypeError:
        return False


def _unordered(v):
    """contains a hashed collection with >= 2 entries (iteration order of the re-read value may differ)"""
    R = _R
    if isinstance(v, (R["lset"].PersistentSet, set, frozenset, R["lmap"].PersistentMap, dict)):
        if len(v) >= 2:
            return True
        items = list(v.items()) if hasattr(v, "items") else [(x,) for x in v]
        return any(_unordered(x) for tup in items for x in tup) or len(_user_meta(v)) >= 2
    if isinstance(v, (R["llist"].PersistentList, R["vec"].PersistentVector, R["lqueue"].PersistentQueue,
                      list, tuple)):
        return any(_unordered(x) for x in v) or len(_user_meta(v)) >= 2
    return len(_user_meta(v)) >= 2


# ------------------------------------------------------------------------------------------------
# signatures
# ------------------------------------------------------------------------------------------------
X_MSG = "Unknown escape sequence: \\x"
G_MSG = "Unicode escape sequence must be exactly"


def string_devs(x_fires, g_fires, oc, detail, text):
    """the named deviations of the as-built model that explain an unreadable string: a deviation counts
    only if it fires on this string in the model AND the real text / error shows exactly that mechanism"""
    if not oc.startswith("unreadable"):
        return []
    devs = []
    if x_fires and text and "\\x" in text and X_MSG in (detail or ""):
        devs.append("XEscape")
    if g_fires and (G_MSG in (detail or "") or "chr() arg not in range" in (detail or "")):
        devs.append("GreedyHex")        # 4 hex-digit characters after \uXXXX make an 8-digit escape
    return devs


def leaf_sig(v, outcome, detail, text, beh):
    """family signature for a failing value: names the input class and the wrong outcome"""
    ty = v["ty"]
    oc = outcome.split(":")[0]
    if ty == "str":
        x = beh.get("x", "?") != "same"
        g = beh.get("g", "?") != "same" or beh.get("xg", "?") != "same"
        devs = string_devs(x, g, outcome, detail, text)
        return "dev:" + "+".join(devs) if devs else None
    if ty == "float":
        shape = "exponent-notation" if text and "e" in text else "plain"
        if oc == "differs" and detail.startswith("type:float->int"):
            return "float:printed-in-%s->read-as-int" % shape
        if oc == "differs" and detail.startswith("float-bits"):
            return "float:printed-in-%s->read-as-a-different-double" % shape
    if ty == "imag":
        return "imaginary:%s->%s" % ("negative" if v["n"].startswith("-") else "positive", oc)
    if ty == "bytes":
        return "bytes:%s->%s" % ("containing-a-double-quote" if b'"' in BYTES[v["n"]] else v["n"], oc)
    if ty == "regex":
        pat = REGEXES[v["n"]]
        if '"' in pat:
            return "regex:pattern-with-a-double-quote->%s" % oc
        if oc == "differs":
            return "regex:pattern-with-backslash-newline-or-non-ascii->read-as-a-different-pattern"
        return "regex:%s->%s" % (v["n"], oc)
    return None


def find_leaf(v):
    """the abstract leaves of a value (atoms and strings)"""
    if v["xs"]:
        for x in v["xs"]:
            yield from find_leaf(x)
    else:
        yield v


# ------------------------------------------------------------------------------------------------
def _work(behs):
    _init()
    out = []
    n = 0
    leaf_cache = {}
    for b in behs:
        for var in (0, 1):
            val = conc(b["v"], var)
            oc, detail, text = round_trip(val, b["cfg"])
            n += 1
            if oc == "same":
                continue
            sig = None
            if not b["v"]["xs"]:
                sig = leaf_sig(b["v"], oc, detail, text, b)
            else:
                for lf in find_leaf(b["v"]):
                    key = (json.dumps(lf, sort_keys=True), var, json.dumps(b["cfg"], sort_keys=True))
                    if key not in leaf_cache:
                        lo, ld, lt = round_trip(conc(lf, var), b["cfg"])
                        leaf_cache[key] = None if lo == "same" else (leaf_sig(lf, lo, ld, lt, {}) or "leaf")
                    if leaf_cache[key] and leaf_cache[key] != "leaf":
                        sig = leaf_cache[key]
                        break
            out.append({"v": b["v"], "cfg": b["cfg"], "var": var, "outcome": oc, "detail": detail, "text": text,
                        "sig": sig})
    return n, out


class Bg:
    """a TLC job running in a background thread"""

    def __init__(self, module, cfg, **kw):
        import threading
        import time
        self.r = self.err = None

        def go():
            try:
                kw["workers"] = min(kw.get("workers", 16), TLCW)
                self.r = tlc.run(module, cfg, **kw)
            except BaseException as e:  # noqa
                self.err = e
        self.t = threading.Thread(target=go, daemon=True)
        self.t.start()
        time.sleep(0.3)          # tlc.run numbers its scratch directories with an unlocked counter

    def result(self):
        self.t.join()
        if self.err is not None:
            raise self.err
        return self.r


POOL = int(os.environ.get("VERIF_POOL") or 16)            # process pool size (shared machine: VERIF_POOL=4)
TLCW = int(os.environ.get("VERIF_TLC_WORKERS") or 16)     # cap on TLC worker threads per job


def _pool(n=None):
    import multiprocessing
    return multiprocessing.get_context("fork").Pool(n or POOL)


def float_probe(seed, n):
    """random doubles from boundary exponents -> failures (repr, outcome, detail, text)"""
    _init()
    rnd = random.Random(seed)
    exps = [0, 1, 2, 3, 1020, 1021, 1022, 1023, 1024, 1025, 1075, 1076, 1077, 1074, 1006, 1009, 1010, 2044,
            2045, 2046, 971, 972, 970, 52, 53, 54, 897, 874, 873, 1150, 1151]
    mants = [0, 1, (1 << 52) - 1, 1 << 51, (1 << 51) + 1]
    bad = []
    for _ in range(n):
        e = rnd.choice(exps) if rnd.random() < 0.8 else rnd.randrange(0, 2047)
        m = rnd.choice(mants) if rnd.random() < 0.3 else rnd.getrandbits(52)
        s = rnd.getrandbits(1)
        x = struct.unpack(">d", struct.pack(">Q", (s << 63) | (e << 52) | m))[0]
        oc, detail, text = round_trip(x, {})
        if oc != "same":
            bad.append((repr(x), oc, detail, text))
    return n, bad


def _float_work(args):
    return float_probe(*args)


def _string_work(args):
    seed, n = args
    _init()
    rnd = random.Random(seed)
    pools = [list(r.values()) for r in REPS]
    extra = [" ", "\u0085", "﻿", "퟿", "", "￿", "\U00010000", "\U0010ffff", "­",
             "e", "u", "x", "U", "0", "9", "\\u", "\\x41", "{", "#"]
    bad = []
    for _ in range(n):
        k = rnd.randrange(1, 9)
        s = "".join(rnd.choice(rnd.choice(pools) + extra) if rnd.random() < 0.8 else chr(rnd.choice(
            [rnd.randrange(0, 0x80), rnd.randrange(0x80, 0x800), rnd.randrange(0x800, 0xd800),
             rnd.randrange(0xe000, 0x10000), rnd.randrange(0x10000, 0x110000)])) for _ in range(k))
        oc, detail, text = round_trip(s, {})
        if oc != "same":
            bad.append((s, oc, detail, text))
    return n, bad


def classify_string(s):
    """which deviations of the as-built model fire on a concrete string"""
    x = any((ord(c) < 0x20 and c not in "\n\t\r") or 0x7f <= ord(c) <= 0xff for c in s)
    g = any((ord(s[i]) >= 0x100 or x) and s[i + 1] in "0123456789abcdefABCDEF" for i in range(len(s) - 1))
    return x, g


def run(chk):
    _init()
    quick = chk.tier == "quick"
    chk.rule = ("every (value, print configuration) emitted by TLC is concretised twice and sent through the real "
                "pr-str / read-string / read_str; non-trivial = a value that is not a plain scalar: a string with "
                ">= 1 escape-relevant class, a collection, a metadata wrapper, or a numeric atom whose text uses "
                "exponent / suffix notation")
    pool = _pool()
    try:
        # the small design-check jobs run beside the generation job (threads start after the pool exists)
        side = [(name, Bg("PrintRead", name, timeout=3000, workers=2, heap="1g"))
                for name in ("PrintRead_NegX.cfg", "PrintRead_NegG.cfg")]
        side.append(("PrintRead_MCB.cfg", Bg("PrintRead", "PrintRead_MCB.cfg", timeout=3000, workers=4, heap="2g")))
        r = tlc.run("PrintRead", "PrintRead_MC.cfg" if quick else "PrintRead_MCt.cfg", timeout=3000, heap="6g",
                    workers=TLCW)
        chk.add_tlc("PrintRead_MC", r)
        for name, bg in side:
            rs = bg.result()
            chk.add_tlc(name[:-4], rs)
            if name == "PrintRead_MCB.cfg":
                if rs.violated or not rs.ok:
                    chk.machinery("PrintRead_MCB: the scheme 'greedy reader + printer escapes a hex digit after "
                                  "\\u' does not round-trip: %s" % rs.violated)
            elif "RoundTrip" not in rs.violated:
                chk.machinery("%s: the deviation was NOT rejected by the design check (vacuous)" % name)
        if r.violated or not r.ok:
            chk.machinery("PrintRead_MC: the specified printing scheme does not round-trip: %s\n%s"
                          % (r.violated, r.error_trace()[:1500]))
            return
        behs = r.tagged("BEH")
        behs.sort(key=lambda b: json.dumps(b, sort_keys=True))
        chk.extra["values_x_configs"] = len(behs)
        for b in behs:
            v = b["v"]
            if v["xs"] or (v["ty"] == "str" and set(v["cs"]) - {"alpha", "hexalpha", "digit", "sp"}) or \
                    (v["ty"] in ("float", "dec", "imag", "ratio") and any(c in v["n"] for c in "eE/MJ")):
                chk.nontriv(None, 2)
        step = max(1, len(behs) // 128)
        jobs = [behs[i:i + step] for i in range(0, len(behs), step)]
        for n, bad in pool.imap_unordered(_work, jobs):
            chk.count(n, traces=n)
            for d in bad:
                case = {"kind": "value", "v": d["v"], "cfg": d["cfg"], "var": d["var"]}
                chk.discrepancy("PrintRead!RoundTrip", case, "same value, same type, one form",
                                "%s (%s) text=%r" % (d["outcome"], d["detail"], d["text"]),
                                sig=d["sig"], module="PrintRead", direction="spec->code")
        for b in behs[:3000:600]:
            chk.sample({"v": b["v"], "cfg": b["cfg"]})
        # ---- clauses decided without a model ------------------------------------------------
        nf = 3000 if quick else 50000
        parts = [(chk.seed * 1000 + i, nf // 16) for i in range(16)]
        for n, bad in pool.imap_unordered(_float_work, parts):
            chk.count(n, traces=n)
            for rep, oc, detail, text in bad:
                shape = "exponent-notation" if "e" in rep else "plain"
                what = "read-as-int" if detail and detail.startswith("type:float->int") else \
                    "read-as-a-different-double" if detail and detail.startswith("float-bits") else oc
                chk.discrepancy("PrintRead!RoundTrip(float bits)", {"kind": "float", "repr": rep},
                                "the same double", "%s (%s)" % (oc, detail),
                                sig="float:printed-in-%s->%s" % (shape, what), module="PrintRead",
                                direction="spec->code")
        ns = 4000 if quick else 60000
        parts = [(chk.seed * 1000 + 500 + i, ns // 16) for i in range(16)]
        for n, bad in pool.imap_unordered(_string_work, parts):
            chk.count(n, traces=n)
            for s, oc, detail, text in bad:
                x, g = classify_string(s)
                devs = string_devs(x, g, oc, detail, text)
                chk.discrepancy("PrintRead!RoundTrip(random string)", {"kind": "string", "s": s},
                                "the same string", "%s (%s) text=%r" % (oc, detail, text),
                                sig="dev:" + "+".join(devs) if devs else None,
                                module="PrintRead", direction="spec->code")
        chk.extra["random_floats"] = nf
        chk.extra["random_strings"] = ns
    finally:
        pool.close()
        pool.join()
    chk.discrepancies.sort(key=lambda d: len(json.dumps(d["case"])))
    chk.exhaustive = True


def replay(chk, body):
    _init()
    case = body["case"]
    if case["kind"] == "value":
        val, cfg = conc(case["v"], case["var"]), case["cfg"]
    elif case["kind"] == "float":
        val, cfg = float(case["repr"]), {}
    else:
        val, cfg = case["s"], {}
    oc, detail, text = round_trip(val, cfg)
    print("value=%r cfg=%s\n  pr-str => %r\n  outcome: %s %s" % (val, cfg, text, oc, detail))
    chk.count()
    if oc != "same":
        chk.discrepancy(body["clause"], case, body["expected"], "%s (%s) text=%r" % (oc, detail, text),
                        sig=body.get("sig"), module="PrintRead", direction="replay")
