"""C09, syntax-quote half: establish the namespace states of SyntaxQuote.tla for real, read the template text IN
the namespace, compare the form with Expand (up to a bijection on generated symbols) and its value with EvalForm.

A TAB record = {ns: {shadow, alias, refer}, tpl, forms: [F..], vals: [D..], hyg, depth}; a template with gensyms
comes as a program of three instances (two in one text, one read separately): fresh across templates and reads.
"""
import itertools
import os

import boot

CORE = "basilisp.core"
_fam = {}
_n = [0]


class Family:
    """the namespaces of one namespace state: CUR (where templates are written), LIB, and FOREIGN, a namespace that
    gives every name another meaning (for the hygiene evaluation)"""

    def __init__(self, nsrec):
        boot.init()
        from basilisp.lang import runtime, symbol as sym
        _n[0] += 1
        base = "c09.q%d.s%d" % (os.getpid(), _n[0])
        self.rt, self.sym = runtime, sym
        quiet = dict(warn_on_unused_names=False, warn_on_shadowed_name=False, warn_on_shadowed_var=False,
                     warn_on_var_indirection=False)
        self.lib = boot.Scratch(name=base + ".lib", **quiet)
        self.lib.eval("(def ov 21) (def ofn 22)")
        self.cur = boot.Scratch(name=base + ".cur", **quiet)
        self.cur.eval("(def lv 10) (def lfn 11)")
        if nsrec["shadow"]:
            self.cur.eval("(def first 12)")
        if nsrec["alias"]:
            self.cur.ns.add_alias(self.lib.ns, sym.symbol("o"))
        if nsrec["refer"]:
            self.cur.ns.add_refer(sym.symbol("ov"), runtime.Var.find(sym.symbol("ov", ns=self.lib.name)))
        if nsrec.get("rename"):
            self.cur.ns.add_refer(sym.symbol("rfn"), runtime.Var.find(sym.symbol("ofn", ns=self.lib.name)))
        lib2 = boot.Scratch(name=base + ".lib2", **quiet)
        lib2.eval("(def ov 921) (def ofn 922) (def nope 923)")
        self.foreign = boot.Scratch(name=base + ".foreign", **quiet)
        self.foreign.eval("(def lv 910) (def lfn 911) (def first 912) (def map 913) (def inc 914) (def ov 915) (def rfn 916)")
        self.foreign.ns.add_alias(lib2.ns, sym.symbol("o"))
        self.q = {"CUR": self.cur.name, "LIB": self.lib.name, "CORE": CORE}
        self.unq = {v: k for k, v in self.q.items()}

    def conc_q(self, q):
        return self.q.get(q, q)


def family(nsrec):
    key = (nsrec["shadow"], nsrec["alias"], nsrec["refer"], bool(nsrec.get("rename")))
    if key not in _fam:
        _fam[key] = Family(nsrec)
    return _fam[key]


# ---- printing templates ------------------------------------------------------------------------------------
def ktext(v):
    ty = v["ty"]
    if ty == "kw":
        return ":" + v["n"]
    if ty == "int":
        return str(v["i"])
    if ty == "nil":
        return "nil"
    raise ValueError(v)


def ttext(t, fam, exprs):
    k = t["t"]
    if k == "sym":
        return (fam.conc_q(t["q"]) + "/" if t["q"] else "") + t["n"]
    if k == "gs":
        return t["n"] + "#"
    if k == "k":
        return ktext(t["v"])
    if k == "unq":
        return "~" + exprs[t["e"]]["txt"]
    if k == "spl":
        return "~@" + exprs[t["e"]]["txt"]
    if k == "nest":
        return "~`" + ttext(t["inner"], fam, exprs)
    inner = " ".join(ttext(x, fam, exprs) for x in t["xs"])
    return {"list": "(%s)", "vec": "[%s]", "set": "#{%s}", "map": "{%s}"}[t["c"]] % inner


# ---- matching the real form against the abstract form --------------------------------------------------------
class Bij:
    """bijection between the model's gensym ids and real symbol names"""

    def __init__(self, ng=1):
        self.fwd, self.bwd, self.ng = {}, {}, max(1, ng)      # ng = generated symbols per template instance

    def copy(self):
        b = Bij(self.ng)
        b.fwd, b.bwd = dict(self.fwd), dict(self.bwd)
        return b

    def bind(self, gid, name):
        if self.fwd.get(gid, name) != name:
            return "gensym:one-template-symbol-read-as-two-symbols"
        if self.bwd.get(name, gid) != gid:
            return "gensym:two-template-symbols-read-as-one-symbol" \
                if (gid - 1) // self.ng == (self.bwd[name] - 1) // self.ng else "gensym:not-fresh-across-templates"
        self.fwd[gid], self.bwd[name] = name, gid
        return None


IDIOM = {"list": ("seq",), "vec": ("apply", "vector"), "set": ("apply", "hash-set"), "map": ("apply", "hash-map")}


def sym_kind(s):
    from_spec = {"if", "do", "let*", "fn*", "quote", "recur", "var", "def", "throw", "try", "loop*"}
    if s["q"] == "" and s["n"] in from_spec:
        return "special-form"
    return {"CUR": "current-ns", "LIB": "library-ns", "CORE": "core", "": "unqualified"}.get(s["q"], "qualified")


class Matcher:
    def __init__(self, fam, exprs, expr_forms):
        self.fam, self.exprs, self.expr_forms = fam, exprs, expr_forms
        from basilisp.lang import symbol as sym, list as llist
        from basilisp.lang.interfaces import ISeq
        self.sym, self.ISeq = sym, ISeq
        self.unrecognised = 0

    def is_core(self, x, name):
        return isinstance(x, self.sym.Symbol) and x.ns == CORE and x.name == name

    def qsym(self, x):
        """(quote sym) -> sym, else None"""
        if isinstance(x, self.ISeq):
            xs = list(x)
            if len(xs) == 2 and isinstance(xs[0], self.sym.Symbol) and xs[0].ns is None and xs[0].name == "quote" \
                    and isinstance(xs[1], self.sym.Symbol):
                return xs[1]
        return None

    def segments(self, c, real):
        """the arguments of the reader's (concat ..) for collection kind c, or None when the idiom is not recognised"""
        if not isinstance(real, self.ISeq):
            return None
        xs = list(real)
        head = IDIOM[c]
        if len(xs) != len(head) + 1 or not all(self.is_core(x, h) for x, h in zip(xs, head)):
            return None
        cc = xs[-1]
        if not isinstance(cc, self.ISeq):
            return None
        cs = list(cc)
        if not cs or not self.is_core(cs[0], "concat"):
            return None
        return cs[1:]

    def match(self, F, real, bij):
        """-> None (agree) | mismatch class text.  'shape' mismatches (idiom not recognised) raise Unrecognised."""
        f = F["f"]
        if f == "quote":
            s = self.qsym(real)
            want = F["s"]
            if s is None:
                return "symbol:%s:not-a-quoted-symbol" % sym_kind(want)
            wq = self.fam.conc_q(want["q"]) or None
            if s.ns != wq or s.name != want["n"]:
                got = {"q": self.fam.unq.get(s.ns, s.ns or ""), "n": s.name}
                return "symbol:want=%s:got=%s%s" % (sym_kind(want), sym_kind(got),
                                                     "" if s.name == want["n"] else "(other name)")
            return None
        if f == "gquote":
            s = self.qsym(real)
            if s is None:
                return "gensym:not-a-quoted-symbol"
            if s.ns is not None:
                return "gensym:qualified"
            return bij.bind(F["id"], s.name)
        if f == "const":
            v = F["v"]
            ok = (v["ty"] == "nil" and real is None) or (v["ty"] == "int" and real == v["i"] and not isinstance(real, bool)) \
                or (v["ty"] == "kw" and getattr(real, "name", None) == v["n"] and type(real).__name__ == "Keyword")
            return None if ok else "constant:changed"
        if f == "nest":         # the nested template's own form, inserted as the unquoted expression
            return self.match(F["g"], real, bij)
        if f == "expr":
            return None if real == self.expr_forms[F["e"]] else "unquote:expression-not-inserted-verbatim"
        segs = self.segments(F["c"], real)
        if segs is None:
            if not isinstance(real, self.ISeq) or self.qsym(real) is not None:
                return "%s:want=collection-form:got=%s" % (F["c"], "quoted-symbol" if self.qsym(real) is not None else "constant")
            for c2 in IDIOM:
                if self.segments(c2, real) is not None:
                    return "collection-type:want=%s:got=%s" % (F["c"], c2)
            raise Unrecognised()
        if len(segs) != len(F["segs"]):
            return "%s:segment-count:want=%d:got=%d" % (F["c"], len(F["segs"]), len(segs))
        if F["c"] in ("set", "map"):
            return self.match_unordered(F, segs, bij)
        for S, r in zip(F["segs"], segs):
            bad = self.match_seg(S, r, bij)
            if bad:
                return bad
        return None

    def match_seg(self, S, r, bij):
        if S["k"] == "many":
            return None if r == self.expr_forms[S["e"]] else "splice:expression-not-inserted-verbatim"
        if not isinstance(r, self.ISeq):
            return "element:not-wrapped-in-list"
        rs = list(r)
        if len(rs) != 2 or not self.is_core(rs[0], "list"):
            if any(r == ef for ef in self.expr_forms.values()):
                return "element:spliced-instead-of-inserted"
            raise Unrecognised()
        return self.match(S["f"], rs[1], bij)

    def match_unordered(self, F, segs, bij):
        """the reader reads a set / map literal before expanding it: iteration order is not textual order.  For a
        map, pairs stay together."""
        want = F["segs"]
        if F["c"] == "map":
            if len(want) % 2:
                return "map:odd"
            wp = [(want[i], want[i + 1]) for i in range(0, len(want), 2)]
            rp = [(segs[i], segs[i + 1]) for i in range(0, len(segs), 2)]
        else:
            wp = [(w,) for w in want]
            rp = [(r,) for r in segs]
        first_bad, unrec = None, False
        for perm in itertools.permutations(range(len(rp))):
            b2 = bij.copy()
            bad = None
            try:
                for wi, ri in enumerate(perm):
                    for S, r in zip(wp[wi], rp[ri]):
                        bad = self.match_seg(S, r, b2)
                        if bad:
                            break
                    if bad:
                        break
            except Unrecognised:
                unrec = True
                continue
            if bad is None:
                bij.fwd, bij.bwd = b2.fwd, b2.bwd
                return None
            first_bad = _prefer(first_bad, bad)
        if unrec:
            raise Unrecognised()
        return first_bad


class Unrecognised(Exception):
    pass


def _prefer(a, b):
    """of the failures of two pairings of an unordered collection keep the more telling one: a pairing that only
    fails on the gensym bijection matched everything else"""
    if a is None:
        return b
    if "gensym:" in b and "gensym:" not in a:
        return b
    return a


# ---- values ----------------------------------------------------------------------------------------------------
def canon_data(d):
    """abstract data (spec) -> canonical; gensyms stay ('gsym', id)"""
    ty = d["ty"]
    if ty == "nil":
        return ("nil",)
    if ty == "int":
        return ("int", d["i"])
    if ty == "kw":
        return ("kw", d["n"])
    if ty == "sym":
        return ("sym", d["q"], d["n"])
    if ty == "gsym":
        return ("gsym", d["id"])
    if ty == "nilorempty":
        return ("nilorempty",)
    if ty in ("vec", "list"):
        return (ty, tuple(canon_data(x) for x in d["xs"]))
    if ty == "set":
        return ("set", tuple(canon_data(x) for x in d["xs"]))
    if ty == "map":
        return ("map", tuple((canon_data(k), canon_data(v)) for k, v in zip(d["ks"], d["vs"])))
    raise ValueError(d)


def proj_real(o, fam, depth=0):
    """real data -> canonical with symbols as ('sym', abstract q, name)"""
    from basilisp.lang import keyword as kw, symbol as sym
    from basilisp.lang.interfaces import ISeq, IPersistentVector, IPersistentMap, IPersistentSet
    if o is None:
        return ("nil",)
    if isinstance(o, bool):
        return ("bool", o)
    if isinstance(o, int):
        return ("int", o)
    if isinstance(o, kw.Keyword):
        return ("kw", (o.ns + "/" if o.ns else "") + o.name)
    if isinstance(o, sym.Symbol):
        return ("sym", fam.unq.get(o.ns, o.ns or ""), o.name)
    if isinstance(o, str):
        return ("str", o)
    if depth > 10:
        return ("deep",)
    if isinstance(o, IPersistentVector):
        return ("vec", tuple(proj_real(x, fam, depth + 1) for x in o))
    if isinstance(o, IPersistentMap):
        return ("map", tuple((proj_real(k, fam, depth + 1), proj_real(v, fam, depth + 1)) for k, v in o.items()))
    if isinstance(o, IPersistentSet):
        return ("set", tuple(proj_real(x, fam, depth + 1) for x in o))
    if isinstance(o, ISeq):
        return ("list", tuple(proj_real(x, fam, depth + 1) for x in itertools.islice(o, 50)))
    return ("other", type(o).__name__)


def match_data(want, got, bij):
    """-> None | mismatch class"""
    t = want[0]
    if t == "gsym":
        if got[0] != "sym":
            return "value:gensym:want=symbol:got=%s" % got[0]
        if got[1] != "":
            return "value:gensym:qualified"
        return bij.bind(want[1], got[2])
    if t == "sym":
        if got[0] != "sym":
            return "value:symbol:got=%s" % got[0]
        if got != want:
            return "value:symbol:want=%s:got=%s" % (sym_kind({"q": want[1], "n": want[2]}), sym_kind({"q": got[1], "n": got[2]}))
        return None
    if t == "nilorempty":
        return None if got == ("nil",) or got == ("list", ()) else "value:list-of-empty-splices:got=%s" % got[0]
    if t in ("vec", "list"):
        if got[0] != t:
            return "value:%s:got=%s" % (t + ("[0]" if not want[1] else ""),
                                        got[0] if got[0] in ("nil", "vec", "list", "set", "map") else "other")
        if len(got[1]) != len(want[1]):
            return "value:%s:length:want=%d:got=%d" % (t, len(want[1]), len(got[1]))
        for w, g in zip(want[1], got[1]):
            bad = match_data(w, g, bij)
            if bad:
                return bad
        return None
    if t in ("set", "map"):
        if got[0] != t:
            return "value:%s:got=%s" % (t + ("[0]" if not want[1] else ""), got[0])
        if len(got[1]) != len(want[1]):
            return "value:%s:size:want=%d:got=%d" % (t, len(want[1]), len(got[1]))
        first_bad = None
        for perm in itertools.permutations(range(len(got[1]))):
            b2 = bij.copy()
            bad = None
            for wi, gi in enumerate(perm):
                if t == "set":
                    bad = match_data(want[1][wi], got[1][gi], b2)
                else:
                    bad = match_data(want[1][wi][0], got[1][gi][0], b2) or match_data(want[1][wi][1], got[1][gi][1], b2)
                if bad:
                    break
            if bad is None:
                bij.fwd, bij.bwd = b2.fwd, b2.bwd
                return None
            first_bad = _prefer(first_bad, bad)
        return first_bad
    return None if want == got else "value:constant:want=%s:got=%s" % (want[0], got[0])


def empty_lists_as_nil(c):
    if c == ("list", ()):
        return ("nil",)
    if c[0] in ("vec", "list", "set"):
        return (c[0], tuple(empty_lists_as_nil(x) for x in c[1]))
    if c[0] == "map":
        return ("map", tuple((empty_lists_as_nil(k), empty_lists_as_nil(v)) for k, v in c[1]))
    return c


def has_empty_list_literal(t):
    return t["t"] == "coll" and ((t["c"] == "list" and not t["xs"]) or any(has_empty_list_literal(x) for x in t["xs"]))


# ---- one record ---------------------------------------------------------------------------------------------------
def expr_forms(fam, exprs):
    return {e: fam.cur.read_all(x["txt"])[0] for e, x in exprs.items()}


def check_exprs(fam, exprs):
    """the spec's table of unquoted expressions against real evaluation -> list of mismatches"""
    bad = []
    for e, x in exprs.items():
        try:
            got = proj_real(fam.cur.eval(x["txt"]), fam)
        except Exception as ex:  # noqa
            got = ("exc", type(ex).__name__)
        if match_data(canon_data(x["v"]), got, Bij()):
            bad.append("%s = %s, spec says %s" % (x["txt"], got, canon_data(x["v"])))
    return bad


def gensym_count(t):
    """number of distinct x# names of a template (ids of instance k are (k-1)*count+1 .. k*count)"""
    def names(t):
        if t["t"] == "gs":
            return {t["n"]}
        if t["t"] == "coll":
            return set().union(*[names(x) for x in t["xs"]]) if t["xs"] else set()
        return set()

    def nested(t):
        if t["t"] == "nest":
            return len(names(t["inner"]))
        if t["t"] == "coll":
            return sum(nested(x) for x in t["xs"])
        return 0
    return len(names(t)) + nested(t)


def same_objects(a, b):
    """two evaluation results denote the same Vars' values: vectors elementwise, leaves by identity"""
    from basilisp.lang.interfaces import IPersistentVector
    if isinstance(a, IPersistentVector) and isinstance(b, IPersistentVector):
        return len(a) == len(b) and all(same_objects(x, y) for x, y in zip(a, b))
    return a is b


def run_record(rec, exprs):
    """-> (n evaluations, nontrivial?, discrepancies [(clause, case, expected, observed, sig)], unrecognised count)"""
    fam = family(rec["ns"])
    t = rec["tpl"]
    text1 = "`" + ttext(t, fam, exprs)
    forms, vals = rec["forms"], rec["vals"]
    m = Matcher(fam, exprs, expr_forms(fam, exprs))
    disc = []
    case = {"part": "syntax-quote", "ns": rec["ns"], "tpl": t, "text": text1, "forms": forms, "vals": vals,
            "hyg": rec["hyg"]}
    n = 0
    ng = gensym_count(t)
    bij = Bij(ng)
    # instances 1, 2 in one text (when the template has gensyms), instance 3 from a second read
    texts = ["[%s %s]" % (text1, text1), text1] if len(forms) == 3 else [text1]
    real_forms = []
    try:
        for k, tx in enumerate(texts):
            fs = fam.cur.read_all(tx)
            if len(fs) != 1:
                raise ValueError("read %d forms" % len(fs))
            if k == 0 and len(forms) == 3:
                vecform = fs[0]
                real_forms += list(vecform)
            else:
                real_forms.append(fs[0])
    except Exception as ex:  # noqa
        disc.append(("SyntaxQuote!Expand(read)", case, "readable", "%s: %s" % (type(ex).__name__, str(ex)[:200]),
                     "syntaxquote:read-fails:%s" % type(ex).__name__))
        return 1, False, disc, 0
    n += len(texts)
    unrec = 0
    form_bad = None
    if len(real_forms) != len(forms):
        form_bad = "forms-read:want=%d:got=%d" % (len(forms), len(real_forms))
    else:
        for F, rf in zip(forms, real_forms):
            try:
                form_bad = m.match(F, rf, bij)
            except Unrecognised:
                unrec += 1
                form_bad = None
                bij = Bij(ng)
                break
            if form_bad:
                break
    if form_bad:
        disc.append(("SyntaxQuote!Expand", case, forms[0], boot.core_fn("pr-str")(real_forms[0])[:600],
                     "syntaxquote:form:" + form_bad))
    # evaluation
    vbij = Bij(ng)
    val_bad = None
    for k, rf in enumerate(real_forms[:len(vals)]):
        try:
            got = proj_real(fam.cur.eval_form(rf), fam)
        except Exception as ex:  # noqa
            got = ("exc", type(ex).__name__)
        n += 1
        want = canon_data(vals[k])
        val_bad = match_data(want, got, vbij) if got[0] != "exc" else "value:evaluation-raises:" + got[1]
        if val_bad:
            # one defect, one signature: is the only difference that the literal () came out as nil?
            if has_empty_list_literal(t) and match_data(empty_lists_as_nil(want), got, Bij(ng)) is None:
                val_bad = "value:empty-list-literal:got=nil"
            disc.append(("SyntaxQuote!EvalForm", case, vals[k], str(got)[:600], "syntaxquote:" + val_bad))
            break
    # hygiene: the data is code; evaluated where every name means something else it must reach the same Vars
    if rec["hyg"] and not val_bad:
        try:
            data = fam.cur.eval_form(real_forms[0])
            here = fam.cur.eval_form(data)
            there = fam.foreign.eval_form(data)
            n += 2
            if not same_objects(here, there):
                disc.append(("SyntaxQuote!Resolve(hygiene)", case, str(proj_real(here, fam)), str(proj_real(there, fam)),
                             "syntaxquote:hygiene:expansion-means-something-else-in-another-namespace"))
        except Exception as ex:  # noqa
            disc.append(("SyntaxQuote!Resolve(hygiene)", case, "evaluates", type(ex).__name__ + ": " + str(ex)[:200],
                         "syntaxquote:hygiene:expansion-does-not-evaluate:" + type(ex).__name__))
    nontriv = t["t"] == "coll" or any(rec["ns"].values())
    return n, nontriv, disc, unrec


def run_reject(fam, exprs, t):
    """a splice outside a collection: the reader must refuse"""
    from basilisp.lang import reader
    text = "`" + ttext(t, fam, exprs)
    try:
        fs = fam.cur.read_all(text)
    except reader.SyntaxError:
        return None
    except Exception as ex:  # noqa
        return ("SyntaxQuote!Reject", {"part": "syntax-quote-reject", "tpl": t, "text": text}, "reader SyntaxError",
                type(ex).__name__, "syntaxquote:top-level-splice:raises-" + type(ex).__name__)
    return ("SyntaxQuote!Reject", {"part": "syntax-quote-reject", "tpl": t, "text": text}, "reader SyntaxError",
            boot.core_fn("pr-str")(fs[0])[:300], "syntaxquote:top-level-splice:accepted")
