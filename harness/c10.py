"""C10 -- a name denotes one binding, and reading it sees the value last given to it.

Names.tla (required) / NamesImpl.tla (as built: module globals keyed by the munged name, direct-link rule; named
deviations MungeCollision, StaleRefer) / Names_MC.tla (pool data: the munge table, checked here against the real
basilisp.lang.util.munge) / Names_Gen.tla (history variable, emission).

TLC design check: whole reachable state space per collision class, NamesImpl refines Names with both deviations off;
with a deviation on the refinement is violated and TLC prints a shortest witness.
spec -> code: TLC-generated histories (def / redefinition with flags / in-ns / require :as / refer / alter-var-root)
are replayed as real forms compiled one by one in FRESH namespaces (direct linking and use_var_indirection; thorough:
x inline_functions off), then every spelling of every name (bare, al/n, A/n, B/n, shadowing local, (var n), thread
binding) is compiled and evaluated and compared with the outcomes Names.tla allows.  A read outside the allowed set is
classified by the smallest deviation set under which the as-built model yields exactly the observed outcome (both
expectations are emitted by TLC with every behaviour) -> sig "dev:MungeCollision" etc.
"""
import json
import logging
import multiprocessing as mp
import os
import random
import sys
import types

import boot
import tlc

POOL = int(os.environ.get("VERIF_POOL") or 16)
TLC_WORKERS = int(os.environ.get("VERIF_TLC_WORKERS") or 4)     # per TLC job; TLC_JOBS of them run side by side
TLC_JOBS = int(os.environ.get("VERIF_TLC_JOBS") or 5)
CLASSES = {"ab": ["a-b", "a_b"], "xq": ["x?", "x__Q__"], "print": ["print", "print_"],
           "class": ["class", "class_"], "v": ["v"]}
POOLNAMES = ["a-b", "a_b", "x?", "x__Q__", "print", "print_", "class", "class_", "v"]
SPELL = ["bare", "al", "fqA", "fqB", "loc", "var", "bind", "redef", "fqp"]
UNRES, PRIV, AMB, ANY, ASSERT = -1, -2, -3, -4, -5
DEVSETS = [[], ["MungeCollision"], ["StaleRefer"], ["MungeCollision", "StaleRefer"]]
OPTSETS = {"direct": ({}, "d"), "indirect": ({"use_var_indirection": True}, "i"),
           "direct-noinline": ({"inline_functions": False}, "d"),
           "indirect-noinline": ({"use_var_indirection": True, "inline_functions": False}, "i")}
def def_text(flag, n, v, k):
    """the ways of writing `def`: at top level or inside a function body, of an integer or of a function returning it
    (a function value is called by `encode`) -- "the value most recently given by def" however the def is written"""
    return ["(def %s%s %d)", "((fn [] (def %s%s %d)))", "(defn %s%s [] %d)", "((fn [] (defn %s%s [] %d)))",
            "(def %s%s %d)", "(let [z 0] (def %s%s (fn [] %d)))"][k % 6] % (flag, n, v)


FLAGMETA = {"plain": "", "priv": "^:private ", "dyn": "^:dynamic ", "redef": "^:redef "}


# ---- TLC jobs (run in pool workers: each process has its own TLC meta directory counter) ---------------------------
def _tlc_job(a):
    name, module, cfg, cls, kw = a
    kw = dict(kw)
    env = {"NAMES_CLASS": cls}
    env.update(kw.pop("env", {}))
    try:
        r = tlc.run(module, cfg, env=env, **kw)
    except Exception as e:  # noqa
        return {"name": name, "error": "%s: %s" % (type(e).__name__, str(e)[-1500:])}
    msgs = {}
    tabs, tabix = [], {}
    for line in r.out.splitlines():           # (a line parser: the outputs are large)
        if line.startswith('<<"') and line.endswith('>>'):
            tag, _, rest = line[3:].partition('", ')
            if tag in ("BEH", "WIT", "MUNGE", "HIS"):
                try:
                    m = json.loads(json.loads(rest[:-2]))
                except ValueError:
                    continue
                if tag == "BEH":              # many histories end in the same model state: share the tables
                    key = json.dumps(m["t"], separators=(",", ":"))
                    if key not in tabix:
                        tabix[key] = len(tabs)
                        tabs.append(m["t"])
                    m["t"] = tabix[key]
                msgs.setdefault(tag, []).append(m)
    msgs["TABLES"] = tabs
    return {"name": name, "distinct": r.distinct, "generated": r.generated, "wall": r.wall, "violated": r.violated,
            "ok": r.ok, "msgs": msgs, "trace": r.error_trace()[:1500] if r.violated else ""}


def _as_result(d):
    return types.SimpleNamespace(distinct=d["distinct"], generated=d["generated"], wall=d["wall"])


# ---- the real code ----------------------------------------------------------------------------------------------------
class World:
    """fresh pairs of namespaces and step-by-step evaluation (as boot.Scratch does, one form at a time)"""

    def __init__(self):
        from basilisp.lang import compiler, reader, runtime, symbol as sym
        self.compiler, self.reader, self.rt, self.sym = compiler, reader, runtime, sym
        logging.getLogger("basilisp").setLevel(logging.ERROR)
        self.core = runtime.Namespace.get(sym.symbol("basilisp.core"))
        tmpl = runtime.Namespace.get_or_create(sym.symbol("c10tmpl%d" % os.getpid()))
        tmpl.refer_all(self.core)                     # what the `ns` macro does for every namespace
        self.core_refers = tmpl.refers
        self.n = 0
        self.opts = {k: compiler.compiler_opts(**o) for k, (o, _) in OPTSETS.items()}

    nstep = 0

    def fresh(self, optname):
        self.n += 1
        self.A = "c10a%dx%d" % (os.getpid(), self.n)
        self.B = "c10b%dx%d" % (os.getpid(), self.n)
        for nm in (self.A, self.B):
            ns = self.rt.Namespace.get_or_create(self.sym.symbol(nm))
            try:
                ns._refers = self.core_refers         # == ns.refer_all(core), without re-building the map
            except AttributeError:
                pass
            if ns.refers is not self.core_refers:
                ns.refer_all(self.core)
        self.cur = self.rt.Namespace.get(self.sym.symbol(self.A))
        self.ctx = self.compiler.CompilerContext("<c10>", opts=self.opts[optname])

    def drop(self):
        for nm in (self.A, self.B):
            self.rt.Namespace.remove(self.sym.symbol(nm))
            sys.modules.pop(nm, None)

    def nsname(self, x):
        return self.A if x == "A" else self.B

    def eval(self, text):
        rt = self.rt
        res = None
        with rt.ns_bindings(self.cur.name):
            for form in self.reader.read_str(text, resolver=rt.resolve_alias):
                res = self.compiler.compile_and_exec_form(form, self.ctx, rt.get_current_ns())
            self.cur = rt.get_current_ns()
        return res

    # ---- concretisation ----------------------------------------------------------------------------------------
    def step_text(self, st):
        a, n = st["a"], st["n"]
        other = self.nsname("B" if st["ns"] == "A" else "A")
        if a == "def":
            return def_text(FLAGMETA[st["fl"]], n, st["v"], self.nstep)
        if a == "inns":
            return "(in-ns '%s)" % other
        if a == "req":
            return "(require '[%s :as al])" % other
        if a == "aliasself":
            return "(require '[%s :as al])" % self.nsname(st["ns"])
        if a == "refer":
            return "(refer '%s :only '[%s])" % (other, n)
        if a == "alter":
            return "(alter-var-root (var %s) (constantly %d))" % (n, st["v"])
        raise ValueError(a)

    def read_text(self, n, sp):
        return {"bare": n, "al": "al/" + n, "fqA": "%s/%s" % (self.A, n), "fqB": "%s/%s" % (self.B, n),
                "loc": "(let [%s 99] %s)" % (n, n), "var": "(var %s)" % n,
                "bind": "(binding [%s 77] %s)" % (n, n),
                # the Var is def-ed again (same root, still dynamic) while a thread binding is in effect; this changes
                # the module global, so it is only read at the end of a history (see read_all)
                "fqp": "((fn [%s] %s/%s) 99)" % (n, self.cur.name, n),
                "redef": "(binding [%s 77] (def ^:dynamic %s (.-root (var %s))) %s)" % (n, n, n, n)}[sp]

    def encode(self, v, names):
        """real value -> outcome code of the specification"""
        if isinstance(v, bool):
            return "other:bool"
        if isinstance(v, int):
            return v
        if isinstance(v, self.rt.Var):
            nsn, nm = v.ns.name, v.name.name
            if nsn in (self.A, self.B) and nm in names:
                return 100 * (1 if nsn == self.A else 2) + 10 * (names.index(nm) + 1)
            if nsn == "basilisp.core":
                return AMB
            return "other:var:%s/%s" % (nsn, nm)
        for nm in names:
            cv = self.core.find(self.sym.symbol(nm))
            if cv is not None and cv.value is v:
                return AMB
        if getattr(v, "_basilisp_fn", False) or type(v).__name__ == "function":
            try:                       # a def of a function value (see def_text): the value is what it returns
                r = v()
            except Exception as e:  # noqa
                return "other:fn-raises:" + type(e).__name__
            return r if isinstance(r, int) and not isinstance(r, bool) else "other:fn-returns:" + type(r).__name__
        return "other:" + type(v).__name__

    def observe(self, text, names):
        try:
            return self.encode(self.eval(text), names)
        except self.compiler.CompilerException:
            return "cerr"
        except AssertionError:
            return "assert"          # an internal assertion of the compiler: not a reported compile error
        except Exception as e:  # noqa
            return "exc:" + type(e).__name__


def spec_code(c):
    return "cerr" if c in (UNRES, PRIV) else ("assert" if c == ASSERT else c)


def read_all(w, names, table, mode, per_read, final=False):
    """compile + evaluate every applicable read of the current state; -> list of (name, spelling, allowed, impl, obs)"""
    cells = []
    for k, n in enumerate(names):
        for s, sp in enumerate(SPELL):
            cell = table[k][s][mode]
            if ANY in cell["r"] or (sp == "redef" and not final):
                continue
            cells.append((n, sp, [spec_code(c) for c in cell["r"]], [spec_code(c) for c in cell["i"]]))
    cells.sort(key=lambda c: c[1] == "redef")        # stable: the state-changing reads come after all the others
    out = []
    # (the state-changing reads are not put into the vector: the generator hoists statements of later elements
    #  above the expressions of earlier ones -- the known evaluation-order finding of C02)
    group = [c for c in cells if "cerr" not in c[2] and c[1] != "redef"] if not per_read else []
    got = None
    if group:
        try:
            vec = w.eval("[%s]" % " ".join(w.read_text(n, sp) for n, sp, _, _ in group))
            got = [w.encode(x, names) for x in vec]
        except Exception:  # noqa  -- some member does not compile / evaluate: read them one by one
            got = None
    done = set()
    if got is not None and len(got) == len(group):
        for (n, sp, allowed, impl), o in zip(group, got):
            out.append((n, sp, allowed, impl, o))
            done.add((n, sp))
    for n, sp, allowed, impl in cells:
        if (n, sp) not in done:
            out.append((n, sp, allowed, impl, w.observe(w.read_text(n, sp), names)))
    return out


def classify(allowed, impl, obs):
    """-> None (conforms) | (sig, devs)"""
    if obs in allowed:
        return None
    for d in (1, 2, 3):
        if impl[d] == obs:
            return "dev:" + "+".join(DEVSETS[d]), DEVSETS[d]
    return None, None


def kind_of(code, names=None):
    if code == "assert":
        return "AssertionError"
    if code == "cerr" or code == AMB:
        return "cerr" if code == "cerr" else "core-var"
    if isinstance(code, int):
        if code in (99, 77):
            return "local" if code == 99 else "thread-binding"
        t = code % 10
        return {0: "var", 1: "def-value", 2: "def-value", 5: "altered-root"}.get(t, "int")
    return str(code)


def family_sig(sp, mode, allowed, obs):
    """input class and wrong outcome (for reads no deviation set explains)"""
    how = "same-var" if isinstance(obs, int) and any(isinstance(a, int) and a // 10 == obs // 10 for a in allowed) \
        else "other"
    return "read:%s:%s:allowed=%s:observed=%s%s" % (
        sp, "direct" if mode == "d" else "indirect", "|".join(sorted({kind_of(a) for a in allowed})), kind_of(obs),
        ("(" + how + ")") if isinstance(obs, int) and obs > 0 and obs not in (99, 77) else "")


_W = None


def replay_history(w, names, hist, tables, optname, every_step, per_read=False):
    """tables: {step count -> (cur, table)} for the states to be read.  -> (reads done, discrepancies)"""
    mode = OPTSETS[optname][1]
    w.fresh(optname)
    nreads, bad = 0, []
    try:
        for k in range(len(hist) + 1):
            if k > 0:
                w.nstep = k + len(hist) + sum(ord(c) for c in hist[k - 1]["n"])      # which way of writing def
                text = w.step_text(hist[k - 1])
                try:
                    w.eval(text)
                except Exception as e:  # noqa
                    bad.append(("Names!Step", {"step": k, "text": text.replace(w.A, "A").replace(w.B, "B")},
                                "the step is evaluated", "exc:%s: %s" % (type(e).__name__, str(e)[:120]),
                                "step:%s:exc=%s" % (hist[k - 1]["a"], type(e).__name__)))
                    break
            if k in tables and (every_step or k == len(hist)):
                cur, table = tables[k]
                if w.cur.name != w.nsname(cur):
                    bad.append(("Names!InNs", {"step": k}, cur, w.cur.name, "cur:wrong-namespace"))
                    break
                for n, sp, allowed, impl, obs in read_all(w, names, table, mode, per_read, final=(k == len(hist))):
                    nreads += 1
                    c = classify(allowed, impl, obs)
                    if c is None:
                        continue
                    sig, devs = c
                    if sig is None:
                        sig = family_sig(sp, mode, allowed, obs)
                    bad.append(("Names!Read", {"step": k, "name": n, "spelling": sp, "cur": cur,
                                               "text": w.read_text(n, sp).replace(w.A, "A").replace(w.B, "B"),
                                               "allowed": allowed, "asbuilt": impl}, allowed, obs, sig))
    finally:
        w.drop()
    return nreads, bad


def _replay_job(a):
    global _W
    names, items, optname, every = a
    if _W is None:
        boot.init()
        _W = World()
    out = {"reads": 0, "hist": 0, "nontriv": 0, "bad": []}
    for hist, tables in items:
        tables = {int(k): v for k, v in tables.items()}
        n, bad = replay_history(_W, names, hist, tables, optname, every)
        out["reads"] += n
        out["hist"] += 1
        if len(hist) >= 2 and any(s["a"] == "def" for s in hist):
            out["nontriv"] += 1
        for clause, where, exp, obs, sig in bad:
            out["bad"].append((clause, {"names": names, "hist": hist, "opts": optname, "at": where,
                                        "text": [_W_text(s) for s in hist]}, exp, obs, sig))
    return out


def _W_text(st):
    a, n = st["a"], st["n"]
    o = "B" if st["ns"] == "A" else "A"
    return {"def": "(def %s%s %s)" % (FLAGMETA.get(st["fl"], ""), n, st["v"]), "inns": "(in-ns '%s)" % o,
            "req": "(require '[%s :as al])" % o, "aliasself": "(require '[%s :as al])" % st["ns"], "refer": "(refer '%s :only '[%s])" % (o, n),
            "alter": "(alter-var-root (var %s) (constantly %s))" % (n, st["v"])}[a]


# ---- driver -----------------------------------------------------------------------------------------------------------
def check_pool_data(chk, munge_msg):
    """the munge table / ambient set of Names_MC.tla against the real functions"""
    from basilisp.lang import runtime, symbol as sym
    from basilisp.lang.util import munge
    import builtins
    core = runtime.Namespace.get(sym.symbol("basilisp.core"))
    ok = True
    if sorted(munge_msg["munge"]) != sorted(POOLNAMES):
        chk.machinery("Names_MC.MungeAll does not cover the pool: %s" % sorted(munge_msg["munge"]))
        ok = False
    for n in POOLNAMES:
        if munge_msg["munge"].get(n) != munge(n):
            chk.machinery("Names_MC.MungeAll[%s] = %s but basilisp.lang.util.munge gives %s"
                          % (n, munge_msg["munge"].get(n), munge(n)))
            ok = False
        v = core.find(sym.symbol(n))
        amb = v is not None and not v.is_private
        if amb != (n in munge_msg["ambient"]):
            chk.machinery("Names_MC.AmbientAll is wrong about %s (basilisp.core has a public Var: %s)" % (n, amb))
            ok = False
        if not amb and munge(n, allow_builtins=True) in vars(builtins):
            chk.machinery("pool name %s resolves to a Python builtin when no Var exists" % n)
            ok = False
    # quick / the large thorough job explore one class per MODEL class: the classes must be renamings of each other
    def pattern(cls):
        ns = CLASSES[cls]
        return ([munge(a) == munge(b) for a in ns for b in ns], [munge(a) == a for a in ns],
                [a in munge_msg["ambient"] for a in ns])
    for a, b in (("ab", "xq"), ("print", "class")):
        if pattern(a) != pattern(b):
            chk.machinery("collision classes %s and %s are not renamings of each other" % (a, b))
            ok = False
    return ok


def plan(tier):
    """-> list of (job name, module, cfg, class, kwargs)"""
    q = tier == "quick"
    jobs = []
    w = {"workers": TLC_WORKERS, "timeout": 3000}
    for cls in (["ab", "print", "v"] if q else list(CLASSES)):
        jobs.append(("Names_MCq1[%s]" % cls, "Names_MC", "Names_MCq1.cfg", cls, dict(w)))
        jobs.append(("Names_MCq2[%s]" % cls, "Names_MC", "Names_MCq2.cfg", cls, dict(w)))
    if not q:
        # the large job once per model class: xq is ab and class is print up to renaming (same munge / ambient pattern)
        for cls in ("ab", "print", "v"):
            jobs.append(("Names_MCt[%s]" % cls, "Names_MC", "Names_MCt.cfg", cls, dict(w, workers=max(4, TLC_WORKERS))))
    for cls in (["ab", "print", "v"] if q else list(CLASSES)):
        jobs.append(("Names_DevMunge[%s]" % cls, "Names_Gen", "Names_DevMunge.cfg", cls, {"workers": 1, "timeout": 900}))
    jobs.append(("Names_DevMungeV[ab]", "Names_Gen", "Names_DevMungeV.cfg", "ab", {"workers": 1, "timeout": 900}))
    jobs.append(("Names_DevStale[v]", "Names_Gen", "Names_DevStale.cfg", "v", {"workers": 1, "timeout": 900}))
    for cls in CLASSES:
        jobs.append(("Names_Gen[%s]" % cls, "Names_Gen", "Names_Gen3.cfg" if q else "Names_Gen4.cfg", cls, dict(w)))
    jobs.append(("Names_GenP[v]", "Names_Gen", "Names_GenP.cfg", "v", dict(w)))
    return jobs


def run(chk):
    boot.init()
    chk.rule = ("histories: every TLC-generated history (exhaustive to length 3 quick / 4 thorough per collision class, "
                "privacy histories to length 6, simulation of depth 12 over the whole pool) replayed in fresh "
                "namespaces under each option set; one evaluation = one spelling of one name compiled and evaluated "
                "after a history and compared with Names.tla; non-trivial = history of >= 2 steps containing a def")
    quick = chk.tier == "quick"
    pool = mp.get_context("fork").Pool(POOL)
    tpool = mp.get_context("fork").Pool(TLC_JOBS)
    try:
        jobs = plan(chk.tier)
        seed = chk.seed
        simn = 60 if quick else 400
        jobs.append(("Names_Sim[pool]", "Names_Gen", "Names_Sim.cfg", "pool",
                     {"workers": 1, "timeout": 3000, "simulate": simn, "depth": 14, "seed": seed + 1}))  # 1: reproducible
        results = {}
        for d in tpool.imap_unordered(_tlc_job, jobs, chunksize=1):
            results[d["name"]] = d
        # the simulated histories (whole pool) get their expectations from Names_Follow
        sim = results.get("Names_Sim[pool]", {})
        his = sorted({json.dumps(h, sort_keys=True) for h in sim.get("msgs", {}).get("HIS", [])})
        if "error" not in sim and len(his) < simn // 2:
            chk.machinery("simulation produced only %d histories" % len(his))
        if his:
            stepn = max(1, len(his) // simn)
            chosen = [json.loads(x) for x in his[::stepn][:simn]]
            p = tlc.write_json("names_follow", chosen)
            fj = ("Names_Follow[pool]", "Names_Follow", "Names_Follow.cfg", "pool",
                  {"workers": max(4, TLC_WORKERS), "timeout": 3000, "env": {"TRACE_FILE": p}})
            jobs.append(fj)
            results[fj[0]] = tpool.apply(_tlc_job, (fj,))
            chk.extra["simulated_histories"] = len(chosen)
        munge_msg = None
        for name, _, _, cls, _ in jobs:
            d = results[name]
            if "error" in d:
                chk.machinery("TLC job %s failed: %s" % (name, d["error"]))
                continue
            chk.add_tlc(name, _as_result(d))
            munge_msg = munge_msg or (d["msgs"].get("MUNGE") or [None])[0]
            if name.startswith(("Names_MC", "Names_Gen", "Names_Sim", "Names_Follow")):
                if d["violated"] or not d["ok"]:
                    chk.machinery("%s: NamesImpl (deviations off) does not refine Names / an invariant fails: %s\n%s"
                                  % (name, d["violated"], d["trace"]))
            elif name.startswith("Names_DevMunge"):
                collides = len({munge_msg["munge"][n] for n in CLASSES[cls]}) < len(CLASSES[cls]) if munge_msg else True
                if collides != bool(d["violated"]):
                    chk.machinery("%s: deviation MungeCollision %s" % (
                        name, "is not rejected although munge collides on this class" if collides
                        else "is rejected although munge is injective on this class"))
                for wmsg in d["msgs"].get("WIT", []):
                    chk.extra.setdefault("witnesses", {})[name] = {
                        "history": [_W_text(s) for s in wmsg["h"]], "read": wmsg["sp"] + " " + wmsg["n"],
                        "mode": wmsg["m"], "required": wmsg["req"], "as_built": wmsg["impl"]}
            elif name.startswith("Names_DevStale"):
                if not d["violated"]:
                    chk.machinery("%s: deviation StaleRefer is not rejected" % name)
                for wmsg in d["msgs"].get("WIT", []):
                    chk.extra.setdefault("witnesses", {})[name] = {
                        "history": [_W_text(s) for s in wmsg["h"]], "read": wmsg["sp"] + " " + wmsg["n"],
                        "mode": wmsg["m"], "required": wmsg["req"], "as_built": wmsg["impl"]}
        if munge_msg is None or not check_pool_data(chk, munge_msg):
            if munge_msg is None:
                chk.machinery("no MUNGE table was printed by TLC")
            return
        if chk.machinery_errors:
            return
        # ---- replay ------------------------------------------------------------------------------------------
        optnames = ["direct", "indirect"] if quick else list(OPTSETS)
        work = []
        rnd = random.Random(chk.seed)
        nbeh = {}
        for name, _, _, cls, _ in jobs:
            if not name.startswith(("Names_Gen", "Names_Follow")):
                continue
            names = POOLNAMES if cls == "pool" else CLASSES[cls]
            behs = {}
            tabs = results[name]["msgs"]["TABLES"]
            for b in results[name]["msgs"].get("BEH", []):
                behs[json.dumps(b["h"], sort_keys=True)] = {"h": b["h"], "cur": b["cur"], "t": tabs[b["t"]]}
            chk.extra.setdefault("distinct_model_states", {})[name] = len(tabs)
            nbeh[name] = len(behs)
            items_end, items_every = [], []
            if cls == "pool":
                for key in sorted(behs):
                    b = behs[key]
                    h = b["h"]
                    if len(h) == 0:
                        continue
                    # expectations of every prefix come from the prefix's own line
                    tb = {}
                    for k in range(len(h) + 1):
                        pb = behs.get(json.dumps(h[:k], sort_keys=True))
                        if pb is not None:
                            tb[k] = (pb["cur"], pb["t"])
                    items_every.append((h, tb))
                # replay the maximal histories only (every prefix is read on the way)
                allh = [it[0] for it in items_every]
                pref = set()
                for h in allh:
                    for k in range(len(h)):
                        pref.add(json.dumps(h[:k], sort_keys=True))
                items_every = [it for it in items_every if json.dumps(it[0], sort_keys=True) not in pref]
            else:
                for key in sorted(behs):
                    b = behs[key]
                    h = b["h"]
                    tb = {len(h): (b["cur"], b["t"])}
                    if rnd.random() < 0.05:
                        for k in range(len(h)):
                            pb = behs.get(json.dumps(h[:k], sort_keys=True))
                            if pb is not None:
                                tb[k] = (pb["cur"], pb["t"])
                        items_every.append((h, tb))
                    else:
                        items_end.append((h, tb))
            deep = name.startswith("Names_Gen[") and not quick       # length-4 histories: two option sets only
            for on in optnames:
                for items, every in ((items_end, False), (items_every, True)):
                    if deep and on.endswith("noinline"):
                        items = [it for it in items if len(it[0]) <= 3]
                    B = 150 if cls != "pool" else 8
                    for off in range(0, len(items), B):
                        work.append((names, items[off:off + B], on, every))
        work.sort(key=lambda wk: -len(wk[1]) * (8 if len(wk[0]) > 2 else 1))
        reads = hists = 0
        for out in _results(pool, pool.imap_unordered(_replay_job, work, chunksize=1)):
            reads += out["reads"]
            hists += out["hist"]
            chk.nontriv(n=out["nontriv"])
            for clause, case, exp, obs, sig in out["bad"]:
                chk.discrepancy(clause, case, exp, obs, sig=sig, module="Names_Gen", direction="spec->code")
        chk.count(reads, traces=hists)
    finally:
        pool.terminate()
        tpool.terminate()
    # the first example of every signature: a wrong VALUE before a wrong error, short histories first
    chk.discrepancies.sort(key=lambda d: (d["sig"], not isinstance(d["observed"], int), len(d["case"]["hist"]),
                                          json.dumps(d["case"], sort_keys=True)))
    chk.extra.update({"histories_per_job": nbeh, "history_replays": hists, "option_sets": optnames,
                      "pool": POOLNAMES, "munge": munge_msg["munge"], "ambient": munge_msg["ambient"],
                      "deviation_counts": _count_sigs(chk)})
    chk.sample({"history": [_W_text(s) for s in work[0][1][0][0]], "names": work[0][0]} if work else {})
    chk.exhaustive = True


def _results(pool, it):
    """iterate over pool results, but do not wait forever when a worker process has been killed (multiprocessing
    replaces a dead worker silently and its task is lost)"""
    pids = sorted(p.pid for p in getattr(pool, "_pool", []))
    while True:
        try:
            yield it.next(timeout=120)
        except StopIteration:
            return
        except mp.TimeoutError:
            now = sorted(p.pid for p in getattr(pool, "_pool", []))
            if now != pids:
                raise RuntimeError("a worker process of the replay pool died (killed from outside?): results are "
                                   "incomplete, run the check again")


def _count_sigs(chk):
    c = {}
    for d in chk.discrepancies:
        c[d["sig"]] = c.get(d["sig"], 0) + 1
    return c


def replay(chk, body):
    boot.init()
    case = body["case"]
    w = World()
    names, hist, optname, at = case["names"], case["hist"], case["opts"], case["at"]
    print("history (%s):" % optname)
    for t in case["text"]:
        print("   ", t)
    mode = OPTSETS[optname][1]
    w.fresh(optname)
    chk.count(1, traces=1)
    try:
        upto = at["step"] if "spelling" in at else at["step"] - 1
        for st in hist[:upto]:
            w.eval(w.step_text(st))
        if "spelling" in at:
            obs = w.observe(w.read_text(at["name"], at["spelling"]), names)
            print("read after step %d in namespace %s: %s => %s   (Names.tla allows %s; as built [no dev, MungeCollision, "
                  "StaleRefer, both]: %s)" % (at["step"], at["cur"], at["text"], obs, at["allowed"], at["asbuilt"]))
            c = classify(at["allowed"], at["asbuilt"], obs)
            if c is not None:
                sig = c[0] or family_sig(at["spelling"], mode, at["allowed"], obs)
                chk.discrepancy(body["clause"], case, at["allowed"], obs, sig=sig, module="Names_Gen",
                                direction="replay")
        else:
            try:
                w.eval(w.step_text(hist[at["step"] - 1]))
                print("step evaluates")
            except Exception as e:  # noqa
                print("step fails:", type(e).__name__, e)
                chk.discrepancy(body["clause"], case, body["expected"], "exc:" + type(e).__name__, sig=body.get("sig"),
                                module="Names_Gen", direction="replay")
    finally:
        w.drop()
