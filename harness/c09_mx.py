"""C09, last clause: a form and its macroexpansion evaluate alike.

Corpus: programs of the C01 generator (langgen) placed inside core macros over the documented destructuring
vocabulary (let / loop / fn / letfn / if-let / when-let / doseq / for with vector and map patterns, :or, :as, & rest,
keyword arguments) and the threading / conditional macros.  Each form f is evaluated three ways in one scratch
namespace: f itself, (macroexpand f), and the fixpoint of macroexpand-1; value, exception class and effect log must
agree.  The relation is the property; no model is involved beyond that.
"""
import os
import random

import boot
import langgen as G
import langrun

CTX = {
    "when": "(when (m 91) %s)",
    "when-not": "(when-not (m 91 false) %s)",
    "if-not": "(if-not (m 91) (m 92) %s)",
    "cond": "(cond (m 91 false) 1 (m 92) %s :else (m 93))",
    "->": "(-> %s (vector (m 91)) (conj (m 92)))",
    "->>": "(->> %s (vector (m 91)) (conj [(m 92)]))",
    "as->": "(as-> %s $ (vector $ (m 91)) (conj $ $))",
    "cond->": "(cond-> %s (m 91) (vector (m 92)) (m 93 false) (vector (m 94)))",
    "some->": "(some-> %s vector (conj (m 91)))",
    "and": "(and (m 91) %s (m 92))",
    "or": "(or (m 91 nil) %s (m 92))",
    "case": "(case %s 1 (m 91) nil (m 92) (m 93))",
    "condp": "(condp = %s 1 (m 91) nil (m 92) (m 93))",
    "let-vec": "(let [[a b & r :as all] [%s (m 91) 3 4]] [a b r all])",
    "let-vec-short": "(let [[a [b c :as inner] & r] [%s]] [a b c inner r])",
    "let-map": "(let [{:keys [a b] c \"c\" :or {b 5} :as mm} {:a %s \"c\" (m 91)}] [a b c mm])",
    "let-map-ns": "(let [{:n/keys [a] :syms [b] :strs [c] d :d :or {a 1 c 3 d (m 92 4)}} {:n/a %s 'b (m 91)}] [a b c d])",
    "let-nested": "(let [{[x {:keys [k] :or {k 7}}] :p :as top} {:p [%s {:k (m 91)}]}] [x k top])",
    "let-seq": "(let [z %s [p q] (list z (m 91)) {:keys [u]} (list :u q)] [p q u])",
    "loop-vec": "(loop [[x & xs] [%s (m 91) 3] acc []] (if xs (recur xs (conj acc x)) [acc x]))",
    "loop-map": "(loop [{:keys [n] :as st} {:n 0 :v %s} k 0] (if (< k 2) (recur (assoc st :n (m 91 (inc n))) (inc k)) [n st k]))",
    "fn-vec": "(let [f (fn [[a b] c] [a b c])] (f [%s (m 91)] (m 92)))",
    "fn-kw": "(let [f (fn [a & {:keys [k j] :or {j 9} :as opts}] [a k j opts])] [(f %s :k (m 91)) (f 1 :k 2 {:j (m 92)}) (f 3)])",
    "fn-rest": "(let [f (fn [a & [b c :as more]] [a b c more])] [(f %s) (f 1 (m 91)) (f 1 2 3 4)])",
    "fn-multi": "(let [f (fn ([[a]] [:one a]) ([[a] {:keys [b]}] [:two a b]))] [(f [%s]) (f [(m 91)] {:b (m 92)})])",
    "letfn": "(letfn [(f [[a b]] (if a (g {:v b}) :none)) (g [{:keys [v]}] [v (m 91)])] (f [1 %s]))",
    "if-let": "(if-let [[a] %s] [a (m 91)] (m 92))",
    "when-let": "(when-let [x %s] [x (m 91)])",
    "if-some": "(if-some [x %s] [x (m 91)] (m 92))",
    "when-some": "(when-some [{:keys [q]} %s] [q (m 91)])",
    "when-first": "(when-first [x [%s (m 91)]] [x (m 92)])",
    "doseq": "(doseq [[a b] [[1 %s] [(m 91) 2]] :let [c (m 92 a)] :when c] (m 93 b))",
    "for": "(when true (vec (for [[a b] [[1 %s] [2 (m 91)]] :let [{:keys [k] :or {k 0}} {:k a}]] [a b k (m 92)])))",
    "dotimes": "(dotimes [i 2] (m 91 i) %s)",
    "defn-like": "(let [f (fn self [n [a & r]] (if (and a (< n 3)) (recur (inc n) r) [n a r]))] (f 0 [%s (m 91) 3]))",
    "doto": "(doto %s (vector (m 91)))",
    "comment": "(comment %s (m 91))",
    "lazy": "(when true (vec (lazy-seq [%s (m 91)])))",
}
QUICK_CTX = ["when", "cond", "->", "cond->", "and", "or", "case", "let-vec", "let-vec-short", "let-map", "let-map-ns",
             "let-nested", "let-seq", "loop-vec", "loop-map", "fn-kw", "fn-rest", "fn-multi", "letfn", "if-let",
             "when-some", "doseq", "for"]


def corpus(tier, seed):
    rnd = random.Random(seed + 909)
    progs = []
    for p in G.small_programs(3 if tier == "quick" else 4):
        progs.append(p)
    for t in range(150 if tier == "quick" else 1000):
        progs.append(G.random_program(rnd, rnd.choice([2, 3, 3, 4])))
    names = QUICK_CTX if tier == "quick" else sorted(CTX)
    items = []
    for k, p in enumerate(progs):
        text = G.pr(p)
        if "(def " in text:
            continue
        per = 2 if tier == "quick" else 3
        for j in range(per):
            cn = names[(k * per + j) % len(names)]
            items.append({"ctx": cn, "text": CTX[cn] % text})
    return items


_R = {}


def runner():
    if not _R:
        boot.init()
        from basilisp.lang import runtime, symbol as sym
        sc = boot.Scratch(name="c09.m%d" % os.getpid(), warn_on_unused_names=False, warn_on_shadowed_name=False,
                          warn_on_shadowed_var=False, warn_on_arity_mismatch=False, warn_on_var_indirection=False)
        log = []

        def m(k, *v):
            log.append(k)
            return v[0] if v else k
        runtime.Var.intern(sc.ns, sym.symbol("m"), m)
        _R.update(sc=sc, log=log, rt=runtime, me=boot.core_fn("macroexpand"), me1=boot.core_fn("macroexpand-1"))
    return _R


def evaluate(form_thunk):
    """form_thunk() -> form (may itself raise: macroexpansion);  -> (outcome, projected value | class, log)"""
    r = runner()
    del r["log"][:]
    try:
        form = form_thunk()
    except RecursionError:
        return ("expand-exc", "RecursionError", [])
    except Exception as e:  # noqa
        return ("expand-exc", type(e).__name__, list(r["log"]))
    try:
        v = r["sc"].eval_form(form)
        return ("val", langrun.project(v), list(r["log"]))
    except RecursionError:
        return ("exc", "RecursionError", list(r["log"]))
    except Exception as e:  # noqa
        return ("exc", type(e).__name__, list(r["log"]))


def run_item(item):
    """-> (direct, via macroexpand, via macroexpand-1 fixpoint, steps)"""
    r = runner()
    sc = r["sc"]
    form = sc.read_all(item["text"])[0]
    direct = evaluate(lambda: form)

    def full():
        with r["rt"].ns_bindings(sc.name):
            return r["me"](form)
    steps = [0, None]

    def stepwise():
        f = form
        with r["rt"].ns_bindings(sc.name):
            for k in range(200):
                steps[0], steps[1] = k, f
                g = r["me1"](f)
                if g is f or g == f:
                    steps[1] = None
                    return g
                f = g
        raise RuntimeError("macroexpand-1 does not reach a fixpoint in 200 steps")
    via_me = evaluate(full)
    via_me1 = evaluate(stepwise)
    return direct, via_me, via_me1, steps[0]


def differs(a, b):
    """-> None | which component differs (an exception raised while expanding counts as the exception of the run)"""
    if b[0] == "expand-exc" and not (a[0] in ("exc", "expand-exc") and a[1] == b[1]):
        # the expander itself raises on a form that compiles (or fails otherwise): one class of defect whatever the form
        return "expander-raises:%s:on-a-form-whose-evaluation-does-not" % b[1]
    oa = "exc" if a[0] == "expand-exc" else a[0]
    ob = "exc" if b[0] == "expand-exc" else b[0]
    if oa != ob:
        return "outcome:%s-vs-%s" % (a[0] + ("(" + a[1] + ")" if oa == "exc" else ""), b[0] + ("(" + b[1] + ")" if ob == "exc" else ""))
    if a[1] != b[1]:
        return "exception-class:%s-vs-%s" % (a[1], b[1]) if oa == "exc" else "value"
    if oa == "val" and a[2] != b[2]:
        return "effect-log"
    if oa == "exc" and a[0] == b[0] and a[2] != b[2]:
        return "effect-log-before-exception"
    return None


class _Timeout(BaseException):
    pass


def _alarm(sig, frm):
    raise _Timeout()


def run_chunk(items, limit=300):
    """limit: seconds per item; a corpus program that does not terminate is a harness problem (reported as such,
    never as a violation)"""
    import signal
    out = []
    old = signal.signal(signal.SIGALRM, _alarm)
    for it in items:
        signal.alarm(limit)
        try:
            d, me, me1, steps = run_item(it)
        except _Timeout:
            out.append((it, "harness", "no result within %d s" % limit, None, None, 0))
            continue
        except Exception as e:  # noqa  (the text does not read: a harness problem, not an observation)
            out.append((it, "harness", type(e).__name__ + ": " + str(e)[:200], None, None, 0))
            continue
        finally:
            signal.alarm(0)
        out.append((it, differs(d, me), differs(d, me1), d, (me, me1), steps))
    signal.signal(signal.SIGALRM, old)
    return out
