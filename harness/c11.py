"""C11 -- dynamic bindings are scoped, thread-local and conveyed to futures.

design check:  BindingsImpl.tla (Var._tl.bindings + _THREAD_BINDINGS as built, one primitive per step) in lock step
               with Bindings.tla (required: per-thread cell stacks + frames, establishment one Var at a time in an
               arbitrary order, rollback on failure) -- RestoredOnExit, WellFormed, ImplAgrees, Isolation,
               Conveyance, SetInnermost for 1-2 (3) threads; the model WITHOUT rollback
               (Dev_NoRollbackOnPartialPush = the pinned tree) must be rejected.
spec -> code:  TLC-generated histories (Bindings_Gen: exhaustive to a depth bound, -simulate beyond) of
               push / set! / pop / throw n / spawn (future, bound-fn*, pmap, raw thread) / finish are replayed with
               the real binding macro, with-bindings*, push-/pop-thread-bindings, set!, bound-fn*, future, pmap on
               real dynamic Vars (with validators) and a real non-dynamic Var, each logical thread a real thread
               stepped through queues.  After every step every Var is dereferenced in every live thread and compared
               with the specification's state.  The real map's iteration order is read before each push; the real
               Vars playing a, b, c, n are chosen so that the failing Var comes at every position.
code -> spec:  an execution that disagrees is given to TLC (Bindings_Trace) with the real iteration orders: accepted by
               the as-built mechanism with the named deviation => sig dev:NoRollbackOnPartialPush.
"""
import json
import multiprocessing as mp
import queue
import random
import threading
from concurrent.futures import ThreadPoolExecutor as _TPE

import boot
import tlc

BAD = 9
ROLES = ("a", "b", "c")
NPOOL = 8
TIMEOUT = 60
MAX_HANGS = 2        # per replay process: after that many hangs the remaining histories are skipped (the hangs are reported)
_hangs = [0]
DEV = "NoRollbackOnPartialPush"


class Boom(Exception):
    def __init__(self, n):
        super().__init__("boom")
        self.n = n


class Abort(BaseException):
    pass


class Hang(Exception):
    pass


# ---- the real side ------------------------------------------------------------------------------
class Env:
    """scratch namespace with NPOOL dynamic Vars (root 100+i, validator rejecting BAD) and NPOOL non-dynamic Vars"""

    def __init__(self):
        boot.init()
        self.sc = sc = boot.Scratch()
        self.dyn, self.non = [], []
        for i in range(NPOOL):
            sc.eval("(def ^:dynamic *d%d* %d) (set-validator! (var *d%d*) (fn [x] (not= x %d))) (def n%d %d)"
                    % (i, 100 + i, i, BAD, i, 200 + i))
            self.dyn.append(sc.eval("(var *d%d*)" % i))
            self.non.append(sc.eval("(var n%d)" % i))
        self.name = {v: "*d%d*" % i for i, v in enumerate(self.dyn)}
        self.name.update({v: "n%d" % i for i, v in enumerate(self.non)})
        self.root = {v: 100 + i for i, v in enumerate(self.dyn)}
        self.hash_map = boot.core_fn("hash-map")
        self.with_bindings = boot.core_fn("with-bindings*")
        self.push_tb = boot.core_fn("push-thread-bindings")
        self.pop_tb = boot.core_fn("pop-thread-bindings")
        self.bound_fn = boot.core_fn("bound-fn*")
        self.mk_future = sc.eval("(fn [f] (future (f)))")
        self.mk_pmap = sc.eval("(fn [f] (doall (pmap (fn [_] (f)) [1])))")
        self.pool_var = sc.eval("(var basilisp.core/*executor-pool*)")
        self._cache = {}
        allv = self.dyn + self.non
        self.order = list(self.hash_map(*[x for v in allv for x in (v, 1)]).keys())
        # concretisations: the non-dynamic Var at rank p among the four, a/b/c rotated by r
        self.conc = {}
        for p in range(4):
            for i, nv in enumerate(self.order):
                if nv not in self.non:
                    continue
                before = [v for v in self.order[:i] if v in self.root]
                after = [v for v in self.order[i + 1:] if v in self.root]
                if len(before) >= p and len(after) >= 3 - p:
                    ds = (before[len(before) - p:] if p else []) + after[:3 - p]
                    self.conc[p] = (ds, nv)
                    break

    def roles(self, k):
        """concretisation k: role -> real Var"""
        p = k % 4 if (k % 4) in self.conc else sorted(self.conc)[0]
        ds, nv = self.conc[p]
        r = k % 3
        m = {ROLES[i]: ds[(i + r) % 3] for i in range(3)}
        m["n"] = nv
        return m

    def fn(self, key, text):
        f = self._cache.get(key)
        if f is None:
            f = self._cache[key] = self.sc.eval(text)
        return f

    def observer(self, rv):
        names = [self.name[rv[r]] for r in ROLES]
        return self.fn(("obs",) + tuple(names), "(fn [] [%s])" % " ".join(names))

    def setter(self, var):
        n = self.name[var]
        return self.fn(("set", n), "(fn [x] (set! %s x))" % n)

    def binder(self, vars_):
        names = [self.name[v] for v in vars_]
        body = " ".join("%s (nth vals %d)" % (n, i) for i, n in enumerate(names))
        return self.fn(("bind",) + tuple(names), "(fn [vals f] (binding [%s] (f)))" % body)


_env = None


def env():
    global _env
    if _env is None:
        _env = Env()
    return _env


class Run:
    """one history on real threads"""

    def __init__(self, e, rv, form_seed):
        self.e, self.rv, self.form_seed = e, rv, form_seed
        self.q = {}
        self.reply = queue.Queue()
        self.threads = []
        self.obsf = e.observer(rv)
        self.nform = 0
        self.aborting = False

    # -- runs in the logical thread
    def loop(self, tid, depth):
        e = self.e
        q = self.q[tid]
        while True:
            if self.aborting:      # sticky: an Abort swallowed by a failing exit path (pop raising) is raised again
                raise Abort()
            cmd = q.get()
            op = cmd[0]
            if op == "abort":
                raise Abort()
            if op == "obs":
                try:
                    vals = list(self.obsf())
                except Exception as ex:  # noqa
                    vals = ["error:" + type(ex).__name__] * 3
                self.reply.put(("obs", tid, vals))
            elif op == "push":
                _, fk, vars_, vals = cmd
                entered = [False]

                def body():
                    entered[0] = True
                    self.reply.put(("entered", tid))
                    self.loop(tid, depth + 1)

                try:
                    if fk == 0:
                        e.binder(vars_)(vals, body)
                    elif fk == 1:
                        e.with_bindings(e.hash_map(*[x for p in zip(vars_, vals) for x in p]), body)
                    else:
                        e.push_tb(e.hash_map(*[x for p in zip(vars_, vals) for x in p]))
                        try:
                            body()
                        finally:
                            e.pop_tb()
                    self.reply.put(("left", tid, "normal"))
                except Boom as b:
                    if b.n > 1:
                        b.n -= 1
                        raise
                    self.reply.put(("left", tid, "exc"))
                except Exception as ex:  # noqa
                    if entered[0]:
                        self.reply.put(("error", tid, "form raised %s after its body" % type(ex).__name__))
                    else:
                        self.reply.put(("pushfail", tid, type(ex).__name__))
            elif op == "pop":
                return
            elif op == "throw":
                raise Boom(cmd[1])
            elif op == "set":
                try:
                    e.setter(cmd[1])(cmd[2])
                    self.reply.put(("set", tid, True))
                except Exception:  # noqa
                    self.reply.put(("set", tid, False))
            elif op == "spawn":
                _, kind, c = cmd
                self.q[c] = queue.Queue()
                child = lambda: self.child_main(c)  # noqa
                if kind == "raw":
                    self.start_thread(child)
                elif kind == "boundfn":
                    self.start_thread(e.bound_fn(child))
                elif kind == "future":
                    e.mk_future(child)
                else:
                    e.mk_pmap(child)
                    self.reply.put(("joined", tid))
            elif op == "finish":
                self.reply.put(("finished", tid))
                return

    def child_main(self, c):
        self.reply.put(("started", c))
        try:
            self.loop(c, 0)
        except Abort:
            raise
        except Exception as ex:  # noqa
            self.reply.put(("error", c, "thread died: %s" % type(ex).__name__))

    def start_thread(self, f):
        def top():
            try:
                f()
            except Abort:
                pass
        th = threading.Thread(target=top, daemon=True)
        self.threads.append(th)
        th.start()

    # -- runs in the driver
    def expect(self, *kinds):
        try:
            r = self.reply.get(timeout=TIMEOUT)
        except queue.Empty:
            self.hung = True
            raise Hang("no reply within %ds (expected %s)" % (TIMEOUT, "/".join(kinds)))
        return r

    def execute(self, hist):
        """-> (recorded steps, first mismatch or None)"""
        e, rv = self.e, self.rv
        from basilisp.lang import futures
        pool = futures.ThreadPoolExecutor(max_workers=4)
        old_pool = e.pool_var.root
        e.pool_var.bind_root(pool)
        rec, mismatch = [], None
        waiting = {}          # parent -> child (pmap)
        try:
            self.q[1] = queue.Queue()
            self.start_thread(lambda: self.child_main(1))
            self.expect("started")
            for si, s in enumerate(hist):
                t, act = s["t"], s["act"]
                r = {"t": t, "act": act, "pairs": [], "v": s["v"], "x": s["x"], "n": s["n"], "c": s["c"],
                     "kind": s["kind"], "ok": True, "obs": []}
                note = None
                if act == "push":
                    m = s["m"]
                    roles = sorted(m)
                    vars_ = [rv[x] for x in roles]
                    vals = [m[x] for x in roles]
                    real = list(e.hash_map(*[x for p in zip(vars_, vals) for x in p]).keys())
                    inv = {v: k for k, v in rv.items()}
                    r["pairs"] = [{"v": inv[v], "x": m[inv[v]], "bad": inv[v] == "n" or m[inv[v]] == BAD} for v in real]
                    self.q[t].put(("push", (self.form_seed + si) % 3, vars_, vals))
                    rep = self.expect("entered", "pushfail")
                    r["ok"] = rep[0] == "entered"
                    if rep[0] not in ("entered", "pushfail"):
                        note = rep
                elif act == "set":
                    self.q[t].put(("set", rv[s["v"]], s["x"]))
                    rep = self.expect("set")
                    r["ok"] = bool(rep[2]) if rep[0] == "set" else False
                    if rep[0] != "set":
                        note = rep
                elif act in ("pop", "throw"):
                    self.q[t].put(("pop",) if act == "pop" else ("throw", s["n"]))
                    rep = self.expect("left")
                    if rep[0] != "left" or rep[2] != ("normal" if act == "pop" else "exc"):
                        note = rep
                elif act == "spawn":
                    self.q[t].put(("spawn", s["kind"], s["c"]))
                    rep = self.expect("started")
                    if rep[0] != "started" or rep[1] != s["c"]:
                        note = rep
                    if s["kind"] == "pmap":
                        waiting[t] = s["c"]
                elif act == "finish":
                    self.q[t].put(("finish",))
                    rep = self.expect("finished")
                    if rep[0] != "finished":
                        note = rep
                    for par, ch in list(waiting.items()):
                        if ch == t:
                            rep = self.expect("joined")
                            if rep[0] != "joined":
                                note = rep
                            del waiting[par]
                if note is not None:
                    r["ok"] = False
                    r["note"] = repr(note)
                # every Var in every live thread
                exp_obs = {}
                for u, o in enumerate(s["obs"], start=1):
                    if o["st"] != "live" or note is not None:
                        continue
                    self.q[u].put(("obs",))
                    rep = self.expect("obs")
                    vals = rep[2] if rep[0] == "obs" else ["error:" + repr(rep)] * 3
                    got = {}
                    for role, val in zip(ROLES, vals):
                        got[role] = 0 if val == e.root[rv[role]] else val
                    r["obs"].append({"u": u, "vals": got})
                    exp_obs[u] = o["vals"]
                rec.append(r)
                if note is not None:
                    # the real side did something the protocol has no word for: stop here
                    if mismatch is None:
                        mismatch = {"step": si, "what": "outcome", "expected": s["ok"], "observed": r["note"]}
                    break
                if mismatch is None:
                    if r["ok"] != s["ok"]:
                        mismatch = {"step": si, "what": "outcome", "expected": s["ok"], "observed": r["ok"]}
                    else:
                        for o in r["obs"]:
                            if o["vals"] != exp_obs[o["u"]]:
                                mismatch = {"step": si, "what": "values seen by thread %d" % o["u"],
                                            "expected": exp_obs[o["u"]], "observed": o["vals"]}
                                break
            return rec, mismatch
        finally:
            self.aborting = True
            for qq in list(self.q.values()):
                qq.put(("abort",))
            hung = getattr(self, "hung", False)
            for th in self.threads:
                th.join(timeout=1 if hung else TIMEOUT)
            if hung:        # a stuck worker must not block the whole check: the hang itself is the finding
                pool.shutdown(wait=False, cancel_futures=True)
            else:
                pool.shutdown(wait=True)
            e.pool_var.bind_root(old_pool)


def sensitive(hist):
    return any(s["act"] == "push" and len(s["m"]) >= 2 and not s["ok"] for s in hist) or \
        any(s["act"] == "push" and len(s["m"]) >= 2 and any(k == "n" or v == BAD for k, v in s["m"].items()) for s in hist)


def replay_one(arg):
    idx, hist, k, fs = arg
    if _hangs[0] >= MAX_HANGS:
        return idx, k, fs, None, None
    e = env()
    rv = e.roles(k)
    run = Run(e, rv, fs)
    try:
        rec, mismatch = run.execute(hist)
    except Hang as h:
        _hangs[0] += 1
        return idx, k, fs, None, {"step": -1, "what": "hang", "expected": "every step returns", "observed": str(h)}
    return idx, k, fs, rec, mismatch


def fail_positions(rec):
    out = []
    for r in rec:
        if r["act"] == "push" and len(r["pairs"]) >= 2:
            for i, p in enumerate(r["pairs"]):
                if p["bad"]:
                    out.append("%d/%d" % (i + 1, len(r["pairs"])))
                    break
    return out


# ---- TLC ------------------------------------------------------------------------------------------
MC_JOBS = [("Bindings_MC1.cfg", True, "quick"), ("Bindings_MC2.cfg", True, "quick"), ("Bindings_Dev.cfg", False, "quick"),
           ("Bindings_MC1t.cfg", True, "thorough"), ("Bindings_MC3t.cfg", True, "thorough")]


def design_checks(chk):
    jobs = [j for j in MC_JOBS if j[2] == "quick" or chk.tier == "thorough"]
    ex = _TPE(max_workers=3)

    def one(job):
        try:
            return job, tlc.run("Bindings_MC", job[0], workers=4, timeout=3000), None
        except Exception as e:  # noqa
            return job, None, e
    futs = [ex.submit(one, j) for j in jobs]

    def collect():
        for f in futs:
            (cfg, must_hold, _), r, err = f.result()
            if err is not None:
                chk.machinery("design check %s: %s" % (cfg, str(err)[-1500:]))
                continue
            chk.add_tlc(cfg, r)
            if must_hold and (r.violated or not r.ok):
                chk.machinery("design check %s fails: %s\n%s" % (cfg, r.violated, r.error_trace()[:1500]))
            if not must_hold and "ImplAgrees" not in r.violated:
                chk.machinery("anti-vacuity: the model without rollback (%s) is not rejected" % cfg)
        ex.shutdown()
    return collect


def generate(chk):
    """-> list of histories (exhaustive to the depth bound, then simulated deeper ones)"""
    r = tlc.run("Bindings_Gen", "Bindings_Gen.cfg" if chk.tier == "quick" else "Bindings_GenT.cfg", workers=8,
                timeout=3000, heap="6g")
    chk.add_tlc("Bindings_Gen(exhaustive)", r)
    if r.violated or not r.ok:
        chk.machinery("Bindings_Gen: %s\n%s" % (r.violated, r.error_trace()[:1500]))
    ex = r.tagged("BEH")
    nsim = 400 if chk.tier == "quick" else 4000
    r2 = tlc.run("Bindings_Gen", "Bindings_GenSim.cfg", workers=4, timeout=3000, simulate=nsim, depth=80,
                 seed=chk.seed + 1)
    chk.add_tlc("Bindings_Gen(simulate)", r2)
    if r2.violated:
        chk.machinery("Bindings_Gen(simulate): %s\n%s" % (r2.violated, r2.error_trace()[:1500]))
    sim = sorted({json.dumps(h, sort_keys=True) for h in r2.tagged("BEH")})
    rnd = random.Random(chk.seed)
    cap = 3000 if chk.tier == "quick" else 20000
    if len(sim) > cap:
        sim = rnd.sample(sim, cap)
    uniq = sorted({json.dumps(h, sort_keys=True) for h in ex})
    return [json.loads(h) for h in uniq], [json.loads(h) for h in sim]


def classify(chk, items, direction="spec->code"):
    """items = [(hist, k, rec, mismatch)] that disagree with Bindings.tla -> discrepancies"""
    if not items:
        return {}
    # identical recorded executions are validated once
    keyof, uniq = [], {}
    for (_, _, rec, _) in items:
        if rec is None:
            keyof.append(None)
            continue
        steps = [{kk: vv for kk, vv in r.items() if kk != "note"} for r in rec]
        key = json.dumps(steps, sort_keys=True)
        if key not in uniq:
            uniq[key] = {"id": len(uniq) + 1, "steps": steps}
        keyof.append(uniq[key]["id"])
    acc = set()
    traces = list(uniq.values())
    B = 10000
    for off in range(0, len(traces), B):
        part = [dict(t, id=i + 1) for i, t in enumerate(traces[off:off + B])]
        p = tlc.write_json("bindings_traces_%d" % off, part)
        r = tlc.run("Bindings_Trace", "Bindings_Trace.cfg", env={"TRACE_FILE": p, "DEVS": DEV}, timeout=1800)
        chk.add_tlc("Bindings_Trace[%s:%d..]" % (DEV, off), r)
        acc |= {off + i for i in r.tagged("ACC")}
    per_sig = {}
    for n_item, (hist, k, rec, mm) in enumerate(items):
        case = {"hist": hist, "k": k[0], "fs": k[1]}
        if rec is None:
            chk.discrepancy("Bindings!EveryStepReturns", case, mm["expected"], mm["observed"],
                            sig="case:hang", module="Bindings", direction=direction)
            continue
        s = hist[mm["step"]]
        if keyof[n_item] in acc:
            sig = "dev:" + DEV
            clause = "Bindings!RestoredOnExit"
        else:
            sig = "case:%s/%s" % (s["act"], mm["what"].split(" ")[0])
            clause = {"push": "Bindings!RestoredOnExit", "pop": "Bindings!RestoredOnExit",
                      "throw": "Bindings!RestoredOnExit", "spawn": "Bindings!Conveyance",
                      "set": "Bindings!SetInnermost"}.get(s["act"], "Bindings!Isolation")
        n = per_sig[sig] = per_sig.get(sig, 0) + 1
        if n > 40:
            continue
        why = "after step %d (%s by thread %d): %s: %s" % (mm["step"] + 1, s["act"], s["t"], mm["what"],
                                                            json.dumps(mm["observed"]))
        if sig.startswith("dev:"):
            why += "; the execution is exactly what the as-built mechanism without rollback does (Bindings_Trace)"
        chk.discrepancy(clause, case, {"what": mm["what"], "values": mm["expected"]}, why, sig=sig,
                        module="Bindings_Gen", direction=direction, extra={"execution": rec})
    return per_sig


def run(chk):
    chk.rule = ("history = TLC-generated behaviour of Bindings.tla (push with 1-3 Vars incl. a non-dynamic Var or a "
                "value the validator rejects, set!, pop, throw n, spawn future/bound-fn*/pmap/raw, finish) replayed "
                "on real threads under 1-4 choices of real Vars (failing Var at every position); after every step "
                "every Var is read in every live thread; non-trivial = history with a failed establishment, a "
                "throw, a set! that succeeds, or a second thread")
    e = env()
    if len(e.conc) < 4:
        chk.assumptions.append("only failure positions %s of 4 could be realised with this process's Var addresses"
                               % sorted(e.conc))
    ctx = mp.get_context("fork")
    with ctx.Pool(12) as pool:          # forked before any thread exists in this process
        collect = design_checks(chk)
        exh, sim = generate(chk)
        work = []
        hists = exh + sim
        for i, h in enumerate(hists):
            if not sensitive(h):
                ks = [i % 4]
            elif chk.tier == "quick":
                ks = [i % 4, (i + 2) % 4]      # over all histories every failure position is realised
            else:
                ks = range(4)
            for k in ks:
                work.append((i, h, k, (i + k) % 3))
        results = pool.map(replay_one, work, chunksize=16)
    bad = []
    positions = {}
    for idx, k, fs, rec, mm in results:
        h = hists[idx]
        if rec is not None:
            for fp in fail_positions(rec):
                positions[fp] = positions.get(fp, 0) + 1
        if mm is not None:
            bad.append((h, (k, fs), rec, mm))
        if any((s["act"] == "push" and not s["ok"]) or s["act"] == "throw" or (s["act"] == "set" and s["ok"])
               or s["act"] == "spawn" for s in h):
            chk.nontriv(n=1)
    chk.count(len(results), traces=len(results))
    per_sig = classify(chk, bad)
    collect()
    chk.exhaustive = {"histories_to_depth": len(exh[0]) if exh else 0, "count": len(exh)}
    for h in (exh[len(exh) // 3:len(exh) // 3 + 1] + sim[:2]):
        chk.sample({"history": [{k: v for k, v in s.items() if k != "obs"} for s in h]})
    chk.extra.update({"histories_exhaustive": len(exh), "histories_simulated": len(sim), "replays": len(results),
                      "failing_var_position/map_size_realised": dict(sorted(positions.items())),
                      "disagreeing_replays_by_signature": per_sig})


def replay(chk, body):
    case = body["case"]
    idx, k, fs, rec, mm = replay_one((0, case["hist"], case["k"], case["fs"]))
    chk.count(1, traces=1)
    for r in rec or []:
        print("  ", {kk: vv for kk, vv in r.items()})
    print("mismatch:", mm)
    if mm is not None:
        classify(chk, [(case["hist"], (k, fs), rec, mm)], direction="replay")
