"""C07 -- sequence functions and their transducers agree with each other and the model.

spec -> code.  Xform.tla specifies every listed function twice (declarative reference on sequences; transducer
machine Step/Flush) and a process (Pull / StepThrough / Complete).  TLC checks, for every pipeline and input of a
configuration, machine = composition of references (also for runs that stop early, whatever the input would still
have held), completion exactly once after the last pull, no pull after `reduced`, single stages pull no more than
they need -- and prints one line per (pipeline, input): expected result, MinPulls, the stage that ends the run,
and what the as-built deviations named in the specification would produce instead.

Every case is executed on the real basilisp.core through six application forms -- the lazy-seq arities composed
directly, (into [] xf coll), (transduce xf conj coll), (sequence xf coll), (into [] (eduction xf coll)),
(reduce conj [] (eduction xf1 xf2 .. coll)); pipelines of more than one stage go through `comp` -- over a counting
lazy input (pulls), over a plain vector, and with transparent probe transducers above, between and below the
stages (init/step/complete calls).  Compared: the result (= TLC's), pulls <= MinPulls + Slack, completion seen
exactly once by the first transducer and by the reducing function, no step after `reduced`/completion, no
exception.  Infinite inputs are cycles under a pull budget.  (Per case: 5 probed + 6 plain + 3 vector-input
executions; depth 2 of the quick tier: 5 probed + lazy form twice.  core's `eduction` function itself is called for
every 10th case, otherwise the harness builds the Eduction it returns -- see c07_rt.make_eduction.)

TLC jobs (specs/Xform_<name>.cfg; q = quick, t = thorough):
  MC            design check, single stages x inputs <= 3: all invariants incl. NeedMore (minimality), Terminal
  Neg*          negative configurations: a machine without flush / drop-while that re-tests / take that signals one
                element late must be REJECTED by TLC (anti-vacuity)
  G1q/G1t       depth 1 x all inputs <= 4 / 5      G2q/G2t   depth 2 x all inputs <= 2 / 3   (exhaustive, prefix tree)
  S3q/S3t       depth 3, seeded sample of (pipeline, input <= 4 / 5)
  L2q, L1t..L3t longer inputs (6..9 / 6..10), seeded sample
  I2q I3q, I1t..I3t  infinite inputs: a cycle of 1..3 elements, only runs that stop early; executed under a pull budget

A mismatch is named by its cause, never guessed: the as-built prediction of TLC that reproduces the observed
result (deviation names), or what the probes saw (which stage swallowed `reduced`, called rf after `reduced`,
did not pass completion on; which application form completed 0 or n times), else the failing case itself.
"""
import collections
import itertools
import json
import multiprocessing
import os
import zlib

import tlc
import verdict

MODULE = "Xform"

# generation jobs per tier (specs/Xform_<name>.cfg)
GEN = {
    "quick": ["G1q", "G2q", "S3q", "L2q", "I2q", "I3q"],
    "thorough": ["G1t", "G2t", "S3t", "L1t", "L2t", "L3t", "I1t", "I2t", "I3t"],
}
LEAN = {"G2q": ("lazy",)}     # quick tier, depth 2: the transducer forms run probed only (not a second time without probes)
NEG = {"NegNoFlush": "FinalAgrees", "NegDropWhile": "FinalAgrees", "NegLateTake": "NeedMore"}

# as-built deviation of Xform.tla -> signature of the defect it models
DEV_SIG = {
    "DedupeFalseyHead": "dedupe:falsey-first-element-ends-seq",
    "DistinctConflatesBoolInt": "distinct:false-0-and-true-1-conflated",
    "VecEqConflatesBoolInt": "equality:false-0-conflated-inside-collections",
}
NO_COMPLETION = "CompletionNeverRuns"       # named by what the probes saw of the form: "eduction:never-completes", ...
SITE = {"mapcat": "cat"}          # core's mapcat transducer is (comp (map f) cat): the site of its reduce is cat

_RT = None


def _rt(voc):
    global _RT
    if _RT is None or _RT.voc is not voc and _RT.voc != voc:
        import c07_rt
        _RT = c07_rt.RT(voc)
    return _RT


# ---------------------------------------------------------------------------------------------------------------
# judging one case
# ---------------------------------------------------------------------------------------------------------------
def _opname(st):
    return SITE.get(st["op"], st["op"])


def _label(stages):
    return " ".join("%s(%s)" % (s["op"], s["f"] if s["f"] != "-" else s["n"]) if s["op"] not in ("distinct", "dedupe", "cat")
                    else s["op"] for s in stages)


def localize(log, nstages):
    """what the probes saw outside completion (events: i init, s step, r step returned reduced, c/x completion
    entered/left).  -> dict(swallow=k|None: stage k was handed `reduced` by the probe below it and the probe above
    it never saw it; after=k|None: stage k called rf again within the same step; top_r = index of the first step of
    the top probe that returned reduced | None; top_steps)"""
    ev = []
    depth = 0
    for k, e in log:                        # drop everything that happens inside a completion call of the top probe
        if k == 0 and e == "c":
            depth += 1
        elif k == 0 and e == "x":
            depth -= 1
        elif depth == 0:
            ev.append((k, e))
    swallow = after = None
    for i, (k, e) in enumerate(ev):
        if e != "r" or k == 0:
            continue
        what = "swallow"
        for k2, e2 in ev[i + 1:]:
            if k2 == k and e2 == "s":
                what = "after"
                break
            if k2 == k - 1:
                what = "ok" if e2 == "r" else "swallow"
                break
        if what == "swallow" and swallow is None:
            swallow = k
        if what == "after" and after is None:
            after = k
    # a stage that ORIGINATED `reduced` (the probe below it had not returned it) and later -- when the completion of a
    # stage above hands it more -- passes elements on again
    zombie, origin = None, set()
    for i, (k, e) in enumerate(log):
        if e == "r" and (i == 0 or log[i - 1] != (k + 1, "r")):
            origin.add(k + 1)
        elif e == "s" and k in origin and zombie is None:
            zombie = k
    top_r, steps = None, 0
    for k, e in ev:
        if k == 0 and e == "s":
            steps += 1
        elif k == 0 and e == "r" and top_r is None:
            top_r = steps
    return {"swallow": swallow, "after": after, "zombie": zombie, "top_r": top_r, "top_steps": steps}


def signals_late(log, k, need):
    """stage k (which ends the run in the specification after being handed `need` elements): was it handed that
    many and did it let `reduced` come back only later, or never?"""
    n = 0
    for k2, e in log:
        if k2 == k - 1 and e == "s":
            n += 1
        elif k2 == k - 1 and e == "r":
            return n > need
    return n >= need


def judge(rt, stages, row, inp, cyclic, forms, quickset, real=True, plain=None):
    """execute one (pipeline, input) through the application forms; -> (n executions, stats, findings)
    finding = dict(clause, sig, exe=dict(form, kind, probed), expected, observed).
    Every transducer form runs probed over the counting input; `plain`: the forms that also run unprobed over it
    (default all); `quickset`: the forms that also run over a plain vector."""
    import c07_rt
    exp_out, minp, slack = row["out"], row["minp"], rt.slack
    bound = minp + slack
    budget = bound + 8 if cyclic else len(inp) + 1
    has_flush = any(s["op"] in rt.flush_ops for s in stages)
    findings, stats, n = [], collections.Counter(), 0
    twins = {}

    def add(clause, sig, exe, expected, observed):
        findings.append({"clause": clause, "sig": sig, "exe": exe, "expected": expected, "observed": observed})

    def case_sig(form, what):
        return "case:%s:%s:%s:%s" % (what, form, _label(stages), verdict.canon(inp) + ("*" if cyclic else ""))

    def protocol_sig(form, o):
        """completion / step protocol as seen by the probes -> (clause, sig, expected, observed) or None"""
        log = o["log"]
        cc = collections.Counter(k for k, ev in log if ev == "c")
        top_c = cc.get(0, 0)
        # documented: "If coll is empty, return init without calling f" (transduce, and into built on it);
        # no listed transducer emits anything on completion of an empty input, so this is not observable
        # in the elements and the property's "completion exactly once" is read as applying to non-empty inputs
        if form in ("into", "transduce") and not inp and not cc:
            return None
        if top_c != 1:
            if form == "sequence" and top_c > 1:
                sig = "sequence:completes-on-every-step"
            elif form.startswith("eduction") and top_c == 0:
                sig = "eduction:never-completes"
            elif form in ("into", "transduce") and top_c == 0 and not inp:
                sig = "transduce:empty-input-skips-completion"
            else:
                sig = "%s:completes-%d-times%s" % (form, top_c, "" if inp else "-on-empty-input")
            return "Xform!Complete(exactly once)", sig, 1, top_c
        seen_c = seen_r = False
        for k, ev in log:
            if k != 0:
                continue
            if ev == "s" and seen_c:
                return "Xform!Quiescent", "%s:steps-after-completion" % form, "no step after completion", "step"
            if ev == "s" and seen_r:
                return "Xform!NoPullAfterReduced", "%s:steps-after-reduced" % form, "no step after reduced", "step"
            seen_c |= ev == "c"
            seen_r |= ev == "r"
        for k in range(1, len(stages) + 1):
            if cc.get(k, 0) != 1:
                return ("Xform!Complete(reaches rf once)", "%s:passes-completion-on-%d-times" % (_opname(stages[k - 1]), cc.get(k, 0)),
                        1, cc.get(k, 0))
        return None

    def run(form, kind, probed):
        nonlocal n
        o = rt.execute(stages, inp, form, kind=kind, cyclic=cyclic, probed=probed, budget=budget, real=real)
        n += 1
        return o

    for form in forms:
        if form != "lazy":
            twins[form] = run(form, "lazy", True)
    plan = [(f, "lazy", False) for f in forms if plain is None or f in plain or f == "lazy"]
    if not cyclic:
        plan += [(f, "vec", False) for f in forms if f in quickset and (plain is None or f in plain)]
    results = [((f, "lazy", True), twins[f]) for f in forms if f != "lazy"]
    results += [(p, run(*p)) for p in plan]

    twin_proto, twin_many = {}, {}
    for form, tw in twins.items():
        # a form that runs completion 0 or n times: with a stage whose completion has effects, everything else that
        # form shows (result, consumption) is a consequence.  (A run cut short by an exception proves only "n times".)
        pr = protocol_sig(form, tw)
        if pr and (pr[0] != "Xform!Complete(exactly once)" or (tw["exc"] and pr[3] <= 1)):
            pr = None
        twin_proto[form] = pr[1] if pr and has_flush else None
        twin_many[form] = pr[1] if pr and has_flush and pr[3] > 1 else None      # over-consumption: only "n times" explains it

    for (form, kind, probed), o in results:
        exe = {"form": form, "kind": kind, "probed": probed}
        tw = twins.get(form)
        loc = localize(tw["log"], len(stages)) if tw is not None and tw["log"] is not None else None
        over = o["over"] or o["exc"] == "Budget"
        # -- protocol first: it explains results -------------------------------------------------------------
        proto = protocol_sig(form, o) if probed and not o["exc"] else None
        if proto:
            add(proto[0], proto[1], exe, proto[2], proto[3])
        # -- exceptions -----------------------------------------------------------------------------------------
        if o["exc"] and not over:
            if loc and loc["after"]:
                sig = "%s:calls-rf-after-reduced" % _opname(stages[loc["after"] - 1])
            elif loc and loc["swallow"]:
                sig = "%s:ignores-reduced" % _opname(stages[loc["swallow"] - 1])
            else:
                sig = case_sig(form, "exception")
            add("Xform!FinalAgrees(no exception)", sig, exe, exp_out, "exception " + o["exc"])
            continue
        # -- result ---------------------------------------------------------------------------------------------
        if not over and o["out"] != exp_out:
            fc = c07_rt.FORM_CLASS[form]
            # TLC's as-built predictions: admissible are those that agree with what the probes saw of completion
            tw_pr = protocol_sig(form, tw) if tw is not None and not tw["exc"] else None
            no_compl = bool(tw_pr and tw_pr[0] == "Xform!Complete(exactly once)" and tw_pr[3] == 0)
            # (a prediction without completion is out when completion was seen; when it was not seen, and the pipeline
            # has something to flush, predictions without completion come first)
            alts = sorted((a for a in row["alts"] if a["fc"] == fc and a["out"] == o["out"]
                           and (no_compl or NO_COMPLETION not in a["devs"])),
                          key=lambda a: ((NO_COMPLETION in a["devs"]) != (no_compl and has_flush), len(a["devs"]), sorted(a["devs"])))
            if alts:                     # one finding per deviation of the smallest explanation
                for d in sorted(alts[0]["devs"]):
                    add("Xform!FinalAgrees", tw_pr[1] if d == NO_COMPLETION else DEV_SIG[d], exe, exp_out, o["out"])
                continue
            elif loc and loc["after"]:
                sig = "%s:calls-rf-after-reduced" % _opname(stages[loc["after"] - 1])
            elif loc and loc["swallow"]:
                sig = "%s:ignores-reduced" % _opname(stages[loc["swallow"] - 1])
            elif loc and loc["zombie"]:
                sig = "%s:passes-elements-on-after-signalling-reduced" % _opname(stages[loc["zombie"] - 1])
            elif twin_proto.get(form):
                sig = twin_proto[form]
            else:
                sig = case_sig(form, "result")
            add("Xform!FinalAgrees", sig, exe, exp_out, o["out"])
            continue
        # -- consumption ----------------------------------------------------------------------------------------
        if o["pulls"] is not None:
            if over or o["pulls"] > bound:
                fc = c07_rt.FORM_CLASS[form]
                tw_pr = protocol_sig(form, tw) if tw is not None and not tw["exc"] else None
                no_compl = bool(tw_pr and tw_pr[0] == "Xform!Complete(exactly once)" and tw_pr[3] == 0)
                alts = sorted((a for a in row["alts"] if a["fc"] == fc and a["out"] == o["out"] and not over
                               and o["pulls"] <= a.get("minp", -1) + slack and (no_compl or NO_COMPLETION not in a["devs"])),
                              key=lambda a: (len(a["devs"]), sorted(a["devs"])))
                if alts and any(d != NO_COMPLETION for d in alts[0]["devs"]):
                    # same result, but the as-built model (TLC) consumes this much: e.g. a conflating distinct that skips
                    # the element that would have ended the run
                    for d in sorted(alts[0]["devs"]):
                        if d != NO_COMPLETION:
                            add("Xform!MinPulls+Slack", DEV_SIG[d], exe, {"minpulls": minp, "slack": slack}, {"pulls": o["pulls"]})
                    continue
                if loc and loc["swallow"]:
                    sig = "%s:ignores-reduced" % _opname(stages[loc["swallow"] - 1])
                elif loc and loc["after"]:
                    sig = "%s:calls-rf-after-reduced" % _opname(stages[loc["after"] - 1])
                elif twin_many.get(form):
                    sig = twin_many[form]
                elif loc and (loc["top_r"] is None or loc["top_r"] > minp) and row["red"] and row.get("steps") \
                        and signals_late(tw["log"], row["redby"], row["steps"][row["redby"] - 1]):
                    sig = "%s:signals-reduced-late" % _opname(stages[row["redby"] - 1])
                elif loc:
                    sig = "%s:consumes-input-beyond-reduced" % form
                elif form == "lazy" and row.get("stepsc"):
                    # which lazy-seq arity asked its input for more than the machine's stage is handed?  the last one
                    lv = rt.lazy_levels(stages, inp, cyclic, budget)
                    bad = [j for j in range(len(stages)) if lv[j] > row["stepsc"][j]]
                    sig = "%s:lazy-arity-consumes-ahead" % _opname(stages[bad[-1]]) if bad else case_sig(form, "overpull")
                else:
                    sig = case_sig(form, "overpull")
                add("Xform!MinPulls+Slack", sig, exe, {"minpulls": minp, "slack": slack},
                    {"pulls": ("> %d (budget)" % budget) if over else o["pulls"]})
            elif o["pulls"] > minp:
                stats["within_slack"] += 1
            else:
                stats["within_minpulls"] += 1
    return n, stats, findings


# ---------------------------------------------------------------------------------------------------------------
# pool worker
# ---------------------------------------------------------------------------------------------------------------
def run_chunk(args):
    voc, cases, forms, quickset = args[:4]
    plain = args[4] if len(args) > 4 else None
    rt = _rt(voc)
    total, stats = 0, collections.Counter()
    bysig = {}
    nontriv = 0
    for row, inp, cyclic in cases:
        stages = rt.pipeline(row["pi"])
        # core's `eduction` function itself is called for every 10th case (chosen by content); see c07_rt.make_eduction
        real = zlib.crc32(json.dumps([row["pi"], inp]).encode()) % 10 == 0
        n, st, fs = judge(rt, stages, row, inp, cyclic, forms, quickset, real, plain)
        total += n
        stats.update(st)
        if len(inp) >= 2 and (row["red"] or row["out"] != inp or any(x in ("n", "f") for x in inp)):
            nontriv += 1
        for f in fs:
            key = (f["clause"], f["sig"])
            slot = bysig.setdefault(key, {"n": 0, "ex": []})
            slot["n"] += 1
            if len(slot["ex"]) < 2:
                f["case"] = {"stages": stages, "inp": inp, "cyclic": cyclic, "exe": f.pop("exe"), "real_eduction": real,
                             "row": {k: row.get(k) for k in ("out", "minp", "red", "redby", "alts", "steps", "stepsc")}}
                slot["ex"].append(f)
    return total, len(cases), nontriv, stats, bysig


class JobResult:
    """what a TLC job leaves behind (picklable; the raw output of a generation job can be > 100 MB)"""

    def __init__(self, r):
        self.distinct, self.generated, self.wall = r.distinct, r.generated, r.wall
        self.violated, self.ok = r.violated, r.ok
        self.voc, self.rows = r.tagged("VOC"), r.tagged("TAB")
        self.trace = r.error_trace()[:1500]

    def error_trace(self):
        return self.trace


def tlc_job(name, seed, workers):
    try:
        return name, JobResult(tlc.run(MODULE, "Xform_%s.cfg" % name, workers=workers, seed=seed, stack="256m",
                                       timeout=3000 if name.endswith("q") or name == "MC" or name in NEG else 20000))
    except tlc.TLCError as e:
        return name, "Xform_%s: %s" % (name, e)


def expand(row, voc):
    """the inputs one TLC line stands for: itself, and -- for a run that stopped early -- every continuation of
    the consumed prefix up to the length TLC checked (ReducedSound)"""
    if row["ext"] == -1:
        return [(row, row["inp"], True)]
    out = [(row, row["inp"], False)]
    if row["ext"] > 0:
        first = voc["stages"][row["pi"][0] - 1]["op"]
        uni = voc["vu"] if first == "cat" else voc["u"]
        for k in range(1, row["ext"] + 1):
            for t in itertools.product(uni, repeat=k):
                out.append((row, row["inp"] + list(t), False))
    return out


# ---------------------------------------------------------------------------------------------------------------
def run(chk):
    tier = chk.tier
    nproc = int(os.environ.get("C07_PROCS") or 16)
    tworkers = int(os.environ.get("C07_TLC_WORKERS") or 6)           # for the exhaustive jobs; the small ones get 2
    chk.rule = ("one case = (pipeline of 1..3 stages out of TLC's 55-stage vocabulary, input); executed through 6 application "
                "forms x {counting lazy input, vector input, probed}; non-trivial = input of >= 2 elements whose run "
                "ends early, or changes the sequence, or contains nil/false")
    ctx = multiprocessing.get_context("fork")
    pool = ctx.Pool(nproc)
    tpool = ctx.Pool(int(os.environ.get("C07_TLC_PAR") or 5))      # TLC jobs run in their own processes (tlc.run is not re-entrant)
    forms = ("lazy", "into", "transduce", "sequence", "eduction", "eduction-reduce")
    quickset = ("lazy", "into", "eduction")
    seeds = {name: chk.seed * 1000 + i for i, name in enumerate(sorted(set(GEN["quick"] + GEN["thorough"])))}
    pending = collections.deque()
    totals = collections.Counter()
    stats = collections.Counter()
    bysig = {}
    percfg = {}
    voc = None
    ok = True
    def collect(p):
        n, ncases, nontriv, st, bs = p.get()
        totals["exec"] += n
        totals["cases"] += ncases
        totals["nontriv"] += nontriv
        stats.update(st)
        for key, slot in bs.items():
            s2 = bysig.setdefault(key, {"n": 0, "ex": []})
            s2["n"] += slot["n"]
            s2["ex"] += slot["ex"][:max(0, 3 - len(s2["ex"]))]

    gen = (os.environ.get("C07_JOBS") or ",".join(GEN[tier])).split(",")        # C07_JOBS: subset, for debugging only
    order = gen[:2] + ["MC"] + list(NEG) + gen[2:]                             # the two big jobs first
    futs = [tpool.apply_async(tlc_job, (n, seeds.get(n), tworkers if n[0] == "G" or n.endswith("t") else 2)) for n in order]
    for fu in futs:
        name, r = fu.get()
        if isinstance(r, str):
            chk.machinery(r[:1500])
            ok = False
            continue
        chk.add_tlc("Xform_" + name, r)
        if name in NEG:
            if NEG[name] not in r.violated:
                chk.machinery("negative configuration Xform_%s: TLC did not reject the mutant machine (%s)" % (name, r.violated))
            continue
        if r.violated or not r.ok:
            chk.machinery("Xform_%s: the specification's own invariants fail: %s\n%s" % (name, r.violated, r.error_trace()[:1500]))
            ok = False
            continue
        if name == "MC":
            continue
        v, rows = r.voc, r.rows
        if not v or not rows:
            chk.machinery("Xform_%s printed no cases" % name)
            ok = False
            continue
        if voc is None:
            voc = v[0]
        elif v[0] != voc:
            chk.machinery("Xform_%s: vocabulary differs between jobs" % name)
        seen = set()
        cases = []
        for row in rows:
            key = (tuple(row["pi"]), json.dumps(row["inp"]), row["ext"])
            if key in seen:
                continue
            seen.add(key)
            cases += expand(row, voc)
        cases.sort(key=lambda c: c[0]["pi"])        # one pipeline's cases together: its composition is built once
        percfg[name] = {"lines": len(seen), "cases": len(cases),
                        "stop_early": sum(1 for row, _, _ in cases if row["red"]),
                        "with_as_built_prediction": sum(1 for row, _, _ in cases if row["alts"])}
        if len(chk.samples) < 6:
            pick = next((c for c in cases if c[0]["red"] and len(c[1]) >= 2), cases[0])
            chk.sample({"job": name, "pipeline": _label([voc["stages"][i - 1] for i in pick[0]["pi"]]),
                        "input": pick[1], "cyclic": pick[2], "expected": pick[0]["out"], "minpulls": pick[0]["minp"]})
        size = 250
        for off in range(0, len(cases), size):
            pending.append(pool.apply_async(run_chunk, ((voc, cases[off:off + size], forms, quickset, LEAN.get(name)),)))
            if len(pending) > 6 * nproc:              # bounded backlog: results are folded in as they arrive
                collect(pending.popleft())
    while pending:
        collect(pending.popleft())
    pool.close()
    tpool.close()
    chk.count(totals["exec"], traces=totals["exec"])
    chk.nontriv(n=totals["nontriv"])
    chk.extra["cases"] = totals["cases"]
    chk.extra["per_config"] = percfg
    chk.extra["pulls"] = {"within_minpulls": stats["within_minpulls"], "within_slack": stats["within_slack"]}
    fam = collections.Counter()                  # executions per (clause, signature); "case:" signatures by kind and form
    for (clause, sig), v in bysig.items():
        fam["%s | %s" % (clause, ":".join(sig.split(":")[:3]) + ":<case>" if sig.startswith("case:") else sig)] += v["n"]
    chk.extra["discrepancy_counts"] = dict(sorted(fam.items()))
    chk.exhaustive = ok
    # anti-vacuity: the case set really contains what the clauses talk about
    if ok and voc is not None:
        allc = percfg.values()
        if not any(c["stop_early"] for c in allc) or not any(c["with_as_built_prediction"] for c in allc):
            chk.machinery("vacuous case set: no run that stops early / no as-built prediction")
        if stats["within_minpulls"] == 0:
            chk.machinery("vacuous: no execution had its pulls counted")
    ncase = 0
    for (clause, sig), slot in sorted(bysig.items()):
        if sig.startswith("case:"):
            ncase += 1
            if ncase > 40:
                continue
        for f in slot["ex"][:1 if sig.startswith("case:") else 2]:
            chk.discrepancy(clause, f["case"], f["expected"], f["observed"], sig=sig, module=MODULE,
                            direction="spec->code", extra={"occurrences": slot["n"]})


def replay(chk, body):
    import c07_rt
    case = body["case"]
    stages = case["stages"]
    voc = {"stages": stages, "slack": 1, "flush": ["partall", "partby"], "u": [], "vu": []}
    rt = c07_rt.RT(voc)
    row = dict(case["row"], pi=list(range(1, len(stages) + 1)))
    exe = case["exe"]
    real = case.get("real_eduction", True)
    print("pipeline:", _label(stages), " input:", case["inp"], "(cycled for ever)" if case["cyclic"] else "",
          " form:", exe["form"], " input kind:", exe["kind"], " probed:", exe["probed"])
    o = rt.execute(stages, case["inp"], exe["form"], kind=exe["kind"], cyclic=case["cyclic"], probed=exe["probed"],
                   budget=(row["minp"] + 9) if case["cyclic"] else len(case["inp"]) + 1, real=real)
    print("expected result:", row["out"], " MinPulls:", row["minp"], "(+ slack 1)")
    print("observed result:", o["out"], " exception:", o["exc"], " pulls:", o["pulls"])
    if o["log"] is not None:
        print("probe log (probe index, i/s/r/c/x):", o["log"][:80])
    forms = (exe["form"],)
    n, st, fs = judge(rt, stages, row, case["inp"], case["cyclic"], forms, forms if exe["kind"] == "vec" else (), real)
    chk.count(n, traces=n)
    for f in fs:
        if f["exe"] == exe and f["clause"] == body["clause"]:
            chk.discrepancy(f["clause"], case, f["expected"], f["observed"], sig=f["sig"], module=MODULE, direction="replay")
