"""Deterministic scheduler for real Python threads.

Logical threads are real threads; exactly one holds the baton.  Yield points are
  * every 'line' trace event in a frame selected by `targets` (file suffix -> None | set of co_names),
  * every operation on a cooperative Lock/RLock/Condition (monkey-patched into `threading`),
  * explicit sched.point() calls in harness-supplied callbacks.
A schedule is the list of choices (index into the sorted list of enabled thread ids) taken at the yield
points where more than one continuation exists.  explore() enumerates schedules depth-first with a
pre-emption bound.  Blocking is cooperative, so "no thread enabled" is a detected deadlock and a thread
exceeding its step budget is detected non-termination.

Line events are used only as pre-emption points, never to recognise semantic events.
"""
import _thread
import sys
import threading

_REAL_RLOCK = threading.RLock
_REAL_LOCK = threading.Lock
_REAL_COND = threading.Condition

CUR = None  # the active Sched (one at a time per process)


class StepLimit(BaseException):
    pass


class Killed(BaseException):
    pass


class Sched:
    def __init__(self, targets, choices=None, max_steps=4000, rng=None):
        self.targets = [(k, v) for k, v in targets.items()]
        self.choices = list(choices or [])
        self.rng = rng                # random scheduling beyond the prescribed prefix (None: no pre-emption)
        self.trace = []               # (enabled tids, idx, chosen_tid, cur_tid, cur_enabled)
        self.threads = {}
        self.cur = None
        self.max_steps = max_steps
        self.steps = {}
        self.main_lock = _thread.allocate_lock()
        self.main_lock.acquire()
        self.failed = None            # None | "deadlock" | "steplimit:<tid>"
        self.events = []              # harness event log (appended under the baton)
        self.dead = False
        self.clock = 0                # virtual time: advanced only by a timed wait that is chosen to expire

    # ---- event log ---------------------------------------------------------------------------
    def log(self, **ev):
        ev["t"] = self.cur
        ev["seq"] = len(self.events) + 1
        self.events.append(ev)

    # ---- threads -----------------------------------------------------------------------------
    def spawn(self, tid, fn):
        st = {"tid": tid, "fn": fn, "lock": _thread.allocate_lock(), "done": False, "blocked": None,
              "timed": False, "fired": False, "exc": None, "started": False}
        st["lock"].acquire()
        self.threads[tid] = st
        self.steps[tid] = 0

        def run():
            st["lock"].acquire()
            if self.dead:
                st["done"] = True
                return
            st["started"] = True
            sys.settrace(self._tracer)
            try:
                fn()
            except (StepLimit, Killed):
                pass
            except BaseException as e:  # noqa
                st["exc"] = e
            finally:
                sys.settrace(None)
                st["done"] = True
                if not self.dead:
                    self._handoff()

        # the carrier thread itself needs the real primitives (Thread.start waits on an Event), also when
        # spawn is called inside `with patched()` or from a running logical thread
        saved = (threading.RLock, threading.Lock, threading.Condition)
        threading.RLock, threading.Lock, threading.Condition = _REAL_RLOCK, _REAL_LOCK, _REAL_COND
        try:
            th = threading.Thread(target=run, daemon=True)
            st["th"] = th
            th.start()
        finally:
            threading.RLock, threading.Lock, threading.Condition = saved

    def _tracer(self, frame, event, arg):
        code = frame.f_code
        fn = code.co_filename
        for suffix, names in self.targets:
            if fn.endswith(suffix) and (names is None or code.co_name in names):
                return self._local
        return None

    def _local(self, frame, event, arg):
        if event == "line":
            self.point()
        return self._local

    def enabled(self):
        out = []
        for t, s in sorted(self.threads.items()):
            if s["done"]:
                continue
            if s["blocked"] is None or s["blocked"]() or s["timed"]:
                out.append(t)
        return out

    def _pick(self, cur_tid):
        en = self.enabled()
        if not en:
            return None
        if len(en) == 1:
            return en[0]
        k = len(self.trace)
        if k < len(self.choices):
            idx = self.choices[k]
            if idx >= len(en):
                idx = 0
        elif self.rng is not None:
            idx = self.rng.randrange(len(en)) if self.rng.random() < 0.25 or cur_tid not in en else en.index(cur_tid)
        else:
            idx = en.index(cur_tid) if cur_tid in en else 0
        self.trace.append((tuple(en), idx, en[idx], cur_tid, cur_tid in en))
        return en[idx]

    def point(self):
        """a yield point of the running thread"""
        if self.dead:
            raise Killed()
        me = self.cur
        st = self.threads[me]
        self.steps[me] += 1
        if self.steps[me] > self.max_steps:
            self.failed = "steplimit:%s" % me
            self._abort()
            raise StepLimit()
        nxt = self._pick(me)
        if nxt != me:
            self._switch_to(nxt, st)

    def _switch_to(self, nxt, st):
        self.cur = nxt
        self.threads[nxt]["lock"].release()
        st["lock"].acquire()
        if self.dead:
            raise Killed()

    def block_until(self, pred, timed=False):
        """Park the running thread until pred() holds.  timed: the scheduler may instead choose to let the
        wait expire (virtual time); returns True if pred held, False if it expired."""
        st = self.threads[self.cur]
        while True:
            if pred():
                st["blocked"] = None
                st["timed"] = False
                return True
            st["blocked"] = pred
            st["timed"] = timed
            nxt = self._pick(None)
            if nxt is None:
                self.failed = "deadlock"
                self._abort()
                raise Killed()
            if nxt == st["tid"]:
                if pred():
                    continue
                # chosen although the condition does not hold: the timed wait expires
                st["blocked"] = None
                st["timed"] = False
                self.clock += 1
                return False
            self._switch_to(nxt, st)

    def _handoff(self):
        nxt = self._pick(None)
        if nxt is None:
            if not all(s["done"] for s in self.threads.values()):
                self.failed = "deadlock"
                self._abort()
                return
            self.main_lock.release()
            return
        self.cur = nxt
        self.threads[nxt]["lock"].release()

    def _abort(self):
        """stop the execution: wake every parked thread so that it unwinds with Killed"""
        self.dead = True
        for s in self.threads.values():
            if not s["done"] and s["tid"] != self.cur:
                try:
                    s["lock"].release()
                except RuntimeError:
                    pass
        try:
            self.main_lock.release()
        except RuntimeError:
            pass

    def run(self):
        global CUR
        CUR = self
        try:
            first = self._pick(None)
            self.cur = first
            self.threads[first]["lock"].release()
            self.main_lock.acquire()
        finally:
            CUR = None
        for s in self.threads.values():
            s["th"].join(timeout=5)
        return self.failed

    def preemptions(self):
        return sum(1 for (n, idx, tid, cur, cen) in self.trace if cen and tid != cur)


class PlanSched(Sched):
    """Replays a prescribed interleaving given at the granularity of observable events: plan = list of
    (tid, kind, n) meaning "run thread tid until it has logged its n-th event of that kind".  Used to
    replay TLC-generated behaviours (spec -> code)."""

    def __init__(self, targets, plan, max_steps=4000, on_boundary=None):
        super().__init__(targets, max_steps=max_steps)
        self.plan = list(plan)
        self.pi = 0
        self.on_boundary = on_boundary

    def _count(self, tid, kind):
        return sum(1 for e in self.events if e["t"] == tid and _kind(e) == kind)

    def _pick(self, cur_tid):
        en = self.enabled()
        if not en:
            return None
        while self.pi < len(self.plan):
            t, kind, n = self.plan[self.pi]
            if self._count(t, kind) >= n:
                if self.on_boundary:
                    self.on_boundary(self.pi)
                self.pi += 1
            else:
                break
        if self.pi >= len(self.plan):
            return cur_tid if cur_tid in en else en[0]
        t = self.plan[self.pi][0]
        if t not in en:
            self.failed = "plan-infeasible: step %d wants thread %s, enabled %s" % (self.pi, t, en)
            self._abort()
            if cur_tid is not None:
                raise Killed()
            return None
        return t


def _kind(e):
    return e["k"] + ":" + e["op"] if e["k"] == "lock" else e["k"]


# ---- cooperative synchronisation primitives ---------------------------------------------------
class CoopRLock:
    """threading.RLock replacement: cooperative when a Sched is active, trivial otherwise."""

    def __init__(self):
        self.owner = None
        self.count = 0
        self._real = _REAL_RLOCK()

    def acquire(self, blocking=True, timeout=-1):
        s = CUR
        if s is None or s.cur is None:
            return self._real.acquire(blocking, timeout)
        me = s.cur
        s.point()
        if self.owner == me:
            self.count += 1
            return True
        if not blocking:
            if self.owner is not None:
                return False
        else:
            s.block_until(lambda: self.owner is None)
        self.owner = me
        self.count = 1
        s.log(k="lock", op="acq", lock=id(self))
        return True

    def release(self):
        s = CUR
        if s is None or s.cur is None:
            return self._real.release()
        if self.owner != s.cur:
            raise RuntimeError("cannot release un-acquired lock")
        self.count -= 1
        if self.count == 0:
            self.owner = None
            s.log(k="lock", op="rel", lock=id(self))

    __enter__ = acquire

    def __exit__(self, *a):
        self.release()

    def _is_owned(self):
        s = CUR
        if s is None or s.cur is None:
            return self._real._is_owned()
        return self.owner == s.cur


class CoopLock(CoopRLock):
    def __init__(self):
        super().__init__()
        self._real = _REAL_LOCK()

    def acquire(self, blocking=True, timeout=-1):
        s = CUR
        if s is None or s.cur is None:
            return self._real.acquire(blocking, timeout)
        s.point()
        if not blocking:
            if self.owner is not None:
                return False
        else:
            s.block_until(lambda: self.owner is None)
        self.owner = s.cur
        self.count = 1
        return True

    def release(self):
        s = CUR
        if s is None or s.cur is None:
            return self._real.release()
        self.owner = None
        self.count = 0

    def locked(self):
        return self.owner is not None


class CoopCondition:
    def __init__(self, lock=None):
        self._lock = lock if lock is not None else CoopRLock()
        self.gen = 0
        self.waiters = 0
        self.acquire = self._lock.acquire
        self.release = self._lock.release

    def __enter__(self):
        return self._lock.__enter__()

    def __exit__(self, *a):
        return self._lock.__exit__(*a)

    def wait(self, timeout=None):
        s = CUR
        if s is None or s.cur is None:
            raise RuntimeError("CoopCondition.wait outside the scheduler")
        lk = self._lock
        saved = lk.count
        lk.count = 0
        lk.owner = None
        s.log(k="lock", op="rel", lock=id(lk))
        g = self.gen
        notified = s.block_until(lambda: self.gen != g, timed=timeout is not None)
        s.block_until(lambda: lk.owner is None)
        lk.owner = s.cur
        lk.count = saved
        s.log(k="lock", op="acq", lock=id(lk))
        return notified

    def wait_for(self, predicate, timeout=None):
        result = predicate()
        expired = False
        while not result and not expired:
            if not self.wait(timeout):
                expired = True
            result = predicate()
        return result

    def notify(self, n=1):
        self.gen += 1

    def notify_all(self):
        self.gen += 1

    notifyAll = notify_all


class patched:
    """with patched(): threading.Lock/RLock/Condition are the cooperative versions (objects created
    inside keep working, trivially, outside a schedule)."""

    def __enter__(self):
        self._saved = (threading.RLock, threading.Lock, threading.Condition)
        threading.RLock = CoopRLock
        threading.Lock = CoopLock
        threading.Condition = CoopCondition
        return self

    def __exit__(self, *a):
        threading.RLock, threading.Lock, threading.Condition = self._saved


# ---- cooperative stand-in for the futures executor --------------------------------------------
def install_executor(sched, first_tid=9):
    """Replace concurrent.futures.ThreadPoolExecutor.submit (the method basilisp's executor wraps) so that
    every submitted work item becomes a *logical thread* of `sched` (tids first_tid, first_tid+1, ...) that
    does what concurrent.futures.thread._WorkItem.run does on a real concurrent.futures.Future (whose
    Condition is the cooperative one).  Works before sched.run() and from running logical threads.
    Returns uninstall()."""
    from concurrent.futures import _base
    from concurrent.futures import thread as _cfthread
    orig = _cfthread.ThreadPoolExecutor.submit
    counter = [first_tid]

    def submit(self, fn, /, *args, **kwargs):
        with patched():
            f = _base.Future()
        tid = counter[0]
        counter[0] += 1

        def work():
            if not f.set_running_or_notify_cancel():
                return
            try:
                result = fn(*args, **kwargs)
            except (StepLimit, Killed):
                raise
            except BaseException as exc:  # noqa
                f.set_exception(exc)
            else:
                f.set_result(result)

        sched.spawn(tid, work)
        return f

    _cfthread.ThreadPoolExecutor.submit = submit

    def uninstall():
        _cfthread.ThreadPoolExecutor.submit = orig
    return uninstall


def explore(make, targets, max_preempt=2, limit=100000, max_steps=4000, on_result=None, seed=0):
    """Enumeration of schedules by increasing number of pre-emptions (all schedules with 0, then 1, ...
    up to max_preempt).  When `limit` cuts the enumeration short the remaining budget is spent on a seeded
    random sample of the pending schedules instead of a corner of the tree.
    make(sched) spawns the threads and returns a finish() closure that is called after the execution and
    whose result is passed to on_result(sched, result).  Returns (executions, exhaustive?)."""
    import random
    rnd = random.Random(seed)
    buckets = {0: [[]]}
    n = 0
    while n < limit:
        lv = min((k for k, b in buckets.items() if b), default=None)
        if lv is None:
            break
        b = buckets[lv]
        i = rnd.randrange(len(b))
        b[i], b[-1] = b[-1], b[i]
        choices = b.pop()
        s = Sched(targets, choices, max_steps=max_steps)
        finish = make(s)
        s.run()
        n += 1
        res = finish() if finish else None
        if on_result:
            on_result(s, res)
        tr = s.trace
        pre = 0
        pres = []
        for (en, idx, tid, cur, cen) in tr:
            pres.append(pre)
            if cen and tid != cur:
                pre += 1
        for k in range(len(choices), len(tr)):
            en, idx, tid, cur, cen = tr[k]
            for alt in range(len(en)):
                if alt == idx:
                    continue
                p = pres[k] + (1 if cen and en[alt] != cur else 0)
                if p > max_preempt:
                    continue
                buckets.setdefault(p, []).append([t[1] for t in tr[:k]] + [alt])
    return n, not any(buckets.values())


def run_one(make, targets, choices=None, rng=None, max_steps=4000):
    s = Sched(targets, choices, max_steps=max_steps, rng=rng)
    finish = make(s)
    s.run()
    return s, (finish() if finish else None)
