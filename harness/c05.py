"""C05 -- equality is an equivalence that hashing and lookup respect.

design check:  EqHash.tla: a universe of abstract values with a representation each (vector / list / cons / lazy
               seq / queue / map entry / range; int / float / ratio / decimal; map / record; sets; nil; booleans;
               NaN) and Canon(v), the class of v as the property defines it.  TLC checks on EVERY triple that Eq is
               reflexive (not for NaN), symmetric, transitive, that sequential values are equal exactly when their
               elements are, that a boolean never equals a number.  EqHashImpl.tla is equality / hashing / lookup as
               built; with its three named deviations off it refines EqHash, with any one on it is rejected.
spec -> code:  (1) every ordered pair of the universe: real `=` must be Eq, and `hash` must agree whenever Eq;
               every value is built afresh in its representation for every comparison.
               (2) the lookup machine: the tree of histories of assoc / dissoc on a real map and conj / disj on a
               real set (exhaustive to depth 2, random to length 12), keys chosen by representation; after every
               step get / contains? of EVERY key (fresh objects), the counts and (distinct <keys used so far>)
               must be what the class-keyed model says.  The real maps/sets are persistent, so a node extends the
               objects of its parent.
classification: a mismatch is named dev:<Deviations> only when the as-built model with exactly those deviations
               predicts exactly the observation (tables / node records computed by TLC).
"""
import decimal
import fractions
import json
import math
import os
import threading

import boot
import tlc

DEVS = {"S": "BoolIsIntInSequences", "K": "BoolIsIntInHashedCollections", "H": "HashByRepresentation"}
# combinations of deviations, smallest first: an observation is named after the first one that predicts it exactly
DEVORDER = ["S", "K", "H", "SK", "SH", "KH", "SKH"]
DEVNAME = {m: "dev:" + "+".join(DEVS[c] for c in m) for m in DEVORDER}

_R = {}


def real():
    if _R:
        return _R
    boot.init()
    s = boot.Scratch("verif.c05")
    s.eval("(defrecord R [a]) (defrecord Q [a])")
    from basilisp.lang import keyword as kw, symbol as sym, vector as vec, list as llist, queue as lqueue, \
        map as lmap, set as lset
    for n in ["=", "hash", "get", "contains?", "assoc", "dissoc", "conj", "disj", "count", "distinct", "cons",
              "map", "identity", "range", "seq", "hash-map", "hash-set"]:
        _R[n] = boot.core_fn(n)
    _R.update(kw=kw, sym=sym, vec=vec, list=llist, queue=lqueue, lmap=lmap, lset=lset)
    _R["rec"] = {"rec:R": s.eval("map->R"), "rec:Q": s.eval("map->Q")}
    return _R


def conc(v):
    """abstract value record -> a FRESH real value in the stated representation"""
    R = real()
    k = v["k"]
    if k == "nil":
        return None
    if k == "bool":
        return bool(v["b"])
    if k == "nan":
        return float("nan")
    if k == "num":
        r, n, d = v["r"], v["n"], v["d"]
        if r == "int":
            assert d == 1
            return n
        if r == "float":
            return n / d
        if r == "nfloat":
            return -0.0
        if r == "ratio":
            return fractions.Fraction(n, d)
        if r == "dec":
            return decimal.Decimal(n) / decimal.Decimal(d)
    if k == "str":
        return "".join(v["s"])           # a fresh str object where CPython allows
    if k == "kw":
        return R["kw"].keyword(v["s"])
    if k == "sym":
        return R["sym"].symbol(v["s"])
    if k == "seq":
        xs = [conc(x) for x in v["xs"]]
        r = v["r"]
        if r == "vector":
            return R["vec"].vector(xs)
        if r == "list":
            return R["list"].list(xs)
        if r == "queue":
            return R["queue"].queue(xs)
        if r == "entry":
            assert len(xs) == 2
            return R["vec"].MapEntry.of(xs[0], xs[1])
        if r == "lazy":
            return R["map"](R["identity"], R["vec"].vector(xs))
        if r == "cons":
            assert xs
            return R["cons"](xs[0], R["list"].list(xs[1:]) if len(xs) > 1 else None)
        if r == "range":
            assert xs and all(isinstance(x, int) and not isinstance(x, bool) for x in xs) \
                and xs == list(range(xs[0], xs[0] + len(xs)))
            return R["range"](xs[0], xs[0] + len(xs))
    if k == "map":
        m = R["lmap"].EMPTY
        for e in v["es"]:
            m = R["assoc"](m, conc(e[0]), conc(e[1]))
        if v["r"] == "pmap":
            return m
        return R["rec"][v["r"]](m)
    if k == "set":
        s = R["lset"].EMPTY
        for x in v["xs"]:
            s = R["conj"](s, conc(x))
        return s
    raise ValueError(v)


def describe(v):
    """a short readable form of an abstract value (for signatures and samples)"""
    k = v["k"]
    if k in ("nil", "nan"):
        return k
    if k == "bool":
        return "true" if v["b"] else "false"
    if k == "num":
        return "%s:%s%s" % (v["r"], v["n"], "" if v["d"] == 1 else "/%d" % v["d"])
    if k in ("str", "kw", "sym"):
        return {"str": '"%s"', "kw": ":%s", "sym": "'%s"}[k] % v["s"]
    if k == "seq":
        return "%s(%s)" % (v["r"], " ".join(describe(x) for x in v["xs"]))
    if k == "map":
        return "%s{%s}" % ("" if v["r"] == "pmap" else v["r"], ", ".join(describe(e[0]) + " " + describe(e[1]) for e in v["es"]))
    return "#{%s}" % " ".join(describe(x) for x in v["xs"])


def shape(v):
    """the class of inputs a value belongs to: kind/representation, with what it contains"""
    k = v["k"]
    if k == "seq":
        inner = sorted({shape(x) for x in v["xs"]})
        return "%s[%s]" % (v["r"], ",".join(inner))
    if k == "set":
        return "set[%s]" % ",".join(sorted({shape(x) for x in v["xs"]}))
    if k == "map":
        return "%s[%s]" % ("map" if v["r"] == "pmap" else "record", ",".join(sorted({shape(e[0]) + "->" + shape(e[1]) for e in v["es"]})))
    if k == "num":
        return v["r"]
    return k


def _call(f, *a):
    try:
        return f(*a)
    except Exception as e:  # noqa
        return "raises " + type(e).__name__


# ------------------------------------------------------------------------------------------------
# (1) pairs
# ------------------------------------------------------------------------------------------------
def check_pairs(rows):
    """-> (mismatches, number of comparisons, non-trivial pairs)"""
    R = real()
    by = {r["i"]: r for r in rows}
    n = len(by)
    mism = []
    cnt = 0
    nontriv = set()
    for i in range(1, n + 1):
        ri = by[i]
        for j in range(1, n + 1):
            rj = by[j]
            x, y = conc(ri["v"]), conc(rj["v"])
            exp = ri["eq"][j - 1] == 1
            got = _call(R["="], x, y)
            cnt += 1
            if i != j and (exp or shape(ri["v"]).split("[")[0] != shape(rj["v"]).split("[")[0]):
                nontriv.add((min(i, j), max(i, j)))
            if got is not exp:
                ex = None
                for mo in DEVORDER:
                    if (ri["dev"][mo][j - 1] == 1) is got:
                        ex = mo
                        break
                mism.append({"kind": "eq", "i": i, "j": j, "a": ri["v"], "b": rj["v"], "expected": exp, "observed": got,
                             "explained": ex})
            if exp:
                # fresh objects again: hashing a lazy seq realises it
                hx, hy = _call(R["hash"], conc(ri["v"])), _call(R["hash"], conc(rj["v"]))
                cnt += 1
                if hx != hy or isinstance(hx, str):
                    ex = "H" if ri["hsH"][j - 1] == 0 and not isinstance(hx, str) and not isinstance(hy, str) else None
                    mism.append({"kind": "hash", "i": i, "j": j, "a": ri["v"], "b": rj["v"], "expected": "equal hashes",
                                 "observed": "different hashes" if not isinstance(hx, str) and not isinstance(hy, str)
                                 else [str(hx)[:30], str(hy)[:30]], "explained": ex})
    return mism, cnt, len(nontriv)


# ------------------------------------------------------------------------------------------------
# (2) lookup histories
# ------------------------------------------------------------------------------------------------
_KEYS = None      # list of abstract key values (position p-1)
_BY = None        # path tuple -> node
_KIDS = None


def observe(m, s, used_objs):
    R = real()
    get, has = [], []
    for kv in _KEYS:
        g = _call(R["get"], m, conc(kv))
        get.append(0 if g is None else g)
        h = _call(R["contains?"], s, conc(kv))
        has.append(1 if h is True else 0 if h is False else h)
    d = _call(R["distinct"], R["vec"].vector(used_objs))
    if isinstance(d, str):
        dist = d
    else:
        ids = {id(o): n + 1 for n, o in reversed(list(enumerate(used_objs)))}
        dist = sorted(ids.get(id(o), -1) for o in (d or ()))
    return {"get": get, "has": has, "nm": _call(R["count"], m), "ns": _call(R["count"], s), "dist": dist}


def _norm(o):
    return {"get": list(o["get"]), "has": list(o["has"]), "nm": o["nm"], "ns": o["ns"], "dist": sorted(o["dist"])}


def _compare(node, obs, path, mism):
    req = _norm(node["req"])
    if obs == req:
        return
    devs = node["dev"] if isinstance(node["dev"], dict) else {}
    ex = None
    for mo in DEVORDER:
        if obs == _norm(devs.get(mo, node["req"])):
            ex = mo
            break
    field = next(f for f in ("get", "has", "nm", "ns", "dist") if obs[f] != req[f])
    det = None
    if field in ("get", "has"):
        p = next(q for q in range(len(req[field])) if obs[field][q] != req[field][q])
        det = {"probe": _KEYS[p], "expected": req[field][p], "observed": obs[field][p]}
    mism.append({"kind": "lookup", "path": [list(a) for a in path], "field": field, "detail": det,
                 "expected": req[field], "observed": obs[field], "explained": ex})


def _walk_subtree(first):
    """replay the subtree below the child `first` of the root (prefix sharing: a node extends the real map / set
    of its parent, which are persistent values)"""
    R = real()
    mism = []
    nodes = 0
    stack = [((), R["lmap"].EMPTY, R["lset"].EMPTY, [])]
    while stack:
        p, m, s, used = stack.pop()
        for cp in (_KIDS.get(p, []) if p else [first]):
            op, kp = cp[-1]
            key = conc(_KEYS[kp - 1])
            m2, s2 = m, s
            if op == "assoc":
                m2 = _call(R["assoc"], m, key, len(cp))
            elif op == "dissoc":
                m2 = _call(R["dissoc"], m, key)
            elif op == "conj":
                s2 = _call(R["conj"], s, key)
            else:
                s2 = _call(R["disj"], s, key)
            nodes += 1
            if isinstance(m2, str) or isinstance(s2, str):
                mism.append({"kind": "lookup", "path": [list(a) for a in cp], "field": "op", "detail": None,
                             "expected": "ok", "observed": m2 if isinstance(m2, str) else s2, "explained": None})
                continue
            used2 = used + [key]
            _compare(_BY[cp], observe(m2, s2, used2), cp, mism)
            stack.append((cp, m2, s2, used2))
    plain = json.loads(json.dumps(mism[:300], default=lambda o: "<%s>" % type(o).__name__))   # results cross processes
    return plain, nodes, len(mism)


def replay_lookup(nodes, keys, procs):
    global _KEYS, _BY, _KIDS
    import multiprocessing as mp
    _KEYS = keys
    _BY = {tuple(tuple(a) for a in n["p"]): n for n in nodes}
    _KIDS = {}
    for p in _BY:
        if p:
            _KIDS.setdefault(p[:-1], []).append(p)
    for v in _KIDS.values():
        v.sort()
    firsts = _KIDS.get((), [])
    mism, cnt, total = [], 0, 0
    if procs > 1 and len(firsts) > 1:
        pool = mp.get_context("fork").Pool(min(procs, len(firsts)))
        res = pool.map(_walk_subtree, firsts, chunksize=1)
        pool.close()
        pool.join()
    else:
        res = [_walk_subtree(f) for f in firsts]
    for m, n, t in res:
        mism.extend(m)
        cnt += n
        total += t
    return mism, cnt, total


# ------------------------------------------------------------------------------------------------
def signature(m):
    if m.get("explained"):
        return DEVNAME[m["explained"]]
    if m["kind"] == "eq":
        return "eq:%s=%s:expected=%s:observed=%s" % (shape(m["a"]), shape(m["b"]), m["expected"], m["observed"])
    if m["kind"] == "hash":
        return "hash:%s~%s:equal values:%s" % (shape(m["a"]), shape(m["b"]),
                                              m["observed"] if isinstance(m["observed"], str) else "hash raises")
    d = m.get("detail")
    if d:
        return "lookup:%s:after=%s:probe=%s:expected=%s:observed=%s" % (
            m["field"], m["path"][-1][0], shape(d["probe"]), "found" if d["expected"] else "absent",
            "found" if d["observed"] not in (0, None) and not isinstance(d["observed"], str) else
            d["observed"] if isinstance(d["observed"], str) else "absent")
    return "lookup:%s:after=%s:expected=%s:observed=%s" % (m["field"], m["path"][-1][0], m["expected"], m["observed"])


def _tlc_jobs(jobs, par):
    res = {}
    sem = threading.Semaphore(par)

    def one(name, kw):
        with sem:
            try:
                res[name] = tlc.run(**kw)
            except Exception as e:  # noqa
                res[name] = e
    ths = [threading.Thread(target=one, args=(n, kw)) for n, kw in jobs.items()]
    for t in ths:
        t.start()
    for t in ths:
        t.join()
    return res


def run(chk):
    quick = chk.tier == "quick"
    procs = int(os.environ.get("VERIF_PROCS") or 16)
    real()
    chk.rule = ("pairs: every ordered pair of the universe (real = against Eq; hash whenever Eq), each value built "
                "afresh in its representation; non-trivial = a pair that is Eq with different representation, or of "
                "different kinds/representations at all.  lookup: every node of the history tree / random history; "
                "non-trivial = every node (each asks every key in every representation)")
    sfx = "" if quick else "t"
    nsim = 40 if quick else 400
    jobs = {
        "T": dict(module="EqHash_U", cfg="EqHash_T%s.cfg" % sfx, workers=6, timeout=3000),
        "NegBoolSeq": dict(module="EqHash_U", cfg="EqHash_NegBoolSeq.cfg", workers=2, timeout=3000),
        "NegBoolKey": dict(module="EqHash_U", cfg="EqHash_NegBoolKey.cfg", workers=2, timeout=3000),
        "NegHash": dict(module="EqHash_U", cfg="EqHash_NegHash.cfg", workers=2, timeout=3000),
        "L2": dict(module="EqHash_U", cfg="EqHash_L2%s.cfg" % sfx, workers=4, timeout=3000),
        "LS": dict(module="EqHash_U", cfg="EqHash_LS%s.cfg" % sfx, workers=2, simulate=(nsim + 1) // 2, depth=25,
                   seed=chk.seed + 5, timeout=3000),
    }
    res = _tlc_jobs(jobs, max(1, min(5, procs // 3)))
    for name, r in res.items():
        if isinstance(r, Exception):
            chk.machinery("%s: %s" % (name, str(r)[:600]))
            return
        chk.add_tlc("EqHash_" + name, r)
    for name in ("T", "L2", "LS"):
        if res[name].violated or not res[name].ok:
            chk.machinery("EqHash_%s: the specification breaks its own laws: %s" % (name, res[name].violated))
    for name, inv in (("NegBoolSeq", "Refines"), ("NegBoolKey", "Refines"), ("NegHash", "HashRespects")):
        if inv not in res[name].violated:
            chk.machinery("EqHash_%s: the as-built deviation is NOT rejected (%s)" % (name, res[name].violated))
    if chk.machinery_errors:
        return
    rows = {r["i"]: r for r in res["T"].tagged("TAB")}
    rows = [rows[i] for i in sorted(rows)]
    allm = []
    mism, cnt, nt = check_pairs(rows)
    chk.count(cnt)
    chk.nontriv(n=nt)
    chk.extra["universe"] = {"size": len(rows), "classes": len({r["cls"] for r in rows}),
                             "values": [describe(r["v"]) for r in rows]}
    chk.extra["pairs"] = {"ordered_pairs": len(rows) ** 2, "comparisons_incl_hash": cnt, "mismatches": len(mism)}
    allm.extend(mism)
    chk.sample({"pair": [describe(rows[18]["v"]), describe(rows[19]["v"])], "Eq": rows[18]["eq"][19]})
    keys = []
    for name in ("L2", "LS"):
        nodes = res[name].tagged("NODE")
        # keys of the lookup machine: positions in the universe, as the spec's root node states them
        keypos = [n["ks"] for n in nodes if not n["p"]][0]
        keys = [rows[p - 1]["v"] for p in keypos]
        m, n, total = replay_lookup(nodes, keys, procs)
        chk.count(n * (2 * len(keys) + 3), traces=len([1 for x in nodes if len(x["p"]) == max(len(y["p"]) for y in nodes)]))
        chk.nontriv(n=n)
        chk.extra["lookup:" + name] = {"nodes": n, "keys": len(keys), "mismatching_nodes": total}
        allm.extend(m)
    chk.sample({"lookup keys": [describe(k) for k in keys]})
    seen = {}
    for m in allm:
        s = signature(m)
        seen[s] = seen.get(s, 0) + 1
        if seen[s] > 25:
            continue
        if m["kind"] == "lookup":
            case = {"kind": "lookup", "path": m["path"], "keys": [describe(k) for k in keys], "tier": chk.tier}
            clause = "EqHashImpl!LookupRespectsEq"
        else:
            case = {"kind": m["kind"], "a": m["a"], "b": m["b"]}
            clause = "EqHash!Eq" if m["kind"] == "eq" else "EqHashImpl!HashRespects"
        chk.discrepancy(clause, case, m["expected"], m["observed"], sig=s, module="EqHash", direction="spec->code",
                        extra={"a": describe(m["a"]) if "a" in m else None, "b": describe(m["b"]) if "b" in m else None,
                               "detail": m.get("detail")})
    chk.extra["discrepancies_by_sig"] = seen
    chk.exhaustive = True


def replay(chk, body):
    case = body["case"]
    R = real()
    chk.count()
    if case["kind"] in ("eq", "hash"):
        x, y = conc(case["a"]), conc(case["b"])
        print("a =", describe(case["a"]), "->", type(x).__name__, "   b =", describe(case["b"]), "->", type(y).__name__)
        e1, e2 = _call(R["="], x, y), _call(R["="], conc(case["b"]), conc(case["a"]))
        h1, h2 = _call(R["hash"], conc(case["a"])), _call(R["hash"], conc(case["b"]))
        print("(= a b)", e1, " (= b a)", e2, " (hash a)", h1, " (hash b)", h2, "  expected", body["expected"])
        if case["kind"] == "eq":
            if e1 is not body["expected"]:
                chk.discrepancy(body["clause"], case, body["expected"], e1, sig=body["sig"], module="EqHash",
                                direction="replay")
        elif h1 != h2:
            chk.discrepancy(body["clause"], case, body["expected"], "different hashes", sig=body["sig"],
                            module="EqHash", direction="replay")
        return
    # lookup: the history is re-run on a real map / set; expected observations come from TLC again
    quick = case.get("tier", "quick") == "quick"
    want = tuple(tuple(a) for a in case["path"])
    cfg = "EqHash_L2%s.cfg" % ("" if quick else "t")
    r = tlc.run("EqHash_U", "EqHash_T%s.cfg" % ("" if quick else "t"), workers=6, timeout=3000)
    rows = {x["i"]: x for x in r.tagged("TAB")}
    lnodes = tlc.run("EqHash_U", cfg, workers=6, timeout=3000).tagged("NODE")
    keys = [rows[p]["v"] for p in [n["ks"] for n in lnodes if not n["p"]][0]]
    global _KEYS
    _KEYS = keys
    m, s, used = R["lmap"].EMPTY, R["lset"].EMPTY, []
    for n, (op, kp) in enumerate(want, 1):
        key = conc(keys[kp - 1])
        if op == "assoc":
            m = R["assoc"](m, key, n)
        elif op == "dissoc":
            m = R["dissoc"](m, key)
        elif op == "conj":
            s = R["conj"](s, key)
        else:
            s = R["disj"](s, key)
        used.append(key)
        print("step", n, op, describe(keys[kp - 1]), "-> map", m, " set", s)
    obs = observe(m, s, used)
    print("observed", obs)
    if True:
        nodes = {tuple(tuple(a) for a in x["p"]): x for x in lnodes}
        node = nodes.get(want)
        if node is not None:
            print("required", _norm(node["req"]))
            mm = []
            _compare(node, obs, want, mm)
            for x in mm:
                chk.discrepancy(body["clause"], case, x["expected"], x["observed"], sig=signature(x), module="EqHash",
                                direction="replay")
            return
    print("expected (recorded)", body["expected"])
    if obs.get(body.get("extra", {}).get("field", "get")) != body["expected"]:
        chk.discrepancy(body["clause"], case, body["expected"], body["observed"], sig=body["sig"], module="EqHash",
                        direction="replay")
