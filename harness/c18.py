"""C18 -- multimethod dispatch depends only on the current methods, preferences and hierarchy.

design check:  MultiFn.tla (required: resolution as a function of methods/prefers/derive relation;
               hierarchy consistency) and MultiFnImpl.tla (as built: :parents/:ancestors/:descendants maps,
               dispatch cache + hierarchy snapshot, single-pass search over EVERY iteration order) are model
               checked over the full reachable state space of small universes: the maps are the closure of
               the derive edges, a search from scratch answers within the requirement, THE CACHE IS INVISIBLE.
               Negative configs (must be rejected): the as-built order-dependent pass (diamond), the as-built
               ancestors of a class, a missing cache reset after remove/add/remove-all, no hierarchy comparison.
spec -> code:  MultiFn_Gen emits the tree of histories of the required spec (exhaustive to a depth, and
               `-simulate` to length 40 on 5 tags + 3 classes + vectors); every history is executed on a real
               defmulti through basilisp.core (defmulti, defmethod, remove-method, remove-all-methods,
               prefer-method, derive, underive); after EVERY step EVERY dispatch value is called twice (fresh
               and cached) and must give an allowed outcome, and after every change of the hierarchy
               parents/ancestors/descendants/isa? are compared.  The method table is a hash map: different
               iteration orders are realised by different concrete keyword names (variants) and, in the
               thorough tier, by child interpreters under other PYTHONHASHSEEDs.
classification: a mismatch is handed to MultiFn_Diag (as-built model put into that abstract state): it is
               named dev:<Deviations> only if the observation is among the outcomes of the as-built model
               with exactly those deviations.
"""
import json
import os
import sys
import threading

import boot
import tlc

DEV_O = "OrderDependentAmbiguity"
DEV_C = "ClassAncestorsNotInherited"
NVARIANTS = 6

# ------------------------------------------------------------------------------------------------
# the real side
# ------------------------------------------------------------------------------------------------
_L = {}


def lisp():
    """helpers compiled once: everything a history does goes through basilisp.core macros/functions"""
    if _L:
        return _L
    rt, _ = boot.init()
    s = boot.Scratch("verif.c18")
    s.eval('''
(def h (make-hierarchy))
;; defmulti expands to (def name (MultiFunction ...)): the Var it returns is dereferenced, so that the
;; helper does not depend on the namespace that is current when it is called
(defn fresh-global [] @(defmulti mm (fn [x] x)))
(defn fresh-local []
  (alter-var-root #'h (constantly (make-hierarchy)))
  @(defmulti mml (fn [x] x) :hierarchy #'h))
(defn add! [m dv] (defmethod m dv [_] dv) nil)
(defn remove! [m dv] (remove-method m dv) nil)
(defn remove-all! [m] (remove-all-methods m) nil)
(defn prefer! [m x y] (prefer-method m x y) nil)
(defn derive-global [t p] (derive t p) nil)
(defn underive-global [t p] (underive t p) nil)
(defn derive-local [t p] (alter-var-root #'h derive t p) nil)
(defn underive-local [t p] (alter-var-root #'h underive t p) nil)
(defn isa-global [x y] (isa? x y))
(defn isa-local [x y] (isa? @#'h x y))
(defn parents-global [x] (parents x))
(defn parents-local [x] (parents @#'h x))
(defn ancestors-global [x] (ancestors x))
(defn ancestors-local [x] (ancestors @#'h x))
(defn descendants-global [x] (descendants x))
(defn descendants-local [x] (descendants @#'h x))
''')
    from basilisp.lang import keyword as kw, runtime, symbol as sym, vector as vec
    for n in ["fresh-global", "fresh-local", "add!", "remove!", "remove-all!", "prefer!",
              "derive-global", "underive-global", "derive-local", "underive-local",
              "isa-global", "isa-local", "parents-global", "parents-local", "ancestors-global",
              "ancestors-local", "descendants-global", "descendants-local"]:
        _L[n] = s.ns.find(sym.symbol(n)).value
    _L["kw"], _L["vec"], _L["rt"] = kw, vec, runtime
    _L["ghier"] = runtime.Var.find(sym.symbol("global-hierarchy", ns="basilisp.core"))
    _L["make-hierarchy"] = boot.core_fn("make-hierarchy")
    return _L


class Conc:
    """abstract names -> real dispatch values, for one universe and one variant of the keyword names"""
    _classes = {}

    def __init__(self, u, variant):
        L = lisp()
        self.u, self.variant = u, variant
        sfx = "" if variant == 0 else str(variant)
        self.of = {}
        for t in u["tags"]:
            self.of[t] = L["kw"].keyword(t + sfx, ns="u")
        key = (tuple(sorted(u["classes"])), tuple(sorted(map(tuple, u["bases"]))), variant)
        if key not in Conc._classes:
            made = {}
            todo = sorted(u["classes"])
            base_of = {}
            for c, b in u["bases"]:
                base_of.setdefault(c, []).append(b)
            while todo:
                for c in list(todo):
                    bs = base_of.get(c, [])
                    if all(b in made for b in bs):
                        made[c] = type(c + "_" + str(variant), tuple(made[b] for b in sorted(bs)) or (object,), {})
                        todo.remove(c)
            Conc._classes[key] = made
        self.of.update(Conc._classes[key])
        for v, els in u["vecs"].items():
            self.of[v] = L["vec"].vector([self.of[e] for e in els])
        self.of[u["dflt"]] = L["kw"].keyword("default")
        self.back = {c: a for a, c in self.of.items()}

    def abs(self, v):
        if v is object:
            return None
        try:
            return self.back.get(v, "?" + repr(v))
        except TypeError:
            return "?" + repr(v)

    def absset(self, s):
        out = set()
        for v in (s or ()):
            a = self.abs(v)
            if a is not None:
                out.add(a)
        return sorted(out)


class Real:
    """one real multimethod (and hierarchy) on which a history is executed"""

    def __init__(self, conc, mode):
        L = lisp()
        self.L, self.c, self.mode = L, conc, mode
        with L["rt"].ns_bindings("verif.c18"):
            if mode == "global":
                L["ghier"].bind_root(L["make-hierarchy"]())
                self.mm = L["fresh-global"]()
            else:
                self.mm = L["fresh-local"]()
        if type(self.mm).__name__ != "MultiFunction":
            raise RuntimeError("defmulti did not produce a multimethod: %r" % (self.mm,))

    def act(self, a):
        L, of, mm = self.L, self.c.of, self.mm
        k = a["a"]
        try:
            if k == "add":
                L["add!"](mm, of[a["x"]])
            elif k == "remove":
                L["remove!"](mm, of[a["x"]])
            elif k == "removeall":
                L["remove-all!"](mm)
            elif k == "prefer":
                L["prefer!"](mm, of[a["x"]], of[a["y"]])
            elif k == "derive":
                L["derive-" + self.mode](of[a["x"]], of[a["y"]])
            elif k == "underive":
                L["underive-" + self.mode](of[a["x"]], of[a["y"]])
            else:
                raise ValueError(k)
        except Exception as e:  # noqa
            if k in ("prefer", "derive") and not isinstance(e, (KeyError, ValueError)):
                return "err"
            return "exc:" + type(e).__name__
        return "ok"

    def call(self, dv):
        try:
            r = self.mm(self.c.of[dv])
        except NotImplementedError:
            return "!none"
        except self.L["rt"].RuntimeException:
            return "!amb"
        except Exception as e:  # noqa
            return "!exc:" + type(e).__name__
        return self.c.abs(r)

    def hier(self, atoms, tags, dvs):
        L, c, m = self.L, self.c, self.mode
        out = {"par": {}, "anc": {}, "desc": {}, "isa": {}}
        for x in atoms:
            out["par"][x] = _safe(lambda: c.absset(L["parents-" + m](c.of[x])))
            out["anc"][x] = _safe(lambda: c.absset(L["ancestors-" + m](c.of[x])))
        for t in tags:
            out["desc"][t] = _safe(lambda: c.absset(L["descendants-" + m](c.of[t])))
        isa = L["isa-" + m]
        for x in dvs:
            out["isa"][x] = _safe(lambda: sorted(y for y in dvs if y != x and isa(c.of[x], c.of[y])))
        return out


def _safe(f):
    try:
        return f()
    except Exception as e:  # noqa
        return "exc:" + type(e).__name__


def is_raise(o):
    return o in ("!amb", "!none")


def call_ok(obs, allowed):
    """the property says 'raises' for both ambiguity and no method: the two are not told apart"""
    return obs in allowed or (is_raise(obs) and any(is_raise(a) for a in allowed))


# ------------------------------------------------------------------------------------------------
# replay of one history (a path of tree nodes)
# ------------------------------------------------------------------------------------------------
def run_history(u, nodes, variant, mode, hier_from=0, check_hier=True):
    """nodes: root .. leaf.  -> (list of mismatches, n calls, n hierarchy comparisons)"""
    conc = Conc(u, variant)
    real = Real(conc, mode)
    dvs = sorted(nodes[0]["req"])
    atoms = sorted(u["tags"] + u["classes"])
    mism = []
    ncalls = nh = 0
    prev_req = None

    def ctx(i, node):
        return {"u": u["name"], "variant": variant, "mode": mode, "path": node["p"], "step": i,
                "m": node["m"], "pf": node["pf"], "pa": node["pa"]}

    for i, node in enumerate(nodes):
        if i > 0:
            a = node["p"][-1]
            r = real.act(a)
            if r != node["r"]:
                mism.append(dict(ctx(i, node), kind="act", act=a, expected=node["r"], observed=r))
        req = node["req"]
        for dv in dvs:
            o1 = real.call(dv)
            o2 = real.call(dv)
            ncalls += 2
            for nth, o in ((1, o1), (2, o2)):
                if not call_ok(o, req[dv]):
                    stale = prev_req is not None and call_ok(o, prev_req[dv])
                    mism.append(dict(ctx(i, node), kind="call", dv=dv, nth=nth, expected=req[dv], observed=o,
                                     stale=stale, after=node["p"][-1]["a"] if i else "init"))
                    break
            else:
                if o1 != o2 and not (is_raise(o1) and is_raise(o2)):
                    mism.append(dict(ctx(i, node), kind="unstable", dv=dv, expected=[o1], observed=o2,
                                     after=node["p"][-1]["a"] if i else "init"))
        prev_req = req
        hx = node["hier"]
        if check_hier and "par" in hx and i >= hier_from:
            nh += 1
            obs = real.hier(atoms, u["tags"], dvs)
            for x in atoms:
                for k in ("par", "anc"):
                    if obs[k][x] != sorted(hx[k][x]):
                        mism.append(dict(ctx(i, node), kind="hier", fn=k, arg=x, expected=sorted(hx[k][x]),
                                         observed=obs[k][x]))
            for t in u["tags"]:
                d = obs["desc"][t]
                if isinstance(d, str) or not (set(hx["dmin"][t]) <= set(d) <= set(hx["dmax"][t])):
                    mism.append(dict(ctx(i, node), kind="hier", fn="desc", arg=t,
                                     expected=[sorted(hx["dmin"][t]), sorted(hx["dmax"][t])], observed=d))
            for x in dvs:
                if obs["isa"][x] != sorted(hx["isa"][x]):
                    mism.append(dict(ctx(i, node), kind="hier", fn="isa", arg=x, expected=sorted(hx["isa"][x]),
                                     observed=obs["isa"][x]))
    return mism, ncalls, nh


# ------------------------------------------------------------------------------------------------
# the history tree from TLC's NODE lines
# ------------------------------------------------------------------------------------------------
def pkey(p):
    return tuple((a["a"], a["x"], a["y"]) for a in p)


class Tree:
    def __init__(self, name, lines):
        self.by = {}
        for n in lines:
            self.by[pkey(n["p"])] = n
        root = self.by[()]
        uu = root["hier"]["u"]
        self.u = {"name": name, "tags": sorted(uu["tags"]), "classes": sorted(uu["classes"]),
                  "bases": [list(b) for b in uu["bases"]], "vecs": {k: list(v) for k, v in uu["vecs"].items()}
                  if isinstance(uu["vecs"], dict) else {}, "dflt": uu["dflt"]}
        depth = max(len(k) for k in self.by)
        self.depth = depth
        self.leaves = sorted(k for k in self.by if len(k) == depth)

    def path_nodes(self, leaf):
        out = []
        for i in range(len(leaf) + 1):
            n = self.by.get(leaf[:i])
            if n is None:
                raise KeyError("history tree has a hole at %r" % (leaf[:i],))
            out.append(n)
        return out


_TREE = None
_PLAN = None


def _work(job):
    """job: (lo, hi) indexes into _PLAN = list of (leaf, variant, mode, check_hier)"""
    lo, hi = job
    out, calls, nh, hist = [], 0, 0, 0
    prev = None
    for idx in range(lo, hi):
        leaf, variant, mode, chk_h = _PLAN[idx]
        nodes = _TREE.path_nodes(leaf)
        # hierarchy observations of a shared prefix are made once (by the first history through it)
        common = 0
        if prev is not None:
            while common < len(leaf) and common < len(prev) and leaf[common] == prev[common]:
                common += 1
            hier_from = common + 1
        else:
            hier_from = 0
        m, c, h = run_history(_TREE.u, nodes, variant, mode, hier_from=hier_from, check_hier=chk_h)
        prev = leaf if chk_h else prev
        out.extend(m[:40])
        calls += c
        nh += h
        hist += 1
    return out, calls, nh, hist


def replay_tree(tree, plan, procs):
    """run the plan on a fork pool -> (mismatches, calls, hierarchy comparisons, histories)"""
    global _TREE, _PLAN
    import multiprocessing as mp
    _TREE, _PLAN = tree, plan
    n = len(plan)
    if n == 0:
        return [], 0, 0, 0
    step = max(1, min(400, n // (procs * 4) + 1))
    jobs = [(i, min(n, i + step)) for i in range(0, n, step)]
    mism, calls, nh, hist = [], 0, 0, 0
    if procs <= 1:
        res = map(_work, jobs)
    else:
        pool = mp.get_context("fork").Pool(procs)
        res = pool.imap(_work, jobs)
    for m, c, h, k in res:
        mism.extend(m)
        calls += c
        nh += h
        hist += k
    if procs > 1:
        pool.close()
        pool.join()
    return mism, calls, nh, hist


def plan_exhaustive(tree, every=1):
    """every > 1: only every n-th maximal history is replayed (reported as a sample in the evidence)"""
    plan = []
    for i, leaf in enumerate(tree.leaves):
        if i % every == 0:
            plan.append((leaf, (i // every) % NVARIANTS, "global" if (i // every // NVARIANTS) % 2 == 0 else "local", True))
    return plan


def plan_random(tree, nvar):
    plan = []
    for i, leaf in enumerate(tree.leaves):
        for v in range(nvar):
            plan.append((leaf, v, "global" if (i + v) % 2 == 0 else "local", v == 0))
    return plan


# ------------------------------------------------------------------------------------------------
# classification with the as-built model
# ------------------------------------------------------------------------------------------------
DIAG_CFG = {"D": "MultiFn_DiagD.cfg", "T": "MultiFn_DiagT.cfg", "B": "MultiFn_DiagB.cfg"}
DIAG_CAP = 4000


def classify(chk, mism):
    """attach 'sig' to every mismatch"""
    by_u = {}
    for m in mism:
        if m["kind"] in ("call", "hier"):
            key = (json.dumps(m["m"]), json.dumps(m["pf"]), json.dumps(m["pa"]), m.get("dv", "dflt"))
            by_u.setdefault(m["u"], {}).setdefault(key, []).append(m)
    for uname, cases in by_u.items():
        keys = sorted(cases)[:DIAG_CAP]
        inp = [{"m": json.loads(k[0]), "pf": json.loads(k[1]), "pa": json.loads(k[2]), "dv": k[3]} for k in keys]
        path = tlc.write_json("c18diag_" + uname, inp)
        r = tlc.run("MultiFn_Diag", DIAG_CFG[uname], workers=4, env={"TRACE_FILE": path})
        chk.add_tlc("MultiFn_Diag" + uname, r)
        if r.violated or not r.ok:
            chk.machinery("MultiFn_Diag%s: %s" % (uname, r.violated or r.out[-400:]))
            continue
        diag = {d["id"]: d for d in r.tagged("DIAG")}
        for i, k in enumerate(keys):
            d = diag.get(i + 1)
            if d is None:
                continue
            for m in cases[k]:
                m["diag"] = {x: d[x] for x in ("o", "c", "oc", "none")}
                if m["kind"] == "call":
                    o = m["observed"]
                    if call_ok(o, d["o"]):
                        m["sig"] = "dev:" + DEV_O
                    elif call_ok(o, d["c"]):
                        m["sig"] = "dev:" + DEV_C
                    elif call_ok(o, d["oc"]):
                        m["sig"] = "dev:" + DEV_C + "+" + DEV_O
                else:
                    if m["fn"] == "anc" and m["observed"] == sorted(d["ancc"].get(m["arg"], ["?"])):
                        m["sig"] = "dev:" + DEV_C
                    if m["fn"] == "isa" and m["observed"] == sorted(d["isac"].get(m["arg"], ["?"])):
                        m["sig"] = "dev:" + DEV_C
    for m in mism:
        if "sig" in m:
            continue
        if m["kind"] == "call":
            m["sig"] = "call:after=%s:expected=%s:observed=%s%s" % (
                m["after"], "|".join(sorted(_okind(e, m) for e in m["expected"])), _okind(m["observed"], m),
                ":stale(answer of the previous state)" if m.get("stale") else "")
        elif m["kind"] == "unstable":
            m["sig"] = "call:after=%s:second call of the same dispatch value answers differently" % m["after"]
        elif m["kind"] == "act":
            m["sig"] = "mutator:%s:expected=%s:observed=%s" % (m["act"]["a"], m["expected"], m["observed"])
        else:
            m["sig"] = "hierarchy:%s(%s):expected=%s:observed=%s" % (
                m["fn"], _akind(m["arg"]), _short(m["expected"]), _short(m["observed"]))


def _okind(o, m):
    if o == "!amb":
        return "raise-ambiguous"
    if o == "!none":
        return "raise-no-method"
    if o.startswith("!exc"):
        return o
    if o == "dflt":
        return "default-method"
    if o.startswith("?"):
        return "foreign-value"
    return "method-exact" if o == m.get("dv") else "method-of-ancestor"


def _akind(x):
    return "class" if x.startswith("C") else "vector" if x.startswith("v_") else "tag"


def _short(x):
    s = json.dumps(x)
    return s if len(s) < 80 else s[:77] + "..."


def report(chk, mism, direction="spec->code"):
    per_sig = {}
    for m in mism:
        n = per_sig.get(m["sig"], 0)
        per_sig[m["sig"]] = n + 1
        if n >= 30:
            continue
        case = {k: m[k] for k in ("u", "variant", "mode", "path", "step", "kind") if k in m}
        for k in ("dv", "fn", "arg", "hashseed"):
            if k in m:
                case[k] = m[k]
        clause = {"call": "MultiFn!Allowed", "unstable": "MultiFnImpl!CacheInvisible", "act": "MultiFn!Mutate",
                  "hier": "MultiFn!HierConsistent"}[m["kind"]]
        chk.discrepancy(clause, case, m["expected"], m["observed"], sig=m["sig"], module="MultiFn",
                        direction=direction,
                        extra={"state": {"methods": m["m"], "prefers": m["pf"], "derive_edges": m["pa"]},
                               "as_built_outcomes": m.get("diag")})
    chk.extra.setdefault("discrepancies_by_sig", {})
    for s, n in per_sig.items():
        chk.extra["discrepancies_by_sig"][s] = chk.extra["discrepancies_by_sig"].get(s, 0) + n


# ------------------------------------------------------------------------------------------------
# the check
# ------------------------------------------------------------------------------------------------
MC_QUICK = ["HD", "HK", "HV", "CD3"]
MC_THOROUGH = ["HD", "HK", "HV", "HT", "CD3", "CD", "CV", "CK"]
NEG_QUICK = {"NegOrder": "SearchSound", "NegClassAnc": "HierRefines", "NegNoRemove": "CacheInvisible",
             "NegNoHierCheck": "CacheInvisible"}
NEG_THOROUGH = dict(NEG_QUICK, NegNoAdd="CacheInvisible", NegNoRemoveAll="CacheInvisible")


def _tlc_jobs(chk, jobs, par):
    """jobs: name -> kwargs of tlc.run; run `par` at a time in threads -> name -> result / exception"""
    res = {}
    sem = threading.Semaphore(par)

    def one(name, kw):
        with sem:
            try:
                res[name] = tlc.run(**kw)
            except Exception as e:  # noqa
                res[name] = e
    ths = [threading.Thread(target=one, args=(n, kw)) for n, kw in jobs.items()]
    for t in ths:
        t.start()
    for t in ths:
        t.join()
    return res


def run(chk):
    quick = chk.tier == "quick"
    procs = int(os.environ.get("VERIF_PROCS") or 16)
    lisp()
    chk.rule = ("a history is a path of the TLC-generated tree of mutators (add/remove/remove-all/prefer/derive/"
                "underive); after every step every dispatch value is called twice and parents/ancestors/"
                "descendants/isa? are compared after every hierarchy change; non-trivial = a (history, variant) "
                "in which some call is answered by a method of a proper ancestor, by the default method, or is "
                "ambiguous (i.e. resolution, not exact match, decides)")
    jobs = {}
    for c in (MC_QUICK if quick else MC_THOROUGH):
        jobs[c] = dict(module="MultiFn_MC", cfg="MultiFn_%s.cfg" % c, workers=4 if c != "CT" else 8, timeout=3000)
    neg = NEG_QUICK if quick else NEG_THOROUGH
    for c in neg:
        jobs[c] = dict(module="MultiFn_MC", cfg="MultiFn_%s.cfg" % c, workers=2)
    # (universe, cfg, replay every n-th maximal history)
    gens = [("D", "MultiFn_GenD4.cfg", 1)] if quick else [("T", "MultiFn_GenT4.cfg", 1), ("D", "MultiFn_GenD5.cfg", 4)]
    for u, cfg, _ in gens:
        jobs["gen" + cfg] = dict(module="MultiFn_Gen", cfg=cfg, workers=4, timeout=3000)
    nsim = int(os.environ.get("VERIF_C18_SIM") or (120 if quick else 600))
    jobs["sim"] = dict(module="MultiFn_Gen", cfg="MultiFn_GenB.cfg", workers=4, simulate=(nsim + 3) // 4, depth=81,
                       seed=chk.seed + 1, timeout=3000)
    res = _tlc_jobs(chk, jobs, par=max(1, min(4 if quick else 5, procs // 4)))
    for name, r in res.items():
        if isinstance(r, Exception):
            chk.machinery("%s: %s" % (name, str(r)[:600]))
            return
        chk.add_tlc(name, r)
    for c in (MC_QUICK if quick else MC_THOROUGH):
        r = res[c]
        if r.violated or not r.ok:
            chk.machinery("MultiFn_%s: the design check fails: %s" % (c, r.violated or r.out[-300:]))
    for c, inv in neg.items():
        if inv not in res[c].violated:
            chk.machinery("MultiFn_%s: the deviating/mutant model is NOT rejected (expected %s violated, got %s)"
                          % (c, inv, res[c].violated))
    if chk.machinery_errors:
        return
    allm = []
    trees = []
    for u, cfg, every in gens:
        r = res["gen" + cfg]
        if r.violated or not r.ok:
            chk.machinery("%s: %s" % (cfg, r.violated or r.out[-300:]))
            return
        t = Tree(u, r.tagged("NODE"))
        trees.append((u, cfg, t, plan_exhaustive(t, every)))
        if every > 1:
            chk.exhaustive = False
    r = res["sim"]
    tsim = Tree("B", r.tagged("NODE"))
    trees.append(("B", "simulate", tsim, plan_random(tsim, 3 if quick else 4)))
    for u, cfg, t, plan in trees:
        mism, calls, nh, hist = replay_tree(t, plan, procs)
        chk.count(calls + nh, traces=hist)
        chk.extra["histories:" + cfg] = {"universe": t.u, "depth": t.depth, "tree_nodes": len(t.by),
                                         "histories": len(t.leaves), "replays": hist, "calls": calls,
                                         "hierarchy_comparisons": nh}
        for leaf, variant, mode, _ in plan:
            nodes = t.path_nodes(leaf)
            if any(any(o not in ("!none", dv) for o in req) for n in nodes for dv, req in n["req"].items()):
                chk.nontriv((u, cfg, leaf, variant))
        if plan:
            leaf = plan[len(plan) // 2][0]
            chk.sample({"universe": u, "job": cfg, "history": [list(a) for a in leaf],
                        "allowed_after_last_step": t.by[leaf]["req"]})
        allm.extend(mism)
    # ---- other hash seeds: child interpreters replay the random histories -----------------------
    if not quick:
        seeds = [1, 2, 3, 5]
        path = tlc.write_json("c18sim", r.tagged("NODE"))
        import repo
        outs = {}

        def child(seed):
            outs[seed] = repo.run_child([os.path.abspath(__file__), "--child", path, "1", str(max(2, procs // 2))],
                                        hashseed=str(seed), timeout=3000)
        ths = [threading.Thread(target=child, args=(s,)) for s in seeds]
        for pair in (ths[:2], ths[2:]):
            for t_ in pair:
                t_.start()
            for t_ in pair:
                t_.join()
        for s in seeds:
            p = outs[s]
            try:
                body = json.loads(p.stdout.strip().splitlines()[-1])
            except Exception:  # noqa
                chk.machinery("child interpreter (PYTHONHASHSEED=%s) failed: %s" % (s, (p.stderr or p.stdout)[-600:]))
                continue
            for m in body["mism"]:
                m["hashseed"] = s
            allm.extend(body["mism"])
            chk.count(body["calls"], traces=body["hist"])
            chk.extra["hashseed:%d" % s] = {"replays": body["hist"], "calls": body["calls"]}
    if chk.exhaustive is None:
        chk.exhaustive = True
    classify(chk, allm)
    report(chk, allm)


def child_main(argv):
    """--child <nodes.json> <nvariants> <procs>: replay the random histories in this interpreter (its own
    PYTHONHASHSEED); prints one JSON line"""
    lines = json.load(open(argv[0]))
    nvar, procs = int(argv[1]), int(argv[2])
    lisp()
    t = Tree("B", lines)
    plan = [(leaf, v, mode, False) for (leaf, v, mode, _) in plan_random(t, nvar)]
    mism, calls, nh, hist = replay_tree(t, plan, procs)
    print(json.dumps({"mism": mism[:5000], "calls": calls, "hist": hist}))


def replay(chk, body):
    case = body["case"]
    lisp()
    seed = case.get("hashseed")
    if seed is not None and str(seed) != os.environ.get("PYTHONHASHSEED"):
        print("note: the case was observed under PYTHONHASHSEED=%s (this interpreter: %s); iteration orders may differ"
              % (seed, os.environ.get("PYTHONHASHSEED")))
    cfg = {"D": "MultiFn_GenD5.cfg", "T": "MultiFn_GenT4.cfg", "B": "MultiFn_GenB.cfg"}[case["u"]]
    # the universe constants and the expected observations come from TLC again: the required spec is run
    # along exactly this path (MultiFn_Gen in simulation would not reproduce it, so the root node of the
    # universe is taken from a depth-0 run and the recorded expectation is used for the failing step)
    r = tlc.run("MultiFn_Gen", cfg, workers=1, simulate=1, depth=1, seed=1)
    root = [n for n in r.tagged("NODE") if not n["p"]][0]
    uu = root["hier"]["u"]
    u = {"name": case["u"], "tags": sorted(uu["tags"]), "classes": sorted(uu["classes"]),
         "bases": [list(b) for b in uu["bases"]],
         "vecs": {k: list(v) for k, v in uu["vecs"].items()} if isinstance(uu["vecs"], dict) else {},
         "dflt": uu["dflt"]}
    conc = Conc(u, case["variant"])
    real = Real(conc, case["mode"])
    dvs = sorted(root["req"])
    got = None
    for i, a in enumerate(case["path"], 1):
        res = real.act(a)
        outs = {dv: (real.call(dv), real.call(dv)) for dv in dvs}
        print("step %d %s %s %s -> %s   calls: %s" % (i, a["a"], a["x"], a["y"], res,
                                                    " ".join("%s=%s" % (d, o[0]) for d, o in outs.items())))
        if i == case["step"]:
            if case["kind"] == "call":
                got = outs[case["dv"]][0] if call_ok(outs[case["dv"]][1], body["expected"]) else outs[case["dv"]][1]
                ok = call_ok(outs[case["dv"]][0], body["expected"]) and call_ok(outs[case["dv"]][1], body["expected"])
            elif case["kind"] == "unstable":
                got = outs[case["dv"]][1]
                ok = outs[case["dv"]][0] == outs[case["dv"]][1]
            elif case["kind"] == "act":
                got, ok = res, res == body["expected"]
            else:
                h = real.hier(sorted(u["tags"] + u["classes"]), u["tags"], dvs)
                k = {"par": "par", "anc": "anc", "desc": "desc", "isa": "isa"}[case["fn"]]
                got = h[k][case["arg"]]
                if case["fn"] == "desc":
                    ok = not isinstance(got, str) and set(body["expected"][0]) <= set(got) <= set(body["expected"][1])
                else:
                    ok = got == body["expected"]
            print("   observed", got, "expected", body["expected"])
            chk.count()
            if not ok:
                chk.discrepancy(body["clause"], case, body["expected"], got, sig=body["sig"], module="MultiFn",
                                direction="replay")
            break


if __name__ == "__main__":
    if len(sys.argv) > 1 and sys.argv[1] == "--child":
        child_main(sys.argv[2:])
