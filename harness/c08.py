"""C08 -- calls bind arguments to the right arity however the call is made.

spec -> code.  Calls.tla (TLC: every (signature x call shape x argument count) has exactly one outcome, arity error
before body code, laziness bound of apply, recur keeps the activation depth; five machine mutants must be rejected)
emits
  TAB  one row per case: signature, call shape, expected outcome (selected arity, bound arguments by position, rest
       parameter nil / positions from..to / endless) and the number of tail elements apply may realize,
  REC  one row per (signature, running arity, kind of the last recur argument): the bindings after one recur.
The driver generates the real `fn` / `defn` of every signature (each body reports its entry to a harness function and
returns its bindings as a vector), performs every call in its shape through compiled Lisp callers, and compares
bindings, "arity error before any body code", and the number of realized elements of an instrumented lazy tail.
Stack: the Python frame depth sampled inside `loop` / fn-`recur` bodies at iterations 1, 10, 10^3, 10^5 (10^6) is equal.
"""
import json
import logging
import multiprocessing as mp
import os
import sys
import types

import boot
import tlc

BASE = 100        # the argument written at position i has the value BASE + i
LOOK = 3          # elements of an endless rest parameter that are compared
OVERRUN = 40      # an "endless" tail refuses to be realized beyond this many elements (a hang becomes an error)
NEG = ["eager", "gt", "grow", "body", "restnil"]


class TailOverrun(Exception):
    pass


def arity_error_family(rt):
    """Exceptions that mean "wrong number of arguments": a single-arity fn is a Python def (TypeError), the
    multi-arity dispatch function raises basilisp.lang.runtime.RuntimeException."""
    return (TypeError, rt.RuntimeException)


class Env:
    """One scratch namespace compiled under one set of compiler options, with the harness functions interned."""

    def __init__(self, label, **opts):
        self.label = label
        self.sc = boot.Scratch(**opts)
        self.rt = self.sc.runtime
        from basilisp.lang import symbol as sym
        from basilisp.lang.interfaces import ISeq
        self.sym, self.ISeq = sym, ISeq
        self.log = []            # (tag, tail elements realized when the body started)
        self.realized = 0
        self.endless = False
        self.iter = 0
        self.frames = {}
        self.sample_at = frozenset()
        self.fns = {}
        self._n = 0
        for name, f in [("entry", self._entry), ("mk", self._mk), ("tick", self._tick), ("arg", self._arg),
                        ("sq", self._sq), ("probe", self._probe)]:
            self.intern(name, f)
        self.tail = self.sc.eval(
            "(defn tail [from n] ((fn go [i] (lazy-seq (when (or (nil? n) (< i (+ from n))) "
            "(cons (mk i) (go (inc i)))))) from))").value
        self.direct, self.varget, self.applyc, self.partialc = {}, {}, {}, {}
        for k in range(0, 9):
            ps = " ".join("a%d" % i for i in range(1, k + 1))
            self.direct[k] = self.sc.eval("(fn [f %s] (f %s))" % (ps, ps))
            self.varget[k] = self.sc.eval("(fn [v %s] ((var-get v) %s))" % (ps, ps))
            self.applyc[k] = self.sc.eval("(fn [f t %s] (apply f %s t))" % (ps, ps))
        for p in range(1, 4):
            ps = " ".join("a%d" % i for i in range(1, p + 1))
            self.partialc[p] = self.sc.eval("(fn [f %s] (partial f %s))" % (ps, ps))

    # ---- harness functions visible to the Lisp code ------------------------------------------------
    def intern(self, name, val):
        return self.rt.Var.intern(self.sc.ns, self.sym.symbol(name), val)

    def _entry(self, tag):
        self.log.append((tag, self.realized))
        return None

    def _mk(self, i):
        self.realized += 1
        if self.endless and self.realized > OVERRUN:
            raise TailOverrun("endless tail realized beyond %d elements" % OVERRUN)
        return BASE + i

    def _tick(self):
        self.iter += 1
        return self.iter

    def _arg(self, i):
        return BASE + 10 * self.iter + i

    def _sq(self, first, m):
        from basilisp.lang import list as llist
        self.lastseq = llist.list([BASE + 10 * self.iter + first + j for j in range(m)])
        return self.lastseq

    def _probe(self, i):
        if i in self.sample_at:
            n, f = 0, sys._getframe(0)
            while f is not None:
                n, f = n + 1, f.f_back
            self.frames[i] = n
        return None

    def reset(self, endless=False):
        self.log = []
        self.realized = 0
        self.endless = endless
        self.iter = 0

    # ---- the real functions --------------------------------------------------------------------------
    def make(self, sig, creation):
        """-> (callable, Var or None).  creation: 'defn' (def-ed, paren syntax) | 'fn' (anonymous)"""
        key = (sigkey(sig), creation)
        if key not in self.fns:
            ar = arities_text(sig)
            if creation == "defn":
                self._n += 1
                name = "f%d" % self._n
                v = self.sc.eval("(defn %s %s)" % (name, " ".join("(%s)" % a for a in ar)))
                self.fns[key] = (v.value, v, name)
            else:
                text = "(fn %s)" % (ar[0] if len(ar) == 1 else " ".join("(%s)" % a for a in ar))
                self.fns[key] = (self.sc.eval(text), None, None)
        return self.fns[key]


def sigkey(sig):
    return (tuple(i for i in range(5) if sig["fixed"][str(i)]), sig["var"])


def sig_text(sig):
    fx, var = sigkey(sig)
    parts = ["[%s]" % " ".join("a%d" % i for i in range(1, f + 1)) for f in fx]
    if var >= 0:
        parts.append("[%s]" % " ".join(["a%d" % i for i in range(1, var + 1)] + ["& r"]))
    return " ".join(parts)


def arities_text(sig):
    fx, var = sigkey(sig)
    out = []
    for f in fx:
        ps = " ".join("a%d" % i for i in range(1, f + 1))
        out.append('[%s] (entry "f%d") ["f%d" %s]' % (ps, f, f, ps))
    if var >= 0:
        ps = " ".join("a%d" % i for i in range(1, var + 1))
        out.append('[%s & r] (entry "v%d") ["v%d" %s r]' % (ps, var, var, ps))
    return out


# ---- one call ------------------------------------------------------------------------------------------
def perform(env, sig, call, creation, via):
    """Execute the call for real -> observation dict."""
    f, var, name = env.make(sig, creation)
    p, k, n, inf = call["p"], call["k"], call["n"], call["inf"]
    vals = [BASE + i for i in range(1, p + k + 1)]
    env.reset(endless=inf)
    obs = {}
    try:
        g = f if p == 0 else env.partialc[p](f, *vals[:p])
        if call["how"] == "direct":
            if via == "global":
                caller = env.sc.eval("(fn [] (%s %s))" % (name, " ".join(str(v) for v in vals)))
                ret = caller()
            else:
                ret = env.direct[k](g, *vals[p:])
        elif call["how"] == "var":
            v = var if p == 0 else env.intern("pv", g)
            ret = (env.direct if via == "call" else env.varget)[k](v, *vals[p:])
        else:
            t = env.tail(p + k + 1, None if inf else n)
            ret = env.applyc[k](g, t, *vals[p:])
    except TailOverrun as e:
        obs["exc"] = "TailOverrun"
        obs["family"] = False
        obs["msg"] = str(e)
    except Exception as e:  # noqa
        obs["exc"] = type(e).__name__
        obs["family"] = isinstance(e, arity_error_family(env.rt))
        obs["msg"] = str(e)[:160]
    obs["entered"] = [t for t, _ in env.log]
    obs["realized_at_entry"] = env.log[0][1] if env.log else None
    obs["realized"] = env.realized           # before the driver looks into the rest parameter
    if "exc" in obs:
        return obs
    try:
        items = list(ret)
        obs["tag"] = items[0]
    except Exception as e:  # noqa
        obs["bad_return"] = short(ret)
        return obs
    obs["values"] = [short(x) for x in items[1:]]
    obs["_items"] = items
    return obs


def short(x):
    """a printable stand-in for a value (never realizes a lazy sequence)"""
    if x is None or isinstance(x, (int, str)):
        return x
    return "<%s>" % type(x).__name__


def read_rest(env, r, want, endless):
    """-> description of the real rest parameter comparable with the expected one"""
    if r is None:
        return {"ty": "nil"}
    if not isinstance(r, env.ISeq):
        return {"ty": "not-a-seq", "value": short(r)}
    out, cur = [], r
    try:
        cur = env.rt.to_seq(cur)
        while cur is not None and len(out) < want + (0 if endless else 2):
            out.append(cur.first)
            cur = env.rt.to_seq(cur.rest)
    except Exception as e:  # noqa
        return {"ty": "seq", "els": out, "exc": type(e).__name__}
    return {"ty": "seq", "els": [short(x) for x in out],
            "more": cur is not None}


def judge(env, row, obs):
    """-> list of (clause, expected, observed) -- empty when the real call did what Calls.tla prescribes"""
    exp, call = row["exp"], row["call"]
    bad = []
    if exp["err"]:
        if "exc" not in obs:
            bad.append(("Calls!ArityError", "arity error", {"returned": obs.get("values"), "tag": obs.get("tag")}))
        elif not obs["family"]:
            bad.append(("Calls!ArityError", "arity error (TypeError / RuntimeException)",
                        {"exc": obs["exc"], "msg": obs["msg"]}))
        if obs["entered"]:
            bad.append(("Calls!ErrorBeforeBody", "no body code runs", {"entered": obs["entered"]}))
        if obs["realized"] > row["maxreal"]:
            bad.append(("Calls!LazinessBound", {"max": row["maxreal"]}, {"realized": obs["realized"]}))
        return bad
    if "exc" in obs:
        return [("Calls!OneOutcome", _exp_short(exp), {"exc": obs["exc"], "msg": obs["msg"]})]
    if "bad_return" in obs:
        return [("Calls!OneOutcome", _exp_short(exp), obs["bad_return"])]
    sel = exp["sel"]
    tag = ("f%d" if sel["kind"] == "fixed" else "v%d") % sel["n"]
    if obs["tag"] != tag or obs["entered"] != [tag]:
        bad.append(("Calls!SelectArity", tag, {"returned_by": obs["tag"], "entered": obs["entered"]}))
        return bad
    items = obs["_items"]
    want = [BASE + i for i in exp["bound"]]
    got = items[1:1 + sel["n"]]
    if got != want or any(isinstance(x, bool) for x in got):
        bad.append(("Calls!BindFixed", want, obs["values"][:sel["n"]]))
    if sel["kind"] == "variadic":
        er = exp["rest"]
        if obs["realized_at_entry"] is not None and obs["realized_at_entry"] > row["maxreal"] \
                or obs["realized"] > row["maxreal"]:
            bad.append(("Calls!LazinessBound", {"max": row["maxreal"]},
                        {"realized_at_body_entry": obs["realized_at_entry"], "realized_at_return": obs["realized"]}))
        if er["ty"] == "nil":
            rr = read_rest(env, items[1 + sel["n"]], 0, False)
            if rr != {"ty": "nil"}:
                bad.append(("Calls!BindRest", {"ty": "nil"}, rr))
        else:
            endless = er["to"] >= 99
            cnt = LOOK if endless else er["to"] - er["from"] + 1
            rr = read_rest(env, items[1 + sel["n"]], cnt, endless)
            wantr = {"ty": "seq", "els": [BASE + er["from"] + j for j in range(cnt)], "more": endless}
            if rr != wantr:
                bad.append(("Calls!BindRest", wantr, rr))
    elif obs["realized"] > row["maxreal"]:
        bad.append(("Calls!LazinessBound", {"max": row["maxreal"]}, {"realized": obs["realized"]}))
    return bad


def _exp_short(exp):
    return {"sel": exp["sel"], "bound": exp["bound"], "rest": exp["rest"]}


def variants(call):
    """(creation, via) pairs in which one table row is performed"""
    how, p = call["how"], call["p"]
    if how == "direct":
        vs = [("defn", "local"), ("fn", "local")]
        if p == 0:
            vs.append(("defn", "global"))
    elif how == "var":
        vs = [("defn", "call"), ("defn", "varget"), ("fn", "call")] if p > 0 else [("defn", "call"), ("defn", "varget")]
    else:
        vs = [("defn", "apply"), ("fn", "apply")]
    return vs


def call_text(sig, call, creation, via):
    p, k, n = call["p"], call["k"], call["n"]
    f = "(fn %s)" % sig_text(sig) if creation == "fn" else "f"
    a = lambda lo, hi: " ".join(str(BASE + i) for i in range(lo, hi + 1))
    g = f if p == 0 else "(partial %s %s)" % (f, a(1, p))
    if call["how"] == "direct":
        return "(%s %s)" % (g, a(p + 1, p + k))
    if call["how"] == "var":
        return "(%s %s) ; %s held by a Var" % ("#'v" if via == "call" else "(var-get #'v)", a(p + 1, p + k), g)
    return "(apply %s %s <lazy tail %s>)" % (g, a(p + 1, p + k),
                                            "endless" if call["inf"] else "of %d" % n)


# ---- recur ---------------------------------------------------------------------------------------------
def recur_fn_text(sig, sel, last, rounds):
    """the fn of signature sig whose arity `sel` recurs `rounds` times, the last recur argument being `last`"""
    fx, var = sigkey(sig)
    out = []
    for f in fx:
        ps = " ".join("a%d" % i for i in range(1, f + 1))
        if sel["kind"] == "fixed" and sel["n"] == f:
            args = ["(arg %d)" % i for i in range(1, f + 1)]
            if f > 0 and last != "val":
                args[-1] = {"nil": "nil", "seq1": "(sq %d 1)" % f, "seq2": "(sq %d 2)" % f}[last]
            out.append('[%s] (entry "f%d") (if (< (tick) %d) (recur %s) ["f%d" %s])'
                       % (ps, f, rounds + 1, " ".join(args), f, ps))
        else:
            out.append('[%s] (entry "f%d") ["f%d" %s]' % (ps, f, f, ps))
    if var >= 0:
        ps = " ".join("a%d" % i for i in range(1, var + 1))
        if sel["kind"] == "variadic":
            args = ["(arg %d)" % i for i in range(1, var + 1)]
            args.append({"nil": "nil", "seq1": "(sq %d 1)" % (var + 1), "seq2": "(sq %d 2)" % (var + 1)}[last])
            out.append('[%s & r] (entry "v%d") (if (< (tick) %d) (recur %s) ["v%d" %s r])'
                       % (ps, var, rounds + 1, " ".join(args), var, ps))
        else:
            out.append('[%s & r] (entry "v%d") ["v%d" %s r]' % (ps, var, var, ps))
    return "(fn %s)" % (out[0] if len(out) == 1 else " ".join("(%s)" % a for a in out))


def perform_recur(env, row, rounds):
    sig, sel, last = row["sig"], row["sel"], row["last"]
    text = recur_fn_text(sig, sel, last, rounds)
    nargs = sel["n"] + (1 if sel["kind"] == "variadic" else 0)
    env.reset()
    env.lastseq = None
    tag = ("f%d" if sel["kind"] == "fixed" else "v%d") % sel["n"]
    # expected: the row is the state after ONE recur (arguments named 10*1 + i); after `rounds` recurs the same
    # with 10*rounds -- a renaming of the row, not a recomputation
    shift = 10 * (rounds - 1)
    want = [BASE + b + shift for b in row["bound"]]
    try:
        f = env.sc.eval(text)
        ret = list(f(*[BASE + i for i in range(1, nargs + 1)]))
    except Exception as e:  # noqa
        return text, [("Calls!Recur", {"tag": tag, "bound": want, "rest": row["rest"]},
                       {"exc": type(e).__name__, "msg": str(e)[:160], "entered": [t for t, _ in env.log]})]
    bad = []
    if env.log != [(tag, 0)] * (rounds + 1):
        bad.append(("Calls!Recur(entered)", [tag] * (rounds + 1), [t for t, _ in env.log]))
    got = ret[1:1 + sel["n"]]
    if sel["kind"] == "fixed" and sel["n"] > 0 and last != "val":
        # the last parameter takes the last recur argument as given: nil, or that very sequence object
        lastwant = None if last == "nil" else env.lastseq
        ok = got[:-1] == want[:-1] and (got[-1] is lastwant)
        if not ok:
            bad.append(("Calls!Recur(bound)", want[:-1] + [last], [short(x) for x in got]))
    elif got != want:
        bad.append(("Calls!Recur(bound)", want, [short(x) for x in got]))
    if sel["kind"] == "variadic":
        er = row["rest"]
        if er["ty"] == "nil":
            rr = read_rest(env, ret[1 + sel["n"]], 0, False)
            wantr = {"ty": "nil"}
        else:
            cnt = er["to"] - er["from"] + 1
            rr = read_rest(env, ret[1 + sel["n"]], cnt, False)
            wantr = {"ty": "seq", "els": [BASE + er["from"] + shift + j for j in range(cnt)], "more": False}
        if rr != wantr:
            bad.append(("Calls!Recur(rest)", wantr, rr))
    return text, bad


# ---- stack depth ------------------------------------------------------------------------------------------
STACK_FNS = [
    ("loop", "(fn [n] (loop [i 1] (probe i) (if (< i n) (recur (inc i)) i)))", "n"),
    ("loop-in-let", "(fn [n] (loop [i 1 acc 0] (probe i) (let [j (inc i)] (if (< i n) (recur j (+ acc 1)) i))))", "n"),
    ("nested-loops", "(fn [n] (loop [i 1] (probe i) (loop [q 0] (when (< q 2) (recur (inc q)))) "
                     "(if (< i n) (recur (inc i)) i)))", "n"),
    ("fn-recur", "(fn [i n] (probe i) (if (< i n) (recur (inc i) n) i))", "1n"),
    ("fn-recur-named", "(fn self [i n] (probe i) (if (< i n) (recur (inc i) n) i))", "1n"),
    ("fn-recur-in-let-when", "(fn [i n] (probe i) (let [j (inc i)] (when true (if (< i n) (recur j n) i))))", "1n"),
    ("fn-recur-cond", "(fn [i n] (probe i) (cond (< i n) (recur (inc i) n) :else i))", "1n"),
    ("fn-recur-variadic", "(fn [i n & r] (probe i) (if (< i n) (recur (inc i) n r) i))", "1n+"),
    ("fn-recur-variadic-nil", "(fn [i n & r] (probe i) (if (< i n) (recur (inc i) n nil) i))", "1n+"),
    ("multi-fixed", "(fn ([n] :one) ([i n] (probe i) (if (< i n) (recur (inc i) n) i)))", "1n"),
    ("multi-fixed-with-variadic", "(fn ([i n] (probe i) (if (< i n) (recur (inc i) n) i)) ([i n & r] :rest))", "1n"),
    ("multi-variadic", "(fn ([n] :one) ([i n & r] (probe i) (if (< i n) (recur (inc i) n r) i)))", "1n+"),
    ("defn-recur", "(defn sr [i n] (probe i) (if (< i n) (recur (inc i) n) i))", "1n"),
    ("loop-in-fn-recur", "(fn [i n] (probe i) (loop [q 0] (when (< q 1) (recur (inc q)))) "
                         "(if (< i n) (recur (inc i) n) i))", "1n"),
]


def stack_case(env, name, text, argk, n, how):
    samples = sorted({1, 10, 1000, n} if n >= 1000 else {1, 10, n})
    env.sample_at = frozenset(samples)
    env.frames = {}
    f = env.sc.eval(text)
    if isinstance(f, env.rt.Var):
        f = f.value
    args = {"n": [n], "1n": [1, n], "1n+": [1, n, 7, 8]}[argk]
    try:
        if how == "direct":
            ret = env.direct[len(args)](f, *args)
        elif how == "apply":
            from basilisp.lang import vector as vec
            ret = env.applyc[1](f, vec.vector(args[1:]), args[0]) if len(args) > 1 else \
                env.applyc[0](f, vec.vector(args))
        elif how == "partial":
            ret = env.direct[len(args) - 1](env.partialc[1](f, args[0]), *args[1:])
        else:
            v = env.intern("sv", f)
            ret = env.direct[len(args)](v, *args)
    except Exception as e:  # noqa
        return samples, {"exc": type(e).__name__, "msg": str(e)[:120], "frames": dict(env.frames)}
    return samples, {"ret": ret, "frames": dict(env.frames)}


# ---- driver --------------------------------------------------------------------------------------------------
_ENVS = None
POOL = int(os.environ.get("VERIF_POOL") or 16)
TLC_WORKERS = int(os.environ.get("VERIF_TLC_WORKERS") or 16)


def envs():
    global _ENVS
    if _ENVS is None:
        logging.getLogger("basilisp").setLevel(logging.ERROR)
        _ENVS = [Env("direct-link"), Env("var-indirection", use_var_indirection=True)]
    return _ENVS


def _neg_job(m):
    """a negative TLC job in a pool worker (own process: own TLC meta directory counter)"""
    try:
        rn = tlc.run("Calls", "Calls_Neg_%s.cfg" % m, timeout=900, workers=2)
    except Exception as e:  # noqa
        return {"error": str(e)[-800:]}
    return {"distinct": rn.distinct, "generated": rn.generated, "wall": rn.wall, "violated": rn.violated}


def model(chk, neg=True, pool=None):
    negres = pool.map_async(_neg_job, NEG, chunksize=1) if neg and pool is not None else None
    r = tlc.run("Calls", "Calls_MC.cfg", timeout=3000, workers=TLC_WORKERS)
    chk.add_tlc("Calls_MC", r)
    if r.violated or not r.ok:
        chk.machinery("Calls.tla breaks its own invariants: %s\n%s" % (r.violated, r.error_trace()[:1500]))
        return None, None
    if negres is not None:
        want = {"eager": "LazinessBound", "gt": "OneOutcome", "grow": "DepthConstant", "body": "ErrorBeforeBody",
                "restnil": "RestNeverEmptySeq"}
        for m, rn in zip(NEG, negres.get()):
            if "error" in rn:
                chk.machinery("Calls_Neg_%s failed: %s" % (m, rn["error"]))
                continue
            chk.add_tlc("Calls_Neg_%s (must be rejected)" % m,
                        types.SimpleNamespace(distinct=rn["distinct"], generated=rn["generated"], wall=rn["wall"]))
            if want[m] not in rn["violated"]:
                chk.machinery("anti-vacuity: machine mutant '%s' is not rejected by %s (violated: %s)"
                              % (m, want[m], rn["violated"]))
    return r.tagged("TAB"), r.tagged("REC")


def _job(spec):
    """one unit of work in a forked worker -> dict(n, nontriv, disc)"""
    kind = spec[0]
    E = envs()
    out = {"n": 0, "nontriv": [], "disc": [], "depths": {}}
    if kind == "calls":
        for row in spec[1]:
            sig, call = row["sig"], row["call"]
            fx, var = sigkey(sig)
            trivial = call["how"] == "direct" and call["p"] == 0 and len(fx) + (var >= 0) == 1
            for env in E:
                for creation, via in variants(call):
                    obs = perform(env, sig, call, creation, via)
                    out["n"] += 1
                    for clause, exp, got in judge(env, row, obs):
                        case = {"kind": "call", "sig": sig, "call": call, "creation": creation, "via": via,
                                "opts": env.label, "fn": "(fn %s)" % sig_text(sig),
                                "text": call_text(sig, call, creation, via)}
                        out["disc"].append((clause, case, exp, got, call_sig(clause, sig, call, exp, got)))
            if not trivial:
                out["nontriv"].append(("call", fx, var, call["how"], call["p"], call["k"], call["n"], call["inf"]))
    elif kind == "recur":
        _, rows, thorough = spec
        for row in rows:
            for env in (E if thorough else E[:1]):
                for rounds in ((1, 3) if thorough else (1,)):
                    text, bad = perform_recur(env, row, rounds)
                    out["n"] += 1
                    for clause, exp, got in bad:
                        case = {"kind": "recur", "row": row, "rounds": rounds, "opts": env.label, "text": text}
                        out["disc"].append((clause, case, exp, got, recur_sig(clause, row, got)))
            out["nontriv"].append(("recur", sigkey(row["sig"]), row["sel"]["kind"], row["sel"]["n"], row["last"]))
    else:
        _, name, text, argk, n, how, ei = spec
        env = E[ei]
        samples, obs = stack_case(env, name, text, argk, n, how)
        out["n"] += 1
        out["nontriv"].append(("stack", name, how, env.label))
        fr = obs["frames"]
        ok = "exc" not in obs and sorted(fr) == samples and len(set(fr.values())) == 1 \
            and obs.get("ret") == samples[-1]
        out["depths"]["%s/%s/%s" % (name, how, env.label)] = sorted(set(fr.values()))
        if not ok:
            if "ret" in obs:
                obs["ret"] = short(obs["ret"])
            out["disc"].append((
                "Calls!DepthConstant",
                {"kind": "stack", "name": name, "text": text, "args": argk, "how": how, "n": samples[-1],
                 "opts": env.label},
                "the same frame depth at iterations %s and the result %d" % (samples, samples[-1]), obs,
                "stack:%s/%s:%s" % (name, how, ("exc=" + obs["exc"]) if "exc" in obs else "depth-varies")))
    return out


def _results(pool, it):
    """iterate over pool results, but do not wait forever when a worker process has been killed (multiprocessing
    replaces a dead worker silently and its task is lost)"""
    pids = sorted(p.pid for p in getattr(pool, "_pool", []))
    while True:
        try:
            yield it.next(timeout=120)
        except StopIteration:
            return
        except mp.TimeoutError:
            if sorted(p.pid for p in getattr(pool, "_pool", [])) != pids:
                raise RuntimeError("a worker process of the pool died (killed from outside?): results are "
                                   "incomplete, run the check again")


def run(chk):
    boot.init()
    chk.rule = ("table: every (arity signature x call shape x argument count) row of Calls.tla performed on the real "
                "fn/defn in 2-3 concrete variants under direct linking and var indirection; recur: every (signature, "
                "running arity, last recur argument) row; stack: frame depth at iterations 1/10/10^3/10^5(10^6); "
                "non-trivial = a call that is not a plain direct call of a single-arity fn")
    pool = mp.get_context("fork").Pool(POOL)          # forked before any thread exists in this process
    try:
        rows, recs = model(chk, neg=True, pool=pool)
        if rows is None:
            return
        thorough = chk.tier != "quick"
        bysig = {}
        for row in rows:
            bysig.setdefault(sigkey(row["sig"]), []).append(row)
        jobs = []
        n = 10 ** 5 if not thorough else 10 ** 6
        for name, text, argk in STACK_FNS:       # the long ones first
            hows = ["direct"] if argk == "n" else ["direct", "apply", "partial", "var"]
            for how in hows:
                for ei in ((0, 1) if how == "direct" else (0,)):
                    jobs.append(("stack", name, text, argk, n if how == "direct" else 10 ** 4, how, ei))
        for key in sorted(bysig):
            rs = bysig[key]
            for off in range(0, len(rs), 120):
                jobs.append(("calls", rs[off:off + 120]))
        byrs = {}
        for row in recs:
            byrs.setdefault(sigkey(row["sig"]), []).append(row)
        for key in sorted(byrs):
            jobs.append(("recur", byrs[key], thorough))
        ncase, depths = 0, {}
        for out in _results(pool, pool.imap_unordered(_job, jobs, chunksize=1)):
            chk.count(out["n"], traces=out["n"])
            ncase += out["n"]
            depths.update(out["depths"])
            for k in out["nontriv"]:
                chk.nontriv(k)
            for clause, case, exp, got, sig in out["disc"]:
                chk.discrepancy(clause, case, exp, got, sig=sig, module="Calls", direction="spec->code")
    finally:
        pool.terminate()
    chk.discrepancies.sort(key=lambda d: (d["clause"], d["sig"], json.dumps(d["case"], sort_keys=True, default=str)))
    chk.sample({"row": rows[len(rows) // 2]})
    chk.sample({"recur_row": recs[len(recs) // 2]})
    chk.extra.update({"table_rows": len(rows), "recur_rows": len(recs), "executions": ncase,
                      "signatures": len(bysig), "stack_iterations": n, "frame_depths": depths,
                      "arity_error_family": "TypeError | basilisp.lang.runtime.RuntimeException",
                      "laziness_bound": "variadic signature: max(0, F - eager) + 1; no variadic arity: the finite tail"})
    chk.exhaustive = True


def call_sig(clause, sig, call, exp, got):
    """family signature: the exact input class and the exact wrong outcome"""
    fx, var = sigkey(sig)
    s = "sig=%s%s" % (",".join(map(str, fx)), ("&%d" % var) if var >= 0 else "")
    c = "%s/p%d/k%d/%s" % (call["how"], call["p"], call["k"], "inf" if call["inf"] else "n%d" % call["n"])
    if isinstance(got, dict) and "exc" in got:
        o = "exc=" + got["exc"]
    elif isinstance(got, dict) and "realized" in got:
        o = "realized=%s" % got["realized"]
    else:
        o = "got=" + json.dumps(got, sort_keys=True, default=str)[:80]
    return "call:%s:%s:%s:%s" % (clause.split("!")[-1], s, c, o)


def recur_sig(clause, row, got):
    """family signature: running arity class x kind of the last recur argument x wrong outcome"""
    fx, var = sigkey(row["sig"])
    cls = row["sel"]["kind"] + "-arity"
    if row["sel"]["kind"] == "fixed":
        cls += "-of-variadic-fn" if var >= 0 else "-of-fixed-fn"
    o = ("exc=" + got["exc"]) if isinstance(got, dict) and "exc" in got else "wrong-binding"
    return "recur:into-%s:last=%s:%s:%s" % (cls, row["last"], clause.split("!")[-1], o)


def replay(chk, body):
    boot.init()
    case = body["case"]
    env = {e.label: e for e in envs()}[case["opts"]]
    chk.count(1, traces=1)
    print("replaying:", case.get("text"), " under", case["opts"])
    if case["kind"] == "call":
        rows, _ = model(chk, neg=False)
        if rows is None:
            return
        row = next(r for r in rows if r["sig"] == case["sig"] and r["call"] == case["call"])
        obs = perform(env, case["sig"], case["call"], case["creation"], case["via"])
        print("expected:", row["exp"], "max realized:", row["maxreal"])
        print("observed:", {k: v for k, v in obs.items() if k != "_items"})
        for clause, exp, got in judge(env, row, obs):
            chk.discrepancy(clause, case, exp, got, sig=body.get("sig"), module="Calls", direction="replay")
    elif case["kind"] == "recur":
        text, bad = perform_recur(env, case["row"], case["rounds"])
        print("fn:", text)
        print("expected after recur:", case["row"])
        print("mismatches:", bad)
        for clause, exp, got in bad:
            chk.discrepancy(clause, case, exp, got, sig=body.get("sig"), module="Calls", direction="replay")
    else:
        samples, obs = stack_case(env, case["name"], case["text"], case["args"], case["n"], case["how"])
        print("frame depth by iteration:", obs)
        fr = obs["frames"]
        if "exc" in obs or sorted(fr) != samples or len(set(fr.values())) != 1:
            chk.discrepancy(body["clause"], case, body["expected"], obs, sig=body.get("sig"), module="Calls",
                            direction="replay")
