"""C15 -- the Python-AST optimization pass never changes what generated code does.

design check  Opt_MC: on a small Python-like language every (before, after) related by the allowed rewrites
              of Opt.tla has the same result / exception / effect order; with a deviation on TLC must object.
code -> spec  (a) every invocation of the real PythonASTOptimizer while the bundled namespaces are compiled
              from source: changed (before, after) pairs are encoded (pyast_enc) and TLC decides Conforms;
              (b) the C01 corpus and operator-specific programs are executed with the pass on and off; programs
              whose observations differ have their own (before, after) pairs classified by TLC.
"""
import ast
import copy
import glob
import json
import multiprocessing as mp
import os
import random
import shutil

import langcheck
import langgen as G
import langrun
import repo
import tlc


def namespaces(tier):
    root = os.path.join(repo.SRC, "basilisp")
    out = []
    for p in sorted(glob.glob(os.path.join(root, "**", "*.lpy"), recursive=True)):
        rel = os.path.relpath(p, repo.SRC)[:-4].replace(os.sep, ".")
        if rel == "basilisp.core":
            continue
        out.append(rel)
    if tier == "quick":
        keep = {"basilisp.string", "basilisp.set", "basilisp.walk", "basilisp.edn", "basilisp.data"}
        out = [n for n in out if n in keep]
    return out


def collect(chk, nss):
    d = os.path.join(repo.WORK, "c15_%d" % os.getpid())
    shutil.rmtree(d, ignore_errors=True)
    os.makedirs(d)
    out = os.path.join(d, "out.json")
    try:
        p = repo.run_child([os.path.join(repo.HARNESS, "c15_collect.py"), out] + nss, timeout=3000,
                           extra={"PYTHONPYCACHEPREFIX": os.path.join(d, "pyc")})
        if not os.path.exists(out):
            chk.machinery("collector failed: " + p.stderr[-1500:])
            return None
        return json.load(open(out))
    finally:
        shutil.rmtree(d, ignore_errors=True)


def classify(chk, pairs, name):
    """pairs: list of dict(before, after) -> list of dev lists ([] = conforms)"""
    res = [None] * len(pairs)
    B = 400
    for off in range(0, len(pairs), B):
        part = [{"before": p["before"], "after": p["after"]} for p in pairs[off:off + B]]
        path = tlc.write_json("opt_%s_%d" % (name, off), part)
        r = tlc.run("Opt_Trace", "Opt_Trace.cfg", env={"TRACE_FILE": path}, timeout=3000, stack="256m")
        chk.add_tlc("Opt_Trace[%s %d..]" % (name, off), r)
        for i in r.tagged("ACC"):
            res[off + i - 1] = []
        for x in r.tagged("REJ"):
            res[off + x["id"] - 1] = x["devs"]
    for i, v in enumerate(res):
        if v is None:
            res[i] = ["unexplained"]
            chk.machinery("Opt_Trace gave no verdict for pair %d of %s" % (i, name))
    return res


# ---- programs that exercise the operator rewrites (executed with the pass on and off) ----------------
OP_PROGRAMS = [
    "(identical? 1 1)", "(identical? nil nil)", "(identical? :a :a)", "(let [x 1.0] (identical? x 1))",
    "(let [x 1] (identical? x 1.0))", "(let [x true] (identical? x 1))", "(let [x \"ab\"] (identical? x \"ab\"))",
    "(let [x 1.0] (not (identical? x 1)))", "(let [x [1]] (identical? x [1]))",
    "(operator/contains [1 2] 1)", "(operator/contains (m 1 [1 2]) (m 2 1))", "(let [c [1 2] x 2] (operator/contains c x))",
    "(operator/contains (python/range -128 128) 5)",
    "(let [d (python/dict {1 2})] (operator/delitem d 1) (python/len d))",
    "(let [d (python/dict {1 2}) r (operator/delitem d 1)] [r (python/len d)])",
    "(operator/getitem (m 1 [5 6]) (m 2 1))", "(operator/add (m 1 1) (m 2 2))", "(operator/sub (m 1 5) (m 2 2))",
    "(operator/lt (m 1 1) (m 2 2))", "(operator/not_ (m 1 nil))", "(operator/is_ (m 1 nil) (m 2 nil))",
    "(operator/is_not (m 1 1) (m 2 2))", "(operator/mod (m 1 7) (m 2 3))", "(operator/truediv (m 1 1) (m 2 0))",
    "(+ (m 1 1) (m 2 2) (m 3 3))", "(- (m 1 1))", "(* (m 1 2) (m 2 3))", "(< (m 1 1) (m 2 2) (m 3 3))",
    "(= (m 1 1) (m 2 1))", "(bit-and (m 1 6) (m 2 3))", "(bit-or (m 1 4) (m 2 1))", "(bit-xor (m 1 7) (m 2 2))",
    "(bit-shift-left (m 1 1) (m 2 3))", "(bit-not (m 1 5))", "(quot (m 1 7) (m 2 2))", "(not= (m 1 1) (m 2 2))",
    "(nil? (m 1 nil))", "(some? (m 1 nil))", "(do 1 2 (m 1) 3)", "((fn [] 1 (m 1) :k (m 2)))",
    "(do (if (m 1) nil nil) (m 2))", "((fn [] (if (m 1 nil) 5 nil) (m 2)))",
    "((fn [x] (if x (throw (python/ValueError \"x\")) 1) (m 1)) nil)",
    "(loop [i 0] (if (< i 2) (recur (inc i)) (do (m 1) i)))",
]


# forms in statement position (value discarded): only constants and bare names may vanish
STMT_FORMS = ["1", ":k", "x", "\"s\"", "(.-p1 o)", "(.-p1 x)", "(.-p2 (m 1 o))", "(.-nosuch o)", "(.-nosuch x)", "(.-real 1)",
              "(operator/getitem #py [1] 5)", "(operator/add 1 \"a\")", "(operator/contains 1 1)", "(operator/not_ x)",
              "(if (m 1 nil) nil nil)", "(if (.-p1 o) nil nil)", "(if (.-nosuch o) nil nil)", "(if x nil nil)",
              "(if (operator/getitem #py [] 0) nil nil)", "(.m1 o)", "(python/abs \"a\")"]
STMT_CTX = ["(let [x o] %s (m 9))", "((fn [x] %s (m 9)) o)", "(let [x o] (do %s (m 8)) (m 9))",
            "(let [x o] (try %s (m 8) (catch python/Exception _ (m 7)) (finally (m 9))))",
            "(let [x o] (loop [i 0] %s (if (< i 1) (recur (inc i)) (m 9))))"]
# def of one name in nested functions (every function needs its own `global` declaration), dead code after
# throw / recur / return in every kind of block
BLOCK_PROGRAMS = [
    "((fn [] (def ga 1) ((fn [] (def ga 2))) ga))", "((fn [] (def ga 1) (def ga 2) ga))",
    "((fn [] (def ga 1) ((fn [] ((fn [] (def ga 3))))) ga))", "(do (def ga 1) ((fn [] (def ga 2))) ga)",
    "((fn [] (def ga 1) (def gb 2) ((fn [] (def gb 5) (def ga 6))) [ga gb]))",
    "((fn [] (def ga 1) (let [f (fn [v] (def ga v))] (f 7) (f 8)) ga))",
    "((fn [] ((fn [] (def ga 2))) (def ga 1) ((fn [] (def ga 4) (def ga 5))) ga))",
    "((fn [] (m 1) (throw (python/ValueError \"v\")) (m 2)))",
    "((fn [x] (if x (do (m 1) (throw (python/ValueError \"v\")) (m 2)) (m 3)) (m 4)) true)",
    "(try (m 1) (throw (python/ValueError \"v\")) (m 2) (catch python/ValueError _ (m 3) (throw (python/KeyError 1)) (m 4)) (finally (m 5)))",
    "(try (try (m 1) (finally (m 2) (throw (python/ValueError \"v\")) (m 3))) (catch python/ValueError _ (m 4)))",
    "(try (m 1) (catch python/ValueError _ (m 2)) (finally (m 3)))", "(try (m 1) (finally nil))", "(try (m 1) (finally 1 :k))",
    "(loop [i 0] (m i) (if (< i 2) (recur (inc i)) (do (m 7) i)))",
    "(loop [i 0] (if (< i 2) (do (m i) (recur (inc i))) nil))",
    "((fn [x] (if x nil (m 1)) (m 2)) nil)", "((fn [x] (if x (m 1) nil) (m 2)) nil)", "((fn [x] (if x nil nil) (m 2)) (m 1))",
    "((fn [x] (if (m 1 x) nil (m 2)) (m 3)) true)", "((fn [x] (if (.-p1 x) nil (m 2)) (m 3)) o)",
    "((fn [x] (when-not (.-p1 x) (m 2)) (m 3)) o)", "((fn [x] (cond (m 1 x) nil :else nil) (m 3)) 1)",
]


def op_family(rnd, quick):
    """every operator the pass rewrites, over operand shapes constant / name / call / operator-expression holding a call
    / subscript holding a call / attribute of a call; the marker calls make the order of evaluation observable"""
    def shapes(v, zero, k):
        out = [("lit", v), ("name", "xy"[k - 1]), ("call", "(m %d %s)" % (k, v)),
               ("sub", "(operator/getitem (m %d #py [%s]) 0)" % (k, v))]
        if zero is not None:
            out.append(("bin", "(operator/add (m %d %s) %s)" % (k, v, zero)))
        if zero == "0":
            out.append(("attr", "(.-real (m %d %s))" % (k, v)))
        return out
    progs = []
    binops = ["add", "sub", "mul", "mod", "floordiv", "truediv", "pow", "lshift", "rshift", "and_", "or_", "xor",
              "lt", "le", "eq", "ne", "gt", "ge", "is_", "is_not"]
    cases = [(op, "6", "0", "3", "0") for op in binops]
    cases += [("contains", "#py [1 2]", "#py []", "2", "0"), ("contains", "#py [1 2]", "#py []", "1.0", None),
              ("contains", "\"abc\"", "\"\"", "\"b\"", "\"\""), ("contains", "5", None, "2", "0"),
              ("getitem", "#py [1 2]", "#py []", "1", "0"), ("getitem", "#py [1 2]", "#py []", "7", "0"),
              ("getitem", "{:a 1}", None, ":a", None), ("truediv", "6", "0", "0", "0"), ("is_", "1.0", None, "1", "0"),
              ("is_not", "nil", None, "nil", None), ("eq", "1.0", None, "1", "0"), ("matmul", "6", "0", "3", "0")]
    for op, a, za, b, zb in cases:
        for sa, ta in shapes(a, za, 1):
            for sb, tb in shapes(b, zb, 2):
                body = "(operator/%s %s %s)" % (op, ta, tb)
                progs.append("(let [x %s y %s] %s)" % (a, b, body))
    for op in ["not_", "inv", "neg"]:
        for sa, ta in shapes("6", "0", 1):
            progs.append("(let [x 6] (operator/%s %s))" % (op, ta))
    for f in STMT_FORMS:
        for c in STMT_CTX:
            progs.append(c % f)
    must = [q for q in progs if "contains" in q or "(m 9)" in q]
    rest = [q for q in progs if q not in set(must)]
    if quick:
        rnd.shuffle(rest)
        rest = rest[:200]
    return BLOCK_PROGRAMS + must + rest


def _dup_global(text):
    import re
    names = re.findall(r"\(def (\w+) ", text)
    return len(names) != len(set(names))


def _ops_job(texts):
    return run_ops(texts)


class _Capture:
    def __init__(self, real):
        self.real = real
        self.pairs = []

    def visit(self, node):
        before = copy.deepcopy(node)
        after = self.real.visit(node)
        if ast.dump(before) != ast.dump(after):
            import pyast_enc as E
            self.pairs.append({"before": E.module(before), "after": E.module(after)})
        return after


def run_ops(texts):
    """-> list of (text, obs_on, obs_off, pairs)"""
    import boot
    boot.init()
    on = langrun.Runner({})
    off = langrun.Runner({"__noopt": True})
    out = []
    for t in texts:
        on._fresh()
        cap = _Capture(on.sc.ctx._optimizer)
        on.sc.ctx._optimizer = cap
        text = "(import operator) " + t
        a = on.run(text)
        off._fresh()
        b = off.run(text)
        out.append((t, a, b, cap.pairs))
    return out


def _has_mdup(e):
    if isinstance(e, dict):
        return bool(e.get("mdup")) or any(_has_mdup(v) for v in e.values())
    if isinstance(e, list):
        return any(_has_mdup(x) for x in e)
    return False


def _diff_job(arg):
    items, noopt = arg
    return langrun.run_batch((items, {"__noopt": True} if noopt else {}))


def run(chk):
    rnd = random.Random(chk.seed)
    chk.rule = ("(a) every optimizer invocation while compiling bundled namespaces from source: changed pairs decided "
                "by TLC (Opt.tla Conforms); (b) programs executed with the pass on and off; non-trivial = changed "
                "(before, after) pair, or a program whose generated code the pass changes")
    # ---- design check ------------------------------------------------------------------------------
    for cfg, must_hold in [("Opt_MCq.cfg" if chk.tier == "quick" else "Opt_MC.cfg", True),
                           ("Opt_MC_DevIs.cfg", False), ("Opt_MC_DevContains.cfg", False)]:
        r = tlc.run("Opt_MC", cfg, timeout=3000)
        chk.add_tlc(cfg, r)
        if must_hold and (r.violated or not r.ok):
            chk.machinery("design check %s fails: %s\n%s" % (cfg, r.violated, r.error_trace()[:1200]))
        if not must_hold and "RewritePreserves" not in r.violated:
            chk.machinery("anti-vacuity: %s does not reject the deviation" % cfg)
    # ---- (a) bundled namespaces ----------------------------------------------------------------------
    nss = namespaces(chk.tier)
    data = collect(chk, nss)
    if data is not None:
        units = data["units"]
        st = data["stats"]
        chk.count(st["invocations"], traces=st["invocations"])
        chk.extra.update({"optimizer_invocations": st["invocations"], "changed_units": st["changed"],
                          "ast_nodes": st["nodes"], "namespaces": ["basilisp.core"] + nss,
                          "namespaces_failed_to_import": data["failed"]})
        verdicts = classify(chk, units, "ns")
        for u, devs in zip(units, verdicts):
            chk.nontriv(("unit", u["ns"], u["n"]))
            if devs:
                sig = "dev:" + "+".join(devs) if devs != ["unexplained"] else None
                chk.discrepancy("Opt!Conforms", {"kind": "unit", "ns": u["ns"], "n": u["n"], "src": u["src"][:600],
                                                 "before": u["before"], "after": u["after"]},
                                "after is obtained from before by the allowed rewrites only",
                                "not related" + ("" if sig is None else " unless " + sig), sig=sig,
                                module="Opt_Trace", direction="code->spec")
        for u in units[:: max(1, len(units) // 3)][:3]:
            chk.sample({"ns": u["ns"], "unit": u["n"], "python_before": u["src"][:300]})
    # ---- (b) execution with and without the pass -------------------------------------------------------
    fam = op_family(rnd, chk.tier == "quick")
    chk.extra["operator_family_programs"] = len(fam)
    with mp.get_context("fork").Pool(16) as pool:
        parts = pool.map(_ops_job, [fam[i::16] for i in range(16)], chunksize=1)
    res = run_ops(OP_PROGRAMS) + [r for part in parts for r in part]
    pairs, owner = [], []
    for t, a, b, ps in res:
        chk.count(2, traces=1)
        if ps:
            chk.nontriv(("op", t))
        for p in ps:
            pairs.append(p)
            owner.append(t)
    pv = classify(chk, pairs, "ops") if pairs else []
    devs_of = {}
    for t, v in zip(owner, pv):
        devs_of.setdefault(t, set()).update(v)
    for t, a, b, ps in res:
        ds = sorted(devs_of.get(t, set()))
        if not ds and a != b and b[0] == "exc" and b[1].get("c") == "SyntaxError" and ps and _dup_global(t):
            # two defs of one name in one function: the generator emits `global n` twice and leaves it to this pass
            # (DedupGlobal, an allowed rewrite) to make the module valid Python -- without the pass there is no
            # behaviour to compare with; the (before, after) pairs of the program were still decided by TLC above
            chk.extra["no_oracle_without_pass(duplicate global)"] = chk.extra.get("no_oracle_without_pass(duplicate global)", 0) + 1
            continue
        if a != b or ds:
            sig = None
            if ds and "unexplained" not in ds:
                sig = "dev:" + "+".join(d for d in ["IsBecomesEq", "ContainsSwaps", "DelitemAsExpr"] if d in ds)
            chk.discrepancy("Opt!RewritePreserves(exec)" if a != b else "Opt!Conforms",
                            {"kind": "op", "text": t}, {"with_pass_off": b}, {"with_pass_on": a, "devs": ds}, sig=sig,
                            module="Opt_Trace", direction="code->spec")
    items = langcheck.corpus(chk.tier, chk.seed)
    # quick: every 4th program of the quick corpus; thorough: every 3rd of the (20x larger) thorough corpus --
    # each program is compiled and executed twice (pass on / off)
    items = items[::4] if chk.tier == "quick" else items[::3]
    chk.extra["corpus_stride"] = 4 if chk.tier == "quick" else 3
    texts = [(i, G.pr(it["prog"])) for i, it in enumerate(items)]
    jobs = []
    for off in range(0, len(texts), 300):
        jobs.append((texts[off:off + 300], False))
        jobs.append((texts[off:off + 300], True))
    with mp.get_context("fork").Pool(16) as pool:
        out = pool.map(_diff_job, jobs, chunksize=1)
    on, offr = {}, {}
    for (part, noopt), rs in zip(jobs, out):
        for r in rs:
            (offr if noopt else on)[r[0]] = r[1:]
    for i, text in texts:
        chk.count(2, traces=1)
        if on[i] != offr[i]:
            # F-C01-munge-params seen through this property: a fn whose parameters collide after munging is a
            # Python SyntaxError; when it sits in code the pass drops as unreachable the program compiles only WITH
            # the pass.  Signature = that input class + exactly that outcome; anything else stays unexplained.
            sig = None
            if offr[i][0] == "exc" and offr[i][1].get("c") == "SyntaxError" and _has_mdup(G.annotate(items[i]["prog"])):
                sig = "dev:MungeParams(unreachable-code-dropped)"
            chk.discrepancy("Opt!RewritePreserves(exec)", {"kind": "prog", "text": text},
                            {"with_pass_off": offr[i]}, {"with_pass_on": on[i]}, sig=sig, module="Opt",
                            direction="code->spec")
    chk.extra["programs_executed_both_ways"] = len(texts) + len(OP_PROGRAMS) + len(fam)


def replay(chk, body):
    case = body["case"]
    if case["kind"] == "unit":
        v = classify(chk, [{"before": case["before"], "after": case["after"]}], "replay")
        print("python before:\n", case.get("src"))
        print("verdict:", v[0] or "conforms")
        chk.count(1, traces=1)
        if v[0]:
            chk.discrepancy(body["clause"], case, body["expected"], "devs=%s" % v[0],
                            sig=("dev:" + "+".join(v[0])) if v[0] != ["unexplained"] else None, direction="replay")
    else:
        text = case["text"]
        (t, a, b, ps), = run_ops([text]) if case["kind"] == "op" else [(text,) + _both(text) + ([],)]
        print("with pass on :", a)
        print("with pass off:", b)
        chk.count(2, traces=1)
        if a != b:
            chk.discrepancy(body["clause"], case, {"with_pass_off": b}, {"with_pass_on": a}, direction="replay")


def _both(text):
    a = langrun.run_batch(([(0, text)], {}))[0][1:]
    b = langrun.run_batch(([(0, text)], {"__noopt": True}))[0][1:]
    return a, b
