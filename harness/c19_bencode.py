"""C19, bencode half -- encode then decode is the identity on its domain; decoding a concatenation of
messages cut at any byte boundary yields exactly the complete messages in order plus the untouched
remainder, never a partial message decoded as complete.

design check:  Bencode.tla (sender / network handing over any number of bytes / receiver decoding all it can)
               over all streams of <= 2 (thorough: <= 3) messages; three deviating decoder models (truncated
               string accepted, integer accepted without its 'e', remainder dropped) must be REJECTED.
spec -> code:  TLC prints the encoding of every message of the universe and, for every stream and every cursor
               position, every (buffer, chunk) edge with the messages DecodeAll yields and the remainder.
               Each distinct edge is replayed once through the real `decode`, `decode-all` (raw and with the
               nREPL server's options), the server's accumulate-and-decode step (pending atom + decode-all,
               put explicitly into the source state) and the REAL connection handler
               basilisp.contrib.nrepl-server/on-connect driven by a fake socket.  The real `encode` is compared
               byte for byte with the specified wire for four concrete renderings of every message.
code -> spec:  seeded random message streams encoded by the real encoder, cut at EVERY byte position (plus
               byte-by-byte and sampled 2-/3-cut sequences), fed through the accumulate loop / the real
               connection handler; TLC (Bencode_Trace) accepts a record iff every step is Bencode!Recv.
"""
import importlib
import json
import logging
import multiprocessing
import random
import time

import boot
import tlc

PART = "bencode"
REPS = [0x78, 0x7E]            # byte 120 of the specification = class "content byte that is no syntax"
RAWREPS = [0x78, 0x7E, 0xFF]   # 0xff only where the bytes are not run through a UTF-8 decoder
VARIANTS = "ABCD"
STATUS_TAIL = b"6:statusl5:error10:unknown-op4:doneee"
# several TLC jobs run side by side; short ones are cheapest without the C2 compiler and with a small nursery
JVM_SMALL = {"JAVA_TOOL_OPTIONS": "-XX:ParallelGCThreads=2 -Xmx1g -Xmn64m -XX:TieredStopAtLevel=1"}
JVM_BIG = {"JAVA_TOOL_OPTIONS": "-XX:ParallelGCThreads=4 -Xmx3g -Xmn256m"}

LOOP_SRC = r'''
(require '[basilisp.contrib.bencode :as bc] '[basilisp.string :as str])
(def nrepl-opts {:keywordize-keys true :string-fn #(.decode % "utf-8")})
(defn make-loop
  "The accumulate-and-decode step of basilisp.contrib.nrepl-server/on-connect with the socket replaced
  by an argument: [data] is one iteration for what .recv returned; [] reads and [:set v] writes `pending`."
  [opts]
  (let [pending (atom nil)]
    (fn
      ([] @pending)
      ([data]
       (let [data                   (if-let [p @pending]
                                      (let [b (+ p data)]
                                        (reset! pending nil)
                                        b)
                                      data)
             [requests unprocessed] (bc/decode-all data opts)]
         (when (not (str/blank? unprocessed))
           (reset! pending unprocessed))
         [requests @pending]))
      ([_ v] (reset! pending v)))))
'''

_REAL = None


# ------------------------------------------------------------------------------------------------
# abstract <-> concrete
# ------------------------------------------------------------------------------------------------
def M_int(i):
    return {"ty": "int", "i": i, "b": [], "xs": []}


def M_str(bs):
    return {"ty": "str", "i": 0, "b": list(bs), "xs": []}


def M_list(xs):
    return {"ty": "list", "i": 0, "b": [], "xs": list(xs)}


def M_dict(kv):
    return {"ty": "dict", "i": 0, "b": [], "xs": list(kv)}


def conc(seq, rep):
    return bytes(rep if b == 120 else b for b in seq)


def conc_msg(m, rep):
    return {"ty": m["ty"], "i": m["i"], "b": [rep if b == 120 else b for b in m["b"]],
            "xs": [conc_msg(x, rep) for x in m["xs"]]}


def canon(x):
    return json.dumps(x, sort_keys=True, separators=(",", ":"))


def has_nonempty_dict(m):
    return (m["ty"] == "dict" and len(m["xs"]) > 0) or any(has_nonempty_dict(x) for x in m["xs"])


class Real:
    """the real functions, and the renderings of abstract messages as real values"""

    def __init__(self):
        self.rt, _ = boot.init()
        self.bc = importlib.import_module("basilisp.contrib.bencode")
        self.srv = importlib.import_module("basilisp.contrib.nrepl_server")
        from basilisp.lang import keyword as kw, list as llist, map as lmap, symbol as sym, vector as vec
        from basilisp.lang.interfaces import IPersistentMap, IPersistentVector, IPersistentList, ISeq
        self.kw, self.llist, self.lmap, self.sym, self.vec = kw, llist, lmap, sym, vec
        self.IMap, self.IVec, self.IList, self.ISeq = IPersistentMap, IPersistentVector, IPersistentList, ISeq
        self.E = lmap.map({})
        sc = boot.Scratch("verif.c19bencode")
        sc.eval(LOOP_SRC)
        self.make_loop = sc.eval("make-loop")
        self.nrepl_opts = sc.eval("nrepl-opts")
        self.kw_set = kw.keyword("set")
        logging.getLogger("basilisp.contrib.nrepl-server").setLevel(logging.CRITICAL + 1)
        probe = self.call(self.bc.encode, {"ab": 1, "c": 2})
        self.pydict_ok = probe == b"d2:abi1e1:ci2ee"

    @staticmethod
    def call(f, *a):
        try:
            return f(*a)
        except Exception as ex:  # noqa
            return "exc:" + type(ex).__name__

    # ---- abstract message (bytes already concrete) -> a real value -------------------------------
    def build(self, m, variant):
        ty = m["ty"]
        if ty == "int":
            return m["i"]
        if ty == "str":
            bs = bytes(m["b"])
            if variant == "A":
                return bs
            try:
                s = bs.decode("utf-8")
            except UnicodeDecodeError:
                return bs
            if variant == "C" and s and "/" not in s:
                return self.kw.keyword(s)
            if variant == "D" and s and "/" not in s:
                return self.sym.symbol(s)
            return s
        if ty == "list":
            xs = [self.build(x, variant) for x in m["xs"]]
            if variant == "A":
                return self.vec.vector(xs)
            if variant == "B":
                return self.llist.list(xs)
            if variant == "C":
                return xs
            return tuple(xs)
        pairs = []
        for j in range(0, len(m["xs"]), 2):
            k = bytes(m["xs"][j]["b"]).decode("utf-8")
            v = self.build(m["xs"][j + 1], variant)
            if variant == "B" and k and "/" not in k:
                k = self.kw.keyword(k)
            elif variant == "D" and k and "/" not in k:
                k = self.sym.symbol(k)
            pairs.append((k, v))
        if variant in "BC":
            pairs.reverse()             # the encoder has to sort the entries itself
        if variant == "C":
            return dict(pairs)
        return self.lmap.map(dict(pairs))

    # ---- a real decoded value -> abstract message --------------------------------------------------
    def keybytes(self, k):
        if isinstance(k, bytes):
            return k
        if isinstance(k, str):
            return k.encode("utf-8")
        if isinstance(k, (self.kw.Keyword, self.sym.Symbol)):
            return ((k.ns + "/" + k.name) if k.ns else k.name).encode("utf-8")
        return None

    def absval(self, v):
        if isinstance(v, bool) or v is None:
            return {"ty": "other", "i": 0, "b": [], "xs": [], "repr": repr(v)}
        if isinstance(v, int):
            return M_int(v)
        if isinstance(v, bytes):
            return M_str(v)
        if isinstance(v, str):
            return M_str(v.encode("utf-8"))
        if isinstance(v, (self.IVec, self.IList, list, tuple)):
            return M_list([self.absval(x) for x in v])
        if isinstance(v, (self.IMap, dict)):
            ents = []
            for k, x in v.items():
                kb = self.keybytes(k)
                if kb is None:
                    return {"ty": "other", "i": 0, "b": [], "xs": [], "repr": repr(v)}
                ents.append((kb, x))
            ents.sort(key=lambda e: e[0])
            kv = []
            for kb, x in ents:
                kv += [M_str(kb), self.absval(x)]
            return M_dict(kv)
        return {"ty": "other", "i": 0, "b": [], "xs": [], "repr": repr(v)}

    def absseq(self, vs):
        if isinstance(vs, str):
            return vs
        try:
            return [self.absval(x) for x in vs]
        except Exception as ex:  # noqa
            return "exc:" + type(ex).__name__

    @staticmethod
    def rest(b):
        """the remainder as a byte list; nil and an empty byte string both mean 'nothing left'"""
        if b is None:
            return []
        if isinstance(b, (bytes, bytearray)):
            return list(b)
        return "not-bytes:" + repr(b)[:60]

    # ---- the ways of asking the real code to decode `data` -----------------------------------------
    def pair(self, res):
        """[x y] result vector -> (x, y) or an error marker"""
        if isinstance(res, str):
            return res, res
        try:
            return res[0], res[1]
        except Exception as ex:  # noqa
            return "exc:" + type(ex).__name__, None

    def decode_first(self, data):
        item, rest = self.pair(self.call(self.bc.decode, data, self.E))
        return item, rest

    def decode_all(self, data, how):
        if how == "all1":
            res = self.call(self.bc.decode_all, data)
        elif how == "all{}":
            res = self.call(self.bc.decode_all, data, self.E)
        else:
            res = self.call(self.bc.decode_all, data, self.nrepl_opts)
        items, rest = self.pair(res)
        return self.absseq(items), self.rest(rest)

    def loop_step(self, opts, buf, chunk):
        """the server's accumulate-and-decode step, started in the state pending = buf"""
        lp = self.make_loop(opts)
        lp(self.kw_set, buf if buf else None)
        items, rest = self.pair(self.call(lp, chunk))
        return self.absseq(items), self.rest(rest)

    def connection(self, chunks):
        """the REAL on-connect of the nREPL server on a socket that yields `chunks`; -> [(recv index, bytes sent)]"""
        sock = FakeSocket(chunks)

        class Handler:
            request = sock

        with self.rt.ns_bindings("verif.c19bencode.conn"):
            r = self.call(self.srv.on_connect, Handler(), self.E)
        if isinstance(r, str):
            sock.sent.append((-1, r.encode()))
        if not sock.closed or sock.queue:
            sock.sent.append((-1, b"connection handler returned before the socket was drained"))
        return sock.sent


class FakeSocket:
    def __init__(self, chunks):
        self.queue = list(chunks)
        self.queue.reverse()
        self.n = -1
        self.sent = []
        self.closed = False

    def recv(self, size):
        self.n += 1
        return self.queue.pop() if self.queue else b""

    def sendall(self, data):
        self.sent.append((self.n, bytes(data)))

    def getsockname(self):
        return ("127.0.0.1", 0)

    def close(self):
        self.closed = True


# ------------------------------------------------------------------------------------------------
# classification of a decode mismatch (one family signature per kind of wrong outcome)
# ------------------------------------------------------------------------------------------------
def kind_of(exp_msgs, exp_rest, obs_msgs, obs_rest):
    if isinstance(obs_msgs, str):
        return "raises-" + obs_msgs
    if obs_msgs != exp_msgs:
        common = 0
        while common < min(len(exp_msgs), len(obs_msgs)) and exp_msgs[common] == obs_msgs[common]:
            common += 1
        if common == len(exp_msgs):
            return "partial-or-extra-message-decoded-as-complete:" + obs_msgs[common]["ty"]
        if common == len(obs_msgs):
            return "complete-message-not-decoded:" + exp_msgs[common]["ty"]
        return "wrong-value:%s-decoded-as-%s" % (exp_msgs[common]["ty"], obs_msgs[common]["ty"])
    if obs_rest != exp_rest:
        if isinstance(obs_rest, str):
            return "remainder-not-bytes"
        if not obs_rest:
            return "remainder-dropped"
        return "remainder-altered"
    return None


def wrap_abs(m):
    return M_dict([M_str(b"id"), m, M_str(b"op"), M_str(b"z")])


def wrap_wire(enc):
    return b"d2:id" + enc + b"2:op1:ze"


def response_for(enc):
    return b"d2:id" + enc + STATUS_TAIL


# ------------------------------------------------------------------------------------------------
# spec -> code: replay of one shard of edges (runs in a forked worker)
# ------------------------------------------------------------------------------------------------
def edge_views(edge, idx):
    """expected observations of an edge under its concretisation"""
    rep = REPS[idx % len(REPS)]
    raw = RAWREPS[idx % len(RAWREPS)]
    return rep, raw


def replay_edge(real, edge, idx, only=None, show=False):
    """-> list of (path, expected, observed, kind).  edge = dict(buf, chunk, n, r, l1, ms, tail)"""
    out = []
    n, r, l1 = edge["n"], edge["r"], edge["l1"]
    rep, raw = edge_views(edge, idx)
    for path in ("decode", "all1", "all{}", "all-nrepl", "loop{}", "loop-nrepl"):
        if only and path != only:
            continue
        rp = raw if path in ("decode", "all1", "all{}", "loop{}") else rep
        buf, chunk = conc(edge["buf"], rp), conc(edge["chunk"], rp)
        data = buf + chunk
        exp_msgs = [conc_msg(m, rp) for m in edge["ms"][:n]]
        exp_rest = list(data[len(data) - r:]) if r else []
        if path == "decode":
            item, rest = real.decode_first(data)
            if n == 0:
                exp = {"msgs": [], "rest": list(data)}
                obs = {"msgs": [] if item is None else real.absseq([item]), "rest": real.rest(rest)}
            else:
                exp = {"msgs": exp_msgs[:1], "rest": list(data[l1:])}
                obs = {"msgs": real.absseq([item]), "rest": real.rest(rest)}
        else:
            exp = {"msgs": exp_msgs, "rest": exp_rest}
            if path.startswith("all"):
                ms, rest = real.decode_all(data, path)
            else:
                ms, rest = real.loop_step(real.E if path == "loop{}" else real.nrepl_opts, buf, chunk)
            obs = {"msgs": ms, "rest": rest}
        k = kind_of(exp["msgs"], exp["rest"], obs["msgs"], obs["rest"])
        if show:
            print(path, "data", data, "\n  expected", canon(exp), "\n  observed", canon(obs), "\n  =>", k or "agree")
        if k:
            out.append((path, exp, obs, k))
    return out


def server_plan(edge, idx, enc_of):
    """the edge transported into a stream of nREPL requests {"id" m, "op" "z"}: byte offsets inside the
    encoding of m keep their place inside the request, message boundaries stay message boundaries.
    -> (chunks, expected responses per chunk)"""
    rep = REPS[idx % len(REPS)]
    encs = [conc(enc_of[canon(m)], rep) for m in edge["ms"]]
    wires = [wrap_wire(e) for e in encs]
    starts, pos = [], 0
    for w in wires:
        starts.append(pos)
        pos += len(w)
    total = pos
    whole = b"".join(wires)
    bounds, pos = [], 0          # boundaries of the unwrapped stream
    for e in encs:
        bounds.append(pos)
        pos += len(e)
    bounds.append(pos)

    def phi(a):
        for j in range(len(encs)):
            if a == bounds[j]:
                return starts[j]
            if bounds[j] < a < bounds[j + 1]:
                return starts[j] + 5 + (a - bounds[j])
        return total

    a, b = phi(len(edge["buf"])), phi(len(edge["buf"]) + len(edge["chunk"]))
    n = edge["n"]
    resp = [response_for(e) for e in encs]
    plan = []
    if a > 0:
        plan.append((whole[:a], []))
    plan.append((whole[a:b], resp[:n]))
    if b < total:
        plan.append((whole[b:], resp[n:]))
    return plan, 1 if a > 0 else 0


def replay_shard(args):
    shard, enc_of, with_server = args
    real = _REAL
    found = []
    nexec = 0
    for idx, edge in shard:
        for path, exp, obs, k in replay_edge(real, edge, idx):
            found.append({"path": path, "idx": idx, "edge": edge, "exp": exp, "obs": obs, "kind": k})
        nexec += 6
    if with_server:
        chunks, expect = [], []
        for idx, edge in shard:
            plan, at = server_plan(edge, idx, enc_of)
            for j, (c, resp) in enumerate(plan):
                chunks.append(c)
                expect.append((idx, edge, j == at, resp))
        sent = real.connection(chunks)
        got = {}
        for i, b in sent:
            got.setdefault(i, []).append(b)
        nexec += len(chunks)
        for i, (idx, edge, is_edge, resp) in enumerate(expect):
            o = got.get(i, [])
            if o != resp:
                k = ("server-answers-request-it-has-not-received-completely" if len(o) > len(resp)
                     else "server-does-not-answer-complete-request" if len(o) < len(resp)
                     else "server-answers-other-request")
                found.append({"path": "on-connect", "idx": idx, "edge": edge,
                              "exp": {"responses": [x.decode("latin-1") for x in resp]},
                              "obs": {"responses": [x.decode("latin-1") for x in o],
                                      "chunk": chunks[i].decode("latin-1"), "chunk_is_edge": is_edge},
                              "kind": k})
                break        # later chunks of this connection are no longer in a known state
        if -1 in got:
            found.append({"path": "on-connect", "idx": shard[0][0], "edge": shard[0][1],
                          "exp": {"responses": "connection handler drains the socket"},
                          "obs": {"responses": [x.decode("latin-1") for x in got[-1]]},
                          "kind": "connection-handler-stops"})
    return nexec, found[:40]


# ------------------------------------------------------------------------------------------------
# TLC jobs run inside pool workers (own pid => own metadir)
# ------------------------------------------------------------------------------------------------
class JobResult:
    def __init__(self, d):
        self.__dict__.update(d)


def tlc_job(args):
    name, module, cfg, workers, env, tags = args
    try:
        r = tlc.run(module, cfg, workers=workers, env=dict(env or {}, **(JVM_BIG if workers >= 8 else JVM_SMALL)),
                    timeout=1500)
    except tlc.TLCError as ex:
        return {"name": name, "error": str(ex)[-3000:], "distinct": 0, "generated": 0, "wall": 0.0,
                "violated": [], "ok": False, "tagged": {}, "trace": ""}
    return {"name": name, "error": None, "distinct": r.distinct, "generated": r.generated, "wall": r.wall,
            "violated": r.violated, "ok": r.ok, "tagged": {t: r.tagged(t) for t in tags},
            "trace": r.error_trace()[:2500] if r.violated else ""}


# ------------------------------------------------------------------------------------------------
# code -> spec: random streams through the real code
# ------------------------------------------------------------------------------------------------
INTS = [0, -1, 1, 7, -9, 10, 42, -100, 999, 12345, -54321, 2147483647, -2147483647]
ALPHA = b"eeild::0123456789-xz ~\n"


def rand_bytes(rnd, utf8):
    n = rnd.choice([0, 0, 1, 1, 1, 2, 2, 3, 4, 10, 11])
    bs = bytes(rnd.choice(ALPHA) for _ in range(n))
    if n and rnd.random() < 0.25:
        extra = rnd.choice(["é", "中", "\U0001f600"]).encode("utf-8") if utf8 \
            else bytes([rnd.choice([0, 255, 128, 0xC3])])
        p = rnd.randrange(len(bs) + 1)
        bs = bs[:p] + extra + bs[p:]
    return bs


def rand_msg(rnd, depth, utf8):
    c = rnd.random()
    if depth == 0 or c < 0.45:
        if rnd.random() < 0.45:
            return M_int(rnd.choice(INTS) if rnd.random() < 0.7 else rnd.randint(-2 ** 31 + 1, 2 ** 31 - 1))
        return M_str(rand_bytes(rnd, utf8))
    if c < 0.72:
        return M_list([rand_msg(rnd, depth - 1, utf8) for _ in range(rnd.choice([0, 1, 1, 2, 3]))])
    keys = set()
    for _ in range(rnd.choice([0, 1, 1, 2, 3])):
        k = rand_bytes(rnd, True).replace(b"/", b"")
        keys.add(k)
    kv = []
    for k in sorted(keys):
        kv += [M_str(k), rand_msg(rnd, depth - 1, utf8)]
    return M_dict(kv)


def size(m):
    """rough length of the encoding"""
    return 2 + len(m["b"]) + (len(str(m["i"])) if m["ty"] == "int" else 0) + sum(size(x) for x in m["xs"])


def cut_plans(rnd, n, extra):
    """lists of chunk lengths: every single cut, byte by byte, and sampled 2-/3-cut sequences"""
    plans = [[n]] + [[c, n - c] for c in range(1, n)]
    if n > 1:
        plans.append([1] * n)
    for _ in range(extra):
        if n < 4:
            break
        cuts = sorted(rnd.sample(range(1, n), rnd.choice([2, 3])))
        pts = [0] + cuts + [n]
        plans.append([pts[i + 1] - pts[i] for i in range(len(pts) - 1)])
    return plans


def record_stream(real, rnd, tid0, via, extra_cuts):
    """one random stream -> trace records (real encode, real receive path)"""
    utf8 = via != "loop{}"
    nmsg = rnd.choice([1, 2, 2, 3, 3, 4]) if via != "server" else rnd.choice([1, 2, 2, 3])
    msgs = [rand_msg(rnd, 2, utf8) for _ in range(nmsg)]
    while sum(size(m) for m in msgs) > 70 and len(msgs) > 1:
        msgs.pop()
    variants = "ABD" + ("C" if real.pydict_ok else "")
    if via == "server":
        sent = [wrap_abs(m) for m in msgs]
    else:
        sent = msgs
    parts = []
    for m in sent:
        e = real.call(real.bc.encode, real.build(m, rnd.choice(variants)))
        parts.append(e if isinstance(e, bytes) else b"<" + str(e).encode() + b">")
    wire = b"".join(parts)
    recs = []
    plans = cut_plans(rnd, len(wire), extra_cuts)
    nexec = 0
    if via == "server":
        chunks, owner = [], []
        for pi, plan in enumerate(plans):
            pos = 0
            for k in plan:
                chunks.append(wire[pos:pos + k])
                owner.append(pi)
                pos += k
        sent_back = real.connection(chunks)
        got = {}
        for i, b in sent_back:
            got.setdefault(i, []).append(list(b))
        nexec += len(chunks)
        ci = 0
        for pi, plan in enumerate(plans):
            steps = []
            for k in plan:
                steps.append({"k": k, "msgs": [], "rest": [], "resp": got.get(ci, [])})
                ci += 1
            recs.append({"id": tid0 + pi, "via": "server", "sent": sent, "wire": list(wire), "steps": steps})
        if -1 in got and recs:
            recs[-1]["steps"][-1]["resp"] = recs[-1]["steps"][-1]["resp"] + got[-1]
    else:
        opts = real.E if via == "loop{}" else real.nrepl_opts
        for pi, plan in enumerate(plans):
            lp = real.make_loop(opts)
            pos, steps = 0, []
            for k in plan:
                items, rest = real.pair(real.call(lp, wire[pos:pos + k]))
                pos += k
                ms, rs = real.absseq(items), real.rest(rest)
                if isinstance(ms, str):
                    ms = [{"ty": "other", "i": 0, "b": [], "xs": [], "repr": ms}]
                ms = [strip(m) for m in ms]
                if isinstance(rs, str):
                    rs = [-1]
                steps.append({"k": k, "msgs": ms, "rest": rs, "resp": []})
                nexec += 1
            recs.append({"id": tid0 + pi, "via": "loop", "sent": sent, "wire": list(wire), "steps": steps})
    return recs, nexec, via


def record_task(args):
    seed, via, extra_cuts = args
    return record_stream(_REAL, random.Random(seed), 1, via, extra_cuts)


def strip(m):
    """uniform fields only (TLC compares records field by field)"""
    if m["ty"] == "other":
        return {"ty": "other:" + m.get("repr", "")[:40], "i": 0, "b": [], "xs": []}
    return {"ty": m["ty"], "i": m["i"], "b": m["b"], "xs": [strip(x) for x in m["xs"]]}


# ------------------------------------------------------------------------------------------------
NEG = [("Bencode_NegShort", "Bencode_NegShort.cfg"), ("Bencode_NegInt", "Bencode_NegInt.cfg"),
       ("Bencode_NegDrop", "Bencode_NegDrop.cfg")]


def tier_cfg(tier):
    if tier == "quick":
        return {"mc": [("Bencode_MC", "Bencode_MC.cfg", 3)],
                "gen": [("Bencode_Gen", "Bencode_Gen.cfg", 4)],
                "streams": 18, "extra_cuts": 6, "procs": 10, "trace_workers": 3, "neg": NEG[:1]}
    return {"mc": [("Bencode_MC2", "Bencode_MC2.cfg", 3), ("Bencode_MCt", "Bencode_MCt.cfg", 8)],
            "gen": [("Bencode_Gen2", "Bencode_Gen2.cfg", 4), ("Bencode_Gent", "Bencode_Gent.cfg", 8)],
            "streams": 150, "extra_cuts": 20, "procs": 14, "trace_workers": 8, "neg": NEG}


def run_part(chk):
    global _REAL
    real = _REAL = Real()
    cfg = tier_cfg(chk.tier)
    chk.rule += (" [bencode] edges: every distinct (buffer, chunk) edge TLC emits for every stream is replayed once "
                 "through decode, decode-all, the server's accumulate step and the real connection handler; "
                 "non-trivial = the buffer holds a partial message before the chunk, or the chunk completes more "
                 "than one message; traces: every single cut position of every random stream counts.")
    pool = multiprocessing.get_context("fork").Pool(cfg["procs"])
    try:
        _run(chk, real, cfg, pool)
    finally:
        pool.terminate()
        pool.join()


def _run(chk, real, cfg, pool):
    t0 = time.time()
    timing = chk.extra.setdefault("bencode_timing_s", {})
    jobs = {}
    for name, c, w in cfg["mc"]:
        jobs[name] = pool.apply_async(tlc_job, ((name, "Bencode", c, w, None, ()),))
    for name, c, w in cfg["gen"]:
        jobs[name] = pool.apply_async(tlc_job, ((name, "Bencode", c, w, None, ("STR", "EDG")),))
    for name, c in cfg["neg"]:
        jobs[name] = pool.apply_async(tlc_job, ((name, "Bencode", c, 1, None, ()),))

    # ---- code -> spec: record (one task per stream, seeded per stream), validate in TLC ----------
    vias = ["loop{}", "loop-nrepl", "server"]
    tasks = [(chk.seed * 7919 + 1903 + s * 104729, vias[s % 3], cfg["extra_cuts"]) for s in range(cfg["streams"])]
    traces, nexec, per_via = [], 0, {}
    for recs, ne, via in pool.map(record_task, tasks, chunksize=1):
        for t in recs:
            t["id"] = len(traces) + 1
            traces.append(t)
        nexec += ne
        per_via[via] = per_via.get(via, 0) + len(recs)
        if len(chk.samples) < 3:
            chk.sample({"bencode_trace": {"via": recs[0]["via"], "wire": bytes(recs[0]["wire"]).decode("latin-1"),
                                          "cuts": [st["k"] for st in recs[min(2, len(recs) - 1)]["steps"]]}})
    timing["record_traces"] = round(time.time() - t0, 1)
    chk.count(nexec, traces=len(traces))
    chk.nontriv(n=sum(1 for t in traces if len(t["steps"]) >= 2))
    path = tlc.write_json("bencode_traces", traces)
    jobs["Bencode_Trace"] = pool.apply_async(
        tlc_job, (("Bencode_Trace", "Bencode_Trace", "Bencode_Trace.cfg", cfg["trace_workers"], {"TRACE_FILE": path}, ("ACC",)),))

    # ---- spec -> code ------------------------------------------------------------------------------
    enc_of, streams, edges = {}, 0, {}
    gen_ok = True
    for name, c, w in cfg["gen"]:
        r = JobResult(jobs[name].get())
        if not _tlc_ok(chk, r, "generation job"):
            gen_ok = False
            continue
        for s in r.tagged["STR"]:
            streams += 1
            for m, e in zip(s["sent"], s["enc"]):
                enc_of[canon(m)] = e
        lines = sorted(r.tagged["EDG"], key=canon)
        for ln in lines:
            for k, (n, rr, c_ok) in enumerate(ln["e"], start=1):
                if c_ok != 1:
                    chk.machinery(f"{name}: compact edge inconsistent with DecodeAllOf at buf={ln['buf']} k={k}")
                    gen_ok = False
                key = (tuple(ln["buf"]), tuple(ln["tail"][:k]))
                if key not in edges:
                    edges[key] = {"buf": ln["buf"], "chunk": ln["tail"][:k], "n": n, "r": rr, "l1": ln["l1"],
                                  "ms": ln["ms"], "tail": ln["tail"]}
                else:
                    e0 = edges[key]
                    if (e0["n"], e0["r"], e0["ms"][:n]) != (n, rr, ln["ms"][:n]):
                        chk.machinery(f"{name}: the same edge has two different outcomes: {key}")
                        gen_ok = False
    timing["wait_generation"] = round(time.time() - t0, 1)
    if gen_ok and edges:
        _encode_check(chk, real, enc_of)
        order = sorted(edges)
        work = [(i, edges[k]) for i, k in enumerate(order)]
        for i, e in work:
            if e["buf"] or e["n"] > 1:
                chk.nontriv(("edge", bytes(e["buf"]).hex(), bytes(e["chunk"]).hex()))
        nsh = max(1, min(len(work) // 150 + 1, 400))
        shards = [work[s::nsh] for s in range(nsh)]
        res = pool.map(replay_shard, [(sh, enc_of, True) for sh in shards], chunksize=1)
        nrep = 0
        found = []
        for ne, f in res:
            nrep += ne
            found += f
        chk.count(nrep, traces=len(work))
        found.sort(key=lambda d: (d["path"], d["kind"], d["idx"]))
        seen = {}
        for d in found:
            sig = f"bencode:{d['path']}:{d['kind']}"
            seen[sig] = seen.get(sig, 0) + 1
            if seen[sig] > 3:
                continue
            e = d["edge"]
            chk.discrepancy("Bencode!Recv" if d["path"] != "decode" else "Bencode!Decode",
                            {"part": PART, "kind": "edge", "path": d["path"], "idx": d["idx"],
                             "text": {"buf": bytes(e["buf"]).decode("latin-1"),
                                      "chunk": bytes(e["chunk"]).decode("latin-1")},
                             "edge": {k: e[k] for k in ("buf", "chunk", "n", "r", "l1", "ms", "tail")},
                             "enc": {canon(m): enc_of[canon(m)] for m in e["ms"]}},
                            d["exp"], d["obs"], sig=sig, module="Bencode", direction="spec->code")
        chk.extra["bencode_edges_distinct"] = len(work)
        chk.extra["bencode_streams"] = streams
        chk.extra["bencode_edge_mismatch_kinds"] = seen
        if work:
            big = max(work, key=lambda w: (w[1]["n"], len(w[1]["buf"])))
            chk.sample({"bencode_edge": {"buf": bytes(big[1]["buf"]).decode("latin-1"),
                                         "chunk": bytes(big[1]["chunk"]).decode("latin-1"),
                                         "decoded": big[1]["n"], "remainder_len": big[1]["r"]}})

    timing["edges_replayed"] = round(time.time() - t0, 1)
    # ---- design checks ---------------------------------------------------------------------------
    for name, c, w in cfg["mc"]:
        r = JobResult(jobs[name].get())
        _tlc_ok(chk, r, "design check")
    for name, c in cfg["neg"]:
        r = JobResult(jobs[name].get())
        chk.add_tlc(name, r)
        if r.error:
            chk.machinery(f"{name}: TLC failed: {r.error[-400:]}")
        elif not r.violated:
            chk.machinery(f"{name}: the deviating decoder model was NOT rejected (the invariants are vacuous)")
    chk.extra["bencode_negative_models_rejected"] = [n for n, _ in cfg["neg"]]

    timing["design_checks_done"] = round(time.time() - t0, 1)
    # ---- trace verdicts --------------------------------------------------------------------------
    r = JobResult(jobs["Bencode_Trace"].get())
    if _tlc_ok(chk, r, "trace validation"):
        acc = set(r.tagged["ACC"])
        rej = [t for t in traces if t["id"] not in acc]
        chk.extra["bencode_traces"] = per_via
        chk.extra["bencode_traces_rejected"] = len(rej)
        chk.extra["bencode_pydict_in_traces"] = real.pydict_ok
        if rej:
            _diagnose(chk, rej[:12])
    timing["traces_validated"] = round(time.time() - t0, 1)


def _tlc_ok(chk, r, what):
    chk.add_tlc(r.name, r)
    if r.error:
        chk.machinery(f"{r.name}: TLC failed ({what}): {r.error[-600:]}")
        return False
    if r.violated or not r.ok:
        chk.machinery(f"{r.name}: the specification's own invariants fail ({what}): {r.violated} {r.trace[:600]}")
        return False
    return True


def _encode_check(chk, real, enc_of):
    """real encode == Encode, for every message of the universe, two representatives, four renderings"""
    n = 0
    pyd = 0
    for cm in sorted(enc_of):
        m = json.loads(cm)
        for rep in REPS:
            mm = conc_msg(m, rep)
            exp = conc(enc_of[cm], rep)
            obs = {v: real.call(real.bc.encode, real.build(mm, v)) for v in VARIANTS}
            n += len(VARIANTS)
            for v in VARIANTS:
                if obs[v] == exp:
                    continue
                others_ok = all(obs[u] == exp for u in "ABD")
                if v == "C" and has_nonempty_dict(m) and others_ok:
                    # the same message encodes correctly as a Lisp map: the python dict rendering is at fault
                    sig = ("bencode:encode:python-dict-with-entries:entries-built-from-the-characters-of-each-key"
                           "-instead-of-key-and-value")
                    pyd += 1
                    if pyd > 2:
                        continue
                else:
                    sig = f"bencode:encode:{m['ty']}:rendering-{v}:wire-differs-from-Encode"
                o = obs[v]
                chk.discrepancy("Bencode!Encode", {"part": PART, "kind": "encode", "m": m, "rep": rep, "variant": v,
                                                   "enc": enc_of[cm]},
                                exp.decode("latin-1"), o.decode("latin-1") if isinstance(o, bytes) else str(o),
                                sig=sig, module="Bencode", direction="spec->code")
            # encode then decode is the identity (DecodeEncode), through the real pair of functions
            for v in "AB":
                e = obs[v]
                if not isinstance(e, bytes):
                    continue
                item, rest = real.decode_first(e)
                n += 1
                back = real.absseq([item]) if item is not None else []
                if back != [mm] or real.rest(rest) != []:
                    chk.discrepancy("Bencode!DecodeEncode", {"part": PART, "kind": "roundtrip", "m": m, "rep": rep,
                                                            "variant": v},
                                    {"msgs": [mm], "rest": []}, {"msgs": back, "rest": real.rest(rest)},
                                    sig=f"bencode:roundtrip:{m['ty']}:decode-of-encode-is-not-the-message",
                                    module="Bencode", direction="spec->code")
    chk.count(n)
    chk.extra["bencode_universe"] = len(enc_of)
    chk.extra["bencode_encode_pydict_mismatches"] = pyd


def _diagnose(chk, rej):
    path = tlc.write_json("bencode_rejected", rej)
    try:
        r = tlc.run("Bencode_Trace", "Bencode_TraceDiag.cfg", workers=4, env={"TRACE_FILE": path})
    except tlc.TLCError as ex:
        chk.machinery(f"Bencode_TraceDiag failed: {str(ex)[-400:]}")
        return
    far = {}
    for p in r.tagged("PFX"):
        if p["id"] not in far or p["step"] > far[p["id"]]["step"]:
            far[p["id"]] = p
    seen = set()
    for t in rej:
        p = far.get(t["id"])
        if p is None:
            chk.machinery(f"Bencode_TraceDiag: no diagnosis for trace {t['id']}")
            continue
        step = p["step"]
        if not p["enc"]:
            kind = "real-wire-differs-from-EncodeAll"
            exp, obs = "EncodeAll(sent)", bytes(t["wire"]).decode("latin-1")
        elif step >= len(t["steps"]):
            kind = "stream-not-decoded-completely-at-the-end"
            exp, obs = "got = sent, empty buffer", t["steps"][-1]
        else:
            st = t["steps"][step]
            exp = p["exp"]
            if t["via"] == "loop":
                kind = kind_of(exp["msgs"], exp["rest"], st["msgs"], st["rest"]) or "step-differs"
                exp = {"msgs": exp["msgs"], "rest": exp["rest"]}
                obs = {"msgs": st["msgs"], "rest": st["rest"]}
            else:
                kind = ("server-answers-request-it-has-not-received-completely" if len(st["resp"]) > len(exp["resp"])
                        else "server-does-not-answer-complete-request" if len(st["resp"]) < len(exp["resp"])
                        else "server-answers-other-request")
                exp = {"responses": [bytes(x).decode("latin-1") for x in exp["resp"]]}
                obs = {"responses": [bytes(x).decode("latin-1") for x in st["resp"]],
                       "chunk": bytes(t["wire"][sum(x["k"] for x in t["steps"][:step]):][:st["k"]]).decode("latin-1")}
        sig = f"bencode:trace-{t['via']}:{kind}"
        if sig in seen:
            continue
        seen.add(sig)
        chk.discrepancy("Bencode_Trace!StepT", {"part": PART, "kind": "trace", "failing_step": step, "trace": t},
                        exp, obs, sig=sig, module="Bencode_Trace", direction="code->spec")


# ------------------------------------------------------------------------------------------------
def replay_part(chk, body):
    global _REAL
    real = _REAL = Real()
    case = body["case"]
    kind = case["kind"]
    if kind in ("encode", "roundtrip"):
        mm = conc_msg(case["m"], case["rep"])
        o = real.call(real.bc.encode, real.build(mm, case["variant"]))
        print("encode ->", o)
        chk.count()
        if kind == "encode":
            exp = conc(case["enc"], case["rep"])
            print("expected ", exp)
            if o != exp:
                chk.discrepancy(body["clause"], case, exp.decode("latin-1"),
                                o.decode("latin-1") if isinstance(o, bytes) else str(o), sig=body.get("sig"),
                                module="Bencode", direction="replay")
        else:
            item, rest = real.decode_first(o)
            back = real.absseq([item]) if item is not None else []
            print("decode ->", back, real.rest(rest))
            if back != [mm] or real.rest(rest) != []:
                chk.discrepancy(body["clause"], case, body["expected"], {"msgs": back, "rest": real.rest(rest)},
                                sig=body.get("sig"), module="Bencode", direction="replay")
    elif kind == "edge":
        edge, idx = case["edge"], case["idx"]
        chk.count()
        if case["path"] == "on-connect":
            plan, at = server_plan(edge, idx, case["enc"])
            sent = real.connection([c for c, _ in plan])
            got = {}
            for i, b in sent:
                got.setdefault(i, []).append(b)
            for i, (c, resp) in enumerate(plan):
                print("recv", c, "-> responses", got.get(i, []), "expected", resp)
                if got.get(i, []) != resp:
                    chk.discrepancy(body["clause"], case, {"responses": [x.decode("latin-1") for x in resp]},
                                    {"responses": [x.decode("latin-1") for x in got.get(i, [])]}, sig=body.get("sig"),
                                    module="Bencode", direction="replay")
                    break
        else:
            for path, exp, obs, k in replay_edge(real, edge, idx, only=case["path"], show=True):
                chk.discrepancy(body["clause"], case, exp, obs, sig=body.get("sig"), module="Bencode",
                                direction="replay")
    elif kind == "trace":
        t = case["trace"]
        path = tlc.write_json("bencode_replay", [_rerun_trace(real, t)])
        r = tlc.run("Bencode_Trace", "Bencode_Trace.cfg", workers=2, env={"TRACE_FILE": path})
        chk.add_tlc("Bencode_Trace", r)
        chk.count(traces=1)
        print("accepted" if r.tagged("ACC") else "rejected")
        if not r.tagged("ACC"):
            chk.discrepancy(body["clause"], case, body["expected"], "rejected again", sig=body.get("sig"),
                            module="Bencode_Trace", direction="replay")
    else:
        chk.machinery(f"bencode replay: unknown case kind {kind}")


def _rerun_trace(real, t):
    """the recorded wire and cut plan again through the real receive path"""
    wire = bytes(t["wire"])
    plan = [s["k"] for s in t["steps"]]
    steps = []
    if t["via"] == "server":
        chunks, pos = [], 0
        for k in plan:
            chunks.append(wire[pos:pos + k])
            pos += k
        got = {}
        for i, b in real.connection(chunks):
            got.setdefault(i, []).append(list(b))
        steps = [{"k": k, "msgs": [], "rest": [], "resp": got.get(i, [])} for i, k in enumerate(plan)]
    else:
        nre = any(_has_str_decoded(real, t))
        lp = real.make_loop(real.nrepl_opts if nre else real.E)
        pos = 0
        for k in plan:
            items, rest = real.pair(real.call(lp, wire[pos:pos + k]))
            pos += k
            ms, rs = real.absseq(items), real.rest(rest)
            ms = [strip(m) for m in ms] if not isinstance(ms, str) else [strip({"ty": "other", "repr": ms})]
            steps.append({"k": k, "msgs": ms, "rest": rs if not isinstance(rs, str) else [-1], "resp": []})
    return {"id": t["id"], "via": t["via"], "sent": t["sent"], "wire": t["wire"], "steps": steps}


def _has_str_decoded(real, t):
    # the raw loop and the nREPL-option loop project to the same abstract values; a wire that is not UTF-8
    # can only have come from the raw loop
    try:
        bytes(t["wire"]).decode("utf-8")
        yield True
    except UnicodeDecodeError:
        yield False
