"""Verdicts, known findings, replays and evidence.

A check collects *discrepancies* (implementation observation differs from what the
specification prescribes).  Each discrepancy carries a signature `sig`:
  * "dev:<Name>[+<Name>...]"  the as-built model with exactly these named deviations enabled
    reproduces the observation (computed by the driver, never guessed),
  * "case:<canonical case text>" for specs without an as-built level: the exact failing input.
KNOWN_FINDINGS.txt lists signatures of genuine, recorded defects; a discrepancy whose
signature is listed is printed as KNOWN-FINDING, any other one is a VIOLATION.
The file is only read here.
"""
import hashlib
import json
import os
import re
import sys
import time

from repo import VERIF

KF = os.path.join(VERIF, "KNOWN_FINDINGS.txt")


def load_findings(pid):
    """-> list of dict(id, sig (exact) or sig_re (regex), text) for property pid."""
    out = []
    if not os.path.exists(KF):
        return out
    for line in open(KF, encoding="utf-8"):
        line = line.rstrip("\n")
        if not line.startswith("finding:"):
            continue
        head, _, text = line[len("finding:"):].partition(" :: ")
        m = re.match(r"\s*property=(\S+)\s+id=(\S+)\s+(sig|sigre)=(.*)$", head)
        if not m or m.group(1) != pid:
            continue
        out.append({"id": m.group(2), "kind": m.group(3), "sig": m.group(4).strip(), "text": text})
    return out


class Check:
    def __init__(self, pid, tier, seed):
        self.pid, self.tier, self.seed = pid, tier, seed
        self.t0 = time.time()
        self.states = 0
        self.transitions = 0
        self.tlc_jobs = []
        self.evaluations = 0
        self.traces = 0
        self.nontrivial = set()
        self.nontrivial_n = 0
        self.samples = []
        self.discrepancies = []
        self.extra = {}
        self.rule = ""
        self.assumptions = []
        self.exhaustive = None
        self.machinery_errors = []
        self.keep_replays = False

    # ---- accounting -------------------------------------------------------------------------
    def add_tlc(self, name, r):
        self.states += r.distinct
        self.transitions += r.generated
        self.tlc_jobs.append({"job": name, "distinct": r.distinct, "generated": r.generated,
                              "wall_s": round(r.wall, 2)})

    def sample(self, obj, cap=6):
        if len(self.samples) < cap:
            self.samples.append(obj)

    def count(self, n=1, traces=0):
        self.evaluations += n
        self.traces += traces

    def nontriv(self, key=None, n=1):
        """Count a distinct non-trivial case (key given: de-duplicated by key)."""
        if key is None:
            self.nontrivial_n += n
        else:
            self.nontrivial.add(key if isinstance(key, (str, int, tuple)) else json.dumps(key, sort_keys=True))

    def discrepancy(self, clause, case, expected, observed, sig=None, module=None, direction=None,
                    extra=None):
        if sig is None:
            sig = "case:" + canon(case)
        self.discrepancies.append({"clause": clause, "case": case, "expected": expected,
                                   "observed": observed, "sig": sig, "module": module,
                                   "direction": direction, "extra": extra})

    def machinery(self, msg):
        self.machinery_errors.append(msg)

    # ---- end of run --------------------------------------------------------------------------
    def finish(self):
        findings = load_findings(self.pid)
        known = {}
        viol = []
        for d in self.discrepancies:
            f = _match(findings, d["sig"])
            if f is None:
                viol.append(d)
            else:
                known.setdefault(f["id"], []).append(d)
        rdir = os.path.join(VERIF, "replays", self.pid)
        if os.path.isdir(rdir) and not self.keep_replays:
            for fn in os.listdir(rdir):
                if fn.endswith(".json"):
                    os.unlink(os.path.join(rdir, fn))
        lines = []
        for fid, ds in sorted(known.items()):
            f = next(x for x in findings if x["id"] == fid)
            p = self._write_replay(rdir, ds[0], fid)
            lines.append(f"KNOWN-FINDING: property={self.pid} {fid} {f['text']} "
                         f"({len(ds)} occurrences, first replay={p})")
        seen = set()
        for d in viol:
            key = (d["clause"], d["sig"])
            if key in seen:
                continue
            seen.add(key)
            if len(seen) > 25:
                break
            p = self._write_replay(rdir, d, None)
            lines.append(f"VIOLATION property={self.pid} replay={p}")
            lines.append(f"  clause={d['clause']} sig={d['sig'][:300]}")
            lines.append(f"  expected={_short(d['expected'])} observed={_short(d['observed'])}")
        for m in self.machinery_errors:
            lines.append(f"MACHINERY-ERROR property={self.pid} {m}")
        self._write_evidence(len(viol), sorted(known))
        for ln in lines:
            print(ln, flush=True)
        wall = time.time() - self.t0
        status = "VIOLATED" if viol else ("MACHINERY-FAILURE" if self.machinery_errors else "held")
        print(f"[{self.pid}] {status}: tier={self.tier} seed={self.seed} states={self.states} "
              f"evaluations={self.evaluations} traces={self.traces} nontrivial={self._nn()} "
              f"known_findings={len(known)} violations={len(viol)} wall={wall:.1f}s", flush=True)
        if viol:
            return 1
        if self.machinery_errors:
            return 2
        return 0

    def _nn(self):
        return len(self.nontrivial) + self.nontrivial_n

    def _write_replay(self, rdir, d, fid):
        os.makedirs(rdir, exist_ok=True)
        body = {"property": self.pid, "module": d["module"], "direction": d["direction"],
                "seed": self.seed, "tier": self.tier, "clause": d["clause"], "sig": d["sig"],
                "finding": fid, "case": d["case"], "expected": d["expected"],
                "observed": d["observed"], "extra": d["extra"]}
        s = json.dumps(body, sort_keys=True, default=str, ensure_ascii=True)
        h = hashlib.sha1((d["clause"] + "|" + canon(d["case"])).encode()).hexdigest()[:16]
        p = os.path.join(rdir, h + ".json")
        with open(p, "w") as f:
            f.write(s + "\n")
        return p

    def _write_evidence(self, nviol, known_ids):
        cov = {
            "states": self.states, "transitions": self.transitions,
            "traces_validated_against_impl": self.traces,
            "evaluations": self.evaluations, "distinct_nontrivial": self._nn(),
            "rule": self.rule, "samples": self.samples or ["<none>"],
            "tlc_jobs": self.tlc_jobs, "known_findings_matched": known_ids,
        }
        if self.exhaustive is not None:
            if isinstance(self.exhaustive, bool):
                cov["exhaustive"] = self.exhaustive
            else:   # a driver described WHAT was enumerated completely: keep the description, flag the fact
                cov["exhaustive"] = bool(self.exhaustive)
                cov["exhaustive_scope"] = self.exhaustive
        cov.update(self.extra)
        ev = {"property_id": self.pid, "tier": self.tier, "seed": int(self.seed),
              "level": "model_checking", "coverage": cov, "assumptions": self.assumptions,
              "wall_s": round(time.time() - self.t0, 2), "violations": nviol}
        d = os.path.join(VERIF, "evidence")
        os.makedirs(d, exist_ok=True)
        tmp = os.path.join(d, self.pid + ".json.tmp")
        with open(tmp, "w") as f:
            json.dump(ev, f, indent=1, default=str)
            f.write("\n")
        os.replace(tmp, os.path.join(d, self.pid + ".json"))


def _match(findings, sig):
    for f in findings:
        if f["kind"] == "sig" and f["sig"] == sig:
            return f
        if f["kind"] == "sigre" and re.fullmatch(f["sig"], sig, re.S):
            return f
    return None


def canon(x):
    return json.dumps(x, sort_keys=True, default=str, ensure_ascii=True, separators=(",", ":"))


def _short(x, n=400):
    s = x if isinstance(x, str) else canon(x)
    return s if len(s) <= n else s[:n] + "..."
