"""C04 -- persistent collections are immutable values that behave like their model.

design check:  Collections.tla: a heap of versions of ONE collection type (vector, list, queue, set, map); every
               mutator picks any earlier version and appends its result, computed on a sequence / finite set /
               finite map, error cases included.  TLC checks the algebraic laws of the model on every value any
               history produces and the action property that the heap is append-only; two deliberately wrong
               models (vector pop at the wrong end, merge with the wrong winner) must be rejected.
spec -> code:  Collections emits (a) the whole TREE of histories to a depth, one line per node (prefix sharing:
               the replayer extends the real objects of the parent node, so the number of real operations is the
               number of nodes), over nil + three integers with the same hash, and (b) random histories of
               length 60 (`-simulate`, actions drawn with RandomElement) that start next to a 31-element version
               and work around the 32-element boundary of the underlying tries.  Every step is executed through
               basilisp.core (conj assoc dissoc disj pop into merge empty with-meta update transient conj!
               assoc! dissoc! disj! pop! persistent!); the new object is compared with the model through count,
               seq, peek, meta, nth / get / contains? at every probe, `=` and `hash` against every earlier
               version -- and EVERY object produced so far is re-checked against what it showed when it was
               created (count, seq, meta, hash) after every step, and fully at the end of a history.
"""
import json
import os
import sys
import time

import boot
import tlc

TYPES = ["vec", "list", "queue", "set", "map"]
ERR, UNSUP = -9, -8

# ------------------------------------------------------------------------------------------------
# concretisation
# ------------------------------------------------------------------------------------------------
_R = {}


def real():
    if _R:
        return _R
    boot.init()
    s = boot.Scratch("verif.c04")
    from basilisp.lang import keyword as kw, map as lmap, vector as vec
    for n in ["conj", "assoc", "dissoc", "disj", "pop", "peek", "into", "merge", "empty", "with-meta", "update",
              "seq", "nth", "get", "contains?", "transient", "persistent!", "conj!", "assoc!", "dissoc!", "disj!",
              "pop!", "count", "hash", "meta", "="]:
        _R[n] = boot.core_fn(n)
    _R["empty-of"] = {"vec": s.eval("[]"), "list": s.eval("'()"), "queue": s.eval("(queue [])"),
                      "set": s.eval("#{}"), "map": s.eval("{}")}
    _R["types"] = {t: type(v).__name__ for t, v in _R["empty-of"].items()}
    _R["metas"] = {0: None, 1: lmap.map({kw.keyword("a"): 1}), 2: lmap.map({kw.keyword("b"): 2})}
    _R["vec"] = vec
    _R["f"] = {1: lambda old: "A" if old is None else "B", 2: lambda old: None}
    return _R


COLL1, COLL2, COLL3 = -1, -2, -(2 ** 61 + 1)
assert hash(COLL1) == hash(COLL2) == hash(COLL3), "the three keys do not collide in this CPython"


def val(c):
    """value / key code -> real value"""
    if c == 0:
        return None
    if c == 1:
        return COLL1
    if c == 2:
        return COLL2
    if c == 3:
        return COLL3
    if c == 7:
        return "A"
    if c == 8:
        return "B"
    if c >= 10:
        return c - 10
    raise ValueError(c)


_BACK = {}


def code(v):
    """real value -> code ('?...' for anything that is not a value of the universe)"""
    if not _BACK:
        for c in [0, 1, 2, 3, 7, 8] + list(range(10, 60)):
            _BACK[(type(val(c)), val(c))] = c
    try:
        return _BACK.get((type(v), v), "?" + repr(v)[:40])
    except TypeError:
        return "?" + repr(v)[:40]


def idx(c):
    """index code -> real index argument"""
    return None if c == -1 else 2 ** 61 if c == -2 else c


def metacode(m):
    R = real()
    if m is None:
        return 0
    for c in (1, 2):
        try:
            if m == R["metas"][c] and len(m) == 1:
                return c
        except Exception:  # noqa
            pass
    return "?" + repr(m)[:40]


def exc(e):
    return "raises " + type(e).__name__


# ------------------------------------------------------------------------------------------------
# observing a real object
# ------------------------------------------------------------------------------------------------
def items(ty, obj):
    """the contents of a real collection as codes, in the shape of Obs.xs"""
    R = real()
    s = R["seq"](obj)
    xs = list(s) if s is not None else []
    if ty == "map":
        out = []
        for e in xs:
            out.append([code(e[0]), code(e[1])] if hasattr(e, "__len__") and len(e) == 2 else ["?entry", repr(e)[:30]])
        return sorted(out, key=repr)
    cs = [code(x) for x in xs]
    return sorted(cs, key=repr) if ty == "set" else cs


def norm_xs(ty, xs):
    if ty == "map":
        return sorted([list(p) for p in xs], key=repr)
    return sorted(xs, key=repr) if ty == "set" else list(xs)


def snapshot(ty, obj):
    R = real()
    try:
        return (R["count"](obj), items(ty, obj), metacode(R["meta"](obj)), R["hash"](obj))
    except Exception as e:  # noqa
        return ("snapshot " + exc(e),)


def observe(ty, obj, o, probes):
    """compare a real object with the model observations o -> list of (what, expected, observed)"""
    R = real()
    out = []

    def cmp(what, expected, f, conv=lambda x: x):
        try:
            got = conv(f())
        except Exception as e:  # noqa
            got = exc(e)
        if expected == ERR:
            if not (isinstance(got, str) and got.startswith("raises ")):
                out.append((what, "raises", got))
        elif got != expected:
            out.append((what, expected, got))

    cmp("count", o["n"], lambda: R["count"](obj))
    cmp("seq", norm_xs(ty, o["xs"]), lambda: items(ty, obj))
    if o["n"] == 0:
        cmp("seq-of-empty", None, lambda: R["seq"](obj), lambda q: None if q is None else "a non-nil seq")
    try:
        mc = metacode(R["meta"](obj))
    except Exception as e:  # noqa
        mc = exc(e)
    if mc not in o["ms"]:
        out.append(("meta", o["ms"], mc))
    if o["peek"] != UNSUP:
        cmp("peek", o["peek"], lambda: R["peek"](obj), code)
    isseq = ty in ("vec", "list", "queue")
    for p, pc in enumerate(probes):
        k = idx(pc) if isseq else val(pc)
        if o["nth"][p] != UNSUP:
            cmp("nth", o["nth"][p], lambda: R["nth"](obj, k), code)
        if o["get"][p] != UNSUP:
            cmp("get", o["get"][p], lambda: R["get"](obj, k), code)
        if o["has"][p] != UNSUP:
            cmp("contains?", o["has"][p], lambda: R["contains?"](obj, k), lambda b: 1 if b is True else 0 if b is False else repr(b))
    return out


# ------------------------------------------------------------------------------------------------
# executing one step
# ------------------------------------------------------------------------------------------------
class World:
    """the real objects of one node of the history tree (or of a linear history)"""
    __slots__ = ("objs", "obs", "snaps", "taint", "trans")

    def __init__(self):
        self.objs, self.obs, self.snaps, self.taint, self.trans = [], [], [], [], []

    def child(self):
        w = World()
        w.objs, w.obs, w.snaps, w.taint = list(self.objs), list(self.obs), list(self.snaps), list(self.taint)
        w.trans = [dict(t) for t in self.trans]
        return w


def persistent_op(ty, w, act):
    R = real()
    a, i, j, k, v = act
    src = w.objs[i - 1]
    if a == "conj":
        return R["conj"](src, val(v))
    if a == "conje":
        return R["conj"](src, R["vec"].v(val(k), val(v)))
    if a == "assoc":
        return R["assoc"](src, val(k) if ty == "map" else idx(k), val(v))
    if a == "dissoc":
        return R["dissoc"](src, val(k))
    if a == "disj":
        return R["disj"](src, val(v))
    if a == "pop":
        return R["pop"](src)
    if a == "into":
        return R["into"](src, w.objs[j - 1])
    if a == "merge":
        return R["merge"](src, w.objs[j - 1])
    if a == "empty":
        return R["empty"](src)
    if a == "withmeta":
        return R["with-meta"](src, R["metas"][v])
    if a == "update":
        return R["update"](src, val(k) if ty == "map" else idx(k), R["f"][v])
    raise ValueError(a)


def transient_op(ty, t, act):
    R = real()
    a, _, _, k, v = act
    if a in ("conj!", "zombie"):
        if ty == "map":
            return R["assoc!"](t, val(v), val(v))
        return R["conj!"](t, val(v))
    if a == "assoc!":
        return R["assoc!"](t, val(k) if ty == "map" else idx(k), val(v))
    if a == "dissoc!":
        return R["dissoc!"](t, val(k))
    if a == "disj!":
        return R["disj!"](t, val(v))
    if a == "pop!":
        return R["pop!"](t)
    raise ValueError(a)


def live_transient(ty, w, tix, rebuild):
    """the real transient number tix in world w; in tree mode it is rebuilt from its recipe, because the
    instance the parent node used may have been mutated by a sibling branch"""
    R = real()
    rec = w.trans[tix - 1]
    if rebuild or rec["inst"] is None:
        t = R["transient"](w.objs[rec["src"] - 1])
        for op in rec["ops"]:
            try:
                transient_op(ty, t, op)
            except Exception:  # noqa
                pass
        rec["inst"] = t
    return rec["inst"]


def do_step(ty, w, step, probes, rebuild, ctx, mism):
    """perform step on world w (mutates w) and compare; mismatches are appended to mism"""
    R = real()
    act = step["act"]
    a = act[0]
    exp_r = step["r"]

    def bad(what, expected, observed, **kw):
        mism.append(dict(ctx, act=act, what=what, expected=expected, observed=observed, **kw))

    if a == "zombie":
        rec = w.trans[act[1] - 1]
        if rec["inst"] is not None:
            try:
                transient_op(ty, rec["inst"], act)
            except Exception:  # noqa
                pass
        return
    if a == "transient":
        if w.taint[act[1] - 1]:
            w.trans.append({"src": act[1], "ops": [], "inst": None, "taint": True})
            return
        try:
            t = R["transient"](w.objs[act[1] - 1])
        except Exception as e:  # noqa
            bad("result", "ok", exc(e))
            w.trans.append({"src": act[1], "ops": [], "inst": None, "taint": True})
            return
        w.trans.append({"src": act[1], "ops": [], "inst": t, "taint": False})
        _tcount(t, step["tn"], bad)
        return
    if a in ("conj!", "assoc!", "dissoc!", "disj!", "pop!"):
        rec = w.trans[act[1] - 1]
        if rec["taint"]:
            return
        t = live_transient(ty, w, act[1], rebuild)
        try:
            r = transient_op(ty, t, act)
            got = "ok"
            if r is not t:
                rec["inst"] = r if r is not None else t
        except Exception as e:  # noqa
            got = exc(e)
        if (got == "ok") != (exp_r == "ok"):
            bad("result", exp_r, got)
            rec["taint"] = True
            return
        rec["ops"] = rec["ops"] + [act]
        _tcount(rec["inst"], step["tn"], bad)
        return
    if a == "persistent!":
        rec = w.trans[act[1] - 1]
        if rec["taint"]:
            _append(ty, w, None, step["o"], True)
            return
        t = live_transient(ty, w, act[1], rebuild)
        try:
            obj = R["persistent!"](t)
        except Exception as e:  # noqa
            bad("result", "ok", exc(e))
            _append(ty, w, None, step["o"], True)
            return
        _new_object(ty, w, obj, step["o"], probes, bad, src=rec["src"])
        return
    # ---- a persistent operation ------------------------------------------------------------
    srcs = [act[1]] + ([act[2]] if a in ("into", "merge") else [])
    if any(w.taint[s - 1] for s in srcs):
        if exp_r == "ok":
            _append(ty, w, None, step["o"], True)
        return
    try:
        obj = persistent_op(ty, w, act)
        got = "ok"
    except Exception as e:  # noqa
        got = exc(e)
    if (got == "ok") != (exp_r == "ok"):
        bad("result", "ok" if exp_r == "ok" else "raises", got if got != "ok" else "returns " + type(obj).__name__)
        if exp_r == "ok":
            _append(ty, w, None, step["o"], True)
        return
    if exp_r == "ok":
        _new_object(ty, w, obj, step["o"], probes, bad, src=act[1])


def _tcount(t, n, bad):
    R = real()
    try:
        got = R["count"](t)
    except Exception as e:  # noqa
        got = exc(e)
    if got != n:
        bad("count-of-transient", n, got)


def _append(ty, w, obj, o, taint):
    w.objs.append(obj)
    w.obs.append(o)
    w.snaps.append(None if taint else snapshot(ty, obj))
    w.taint.append(taint)


def _new_object(ty, w, obj, o, probes, bad, src=None):
    R = real()
    tname = type(obj).__name__
    diffs = observe(ty, obj, o, probes)
    wrong_type = tname != R["types"][ty]
    for what, e, g in diffs[:6]:
        if what == "meta":
            # name the outcome relative to the metadata of the source version
            sm = w.snaps[src - 1][2] if src and w.snaps[src - 1] and len(w.snaps[src - 1]) == 4 else None
            e = "nil" if e == [0] else ("the metadata of the source" if src and e == [sm] else "the given map") \
                if len(e) == 1 else "the metadata of the source, or nil"
            g = "nil" if g == 0 else "the metadata of the source" if g == sm else "another map" if isinstance(g, int) else g
        bad(what, e, g, rtype=tname if wrong_type else None)
    # `=` and hash against every earlier version
    if not diffs:
        xs = norm_xs(ty, o["xs"])
        for j, oj in enumerate(w.obs):
            if w.taint[j]:
                continue
            same = norm_xs(ty, oj["xs"]) == xs
            try:
                eq1, eq2 = R["="](obj, w.objs[j]), R["="](w.objs[j], obj)
            except Exception as e:  # noqa
                eq1 = eq2 = exc(e)
            if eq1 is not same or eq2 is not same:
                bad("=", same, [eq1, eq2], other=j + 1, rtype=tname if wrong_type else None)
                diffs = True
                break
            if same and R["hash"](obj) != R["hash"](w.objs[j]):
                bad("hash-of-equal-values", "equal", "different", other=j + 1, rtype=tname if wrong_type else None)
                diffs = True
                break
    # an object that does not behave like its model is not used as a source of further comparisons
    _append(ty, w, obj, o, bool(diffs))


def recheck(ty, w, probes, full, ctx, mism, upto=None):
    """every object produced so far still shows what it showed when it was created"""
    n = len(w.objs) if upto is None else upto
    for j in range(n):
        if w.taint[j]:
            continue
        s = snapshot(ty, w.objs[j])
        if s != w.snaps[j]:
            mism.append(dict(ctx, act=None, what="earlier-version-changed", version=j + 1,
                             expected=_snapstr(w.snaps[j]), observed=_snapstr(s)))
            w.taint[j] = True
            continue
        if full:
            d = observe(ty, w.objs[j], w.obs[j], probes)
            if d:
                mism.append(dict(ctx, act=None, what="earlier-version-changed:" + d[0][0], version=j + 1,
                                 expected=d[0][1], observed=d[0][2]))
                w.taint[j] = True


def _snapstr(s):
    if len(s) == 1:
        return s[0]
    return {"count": s[0], "seq": s[1], "meta": s[2], "hash": s[3]}


# ------------------------------------------------------------------------------------------------
# jobs (each runs in a pool worker: TLC, parse, replay)
# ------------------------------------------------------------------------------------------------
def probes_of(ty, o):
    n = len(o["get"])
    if ty in ("vec", "list", "queue"):
        return [-1, -2] + list(range(n - 2))
    return KEYS4 if n == 4 else KEYSBIG


KEYS4 = [0, 1, 2, 3]
KEYSBIG = [0, 1, 2, 3] + list(range(10, 46))


def job_tree(ty, depth, shard, nshards, cap=40):
    """-> dict(summary)"""
    t0 = time.time()
    cfg = "Collections_T%d_%s.cfg" % (depth, ty)
    if nshards > 1:
        src = open(os.path.join(tlc.SPECS, cfg)).read().replace("Shard = 0  NShards = 1",
                                                                 "Shard = %d  NShards = %d" % (shard, nshards))
        d = os.path.join(tlc.WORK, "data")
        os.makedirs(d, exist_ok=True)
        cfg = os.path.join(d, "%d_Collections_T%d_%s_s%d_%d.cfg" % (os.getpid(), depth, ty, shard, nshards))
        with open(cfg, "w") as f:
            f.write(src)
    try:
        r = tlc.run("Collections_MC", cfg, workers=2, timeout=3000)
    finally:
        if nshards > 1:
            os.unlink(cfg)
    if r.violated or not r.ok:
        return {"kind": "tree", "ty": ty, "error": "TLC: %s" % (r.violated or r.out[-300:])}
    lines = r.tagged("NODE")
    t1 = time.time()
    by = {}
    kids = {}
    for n in lines:
        by[tuple(tuple(a) for a in n["p"])] = n        # (TLC evaluates the constraint more than once per state)
    for p in by:
        if p:
            kids.setdefault(p[:-1], []).append(p)
    root = by[()]
    probes = probes_of(ty, root["s"]["o"])
    R = real()
    mism = []
    w0 = World()
    ctx0 = {"ty": ty, "mode": "tree", "path": []}
    _new_object(ty, w0, R["empty-of"][ty], root["s"]["o"], probes,
                lambda what, e, g, **kw: mism.append(dict(ctx0, act=None, what=what, expected=e, observed=g, **kw)))
    nodes = ops = leaves = 0
    nontriv = 0
    stack = [((), w0)]
    while stack:
        p, w = stack.pop()
        ch = kids.get(p)
        if not ch:
            leaves += 1
            recheck(ty, w, probes, True, {"ty": ty, "mode": "tree", "path": [list(a) for a in p]}, mism)
            continue
        for cp in sorted(ch):
            node = by[cp]
            wc = w.child()
            ctx = {"ty": ty, "mode": "tree", "path": [list(a) for a in cp]}
            before = len(mism)
            do_step(ty, wc, node["s"], probes, True, ctx, mism)
            recheck(ty, wc, probes, False, ctx, mism, upto=len(w.objs))
            nodes += 1
            if len(cp) >= 2 and cp[-1][1] != len(wc.objs) - 1:
                nontriv += 1          # the step worked on a version that is not the newest one: a branch
            if len(mism) > before and len(mism) > 4000:
                stack = []
                break
            stack.append((cp, wc))
    return {"kind": "tree", "ty": ty, "depth": depth, "shard": shard, "nshards": nshards, "nodes": nodes,
            "leaves": leaves, "nontriv": nontriv, "mism": _cap(mism, cap), "nmism": len(mism),
            "tlc": (r.distinct, r.generated, r.wall), "parse_replay_s": round(time.time() - t1, 1),
            "wall": round(time.time() - t0, 1),
            "sample": {"type": ty, "path": [list(a) for a in max(by, key=len)], "last": by[max(by, key=len)]["s"]["o"]}}


def job_sim(ty, seed, ntraces, cap=40):
    t0 = time.time()
    r = tlc.run("Collections_MC", "Collections_Sim_%s.cfg" % ty, workers=1, simulate=ntraces, depth=500, seed=seed,
                timeout=3000)
    if r.violated or not r.ok:
        return {"kind": "sim", "ty": ty, "error": "TLC: %s" % (r.violated or r.out[-300:])}
    behs = r.tagged("BEH")
    t1 = time.time()
    mism = []
    steps = 0
    big = 0
    for bi, b in enumerate(behs):
        m, n, mx = run_linear(ty, b, extra={"seed": seed, "ntraces": ntraces, "index": bi})
        mism.extend(m)
        steps += n
        if mx >= 33:
            big += 1
    return {"kind": "sim", "ty": ty, "seed": seed, "histories": len(behs), "steps": steps, "reached33": big,
            "mism": _cap(mism, cap), "nmism": len(mism), "tlc": (r.distinct, r.generated, r.wall),
            "parse_replay_s": round(time.time() - t1, 1), "wall": round(time.time() - t0, 1),
            "sample": {"type": ty, "random_history_actions": [s["act"] for s in behs[0]["steps"][:12]]} if behs else None}


def run_linear(ty, b, upto=None, extra=None):
    """execute one random history -> (mismatches, steps, largest collection)"""
    R = real()
    probes = probes_of(ty, b["root"])
    mism = []
    acts = [s["act"] for s in b["steps"]]
    ctx = dict({"ty": ty, "mode": "sim", "path": acts}, **(extra or {}))
    w = World()

    def bad0(what, e, g, **kw):
        mism.append(dict(ctx, step=0, act=None, what=what, expected=e, observed=g, **kw))
    _new_object(ty, w, R["empty-of"][ty], b["root"], probes, bad0)
    # the 31-element start version, built with into from a vector of its elements
    sx = b["seed"]["xs"]
    if ty == "map":
        src = R["vec"].vector([R["vec"].v(val(k), val(v)) for k, v in sorted(sx)])
    else:
        src = R["vec"].vector([val(c) for c in (sx if ty in ("vec", "queue") else sorted(sx) if ty == "set" else sx[::-1])])
    _new_object(ty, w, R["into"](R["empty-of"][ty], src), b["seed"], probes, bad0)
    mx = 0
    for n, step in enumerate(b["steps"], 1):
        if upto is not None and n > upto:
            break
        c = dict(ctx, step=n)
        do_step(ty, w, step, probes, False, c, mism)
        recheck(ty, w, probes, False, c, mism)
        if "n" in step["o"]:
            mx = max(mx, step["o"]["n"])
        if len(mism) > 200:
            break
    recheck(ty, w, probes, True, dict(ctx, step=len(b["steps"])), mism)
    return mism, len(b["steps"]), mx


def job_mc(name, expect_violation=None):
    r = tlc.run("Collections_MC", "Collections_%s.cfg" % name, workers=2, timeout=3000)
    return {"kind": "mc", "name": name, "violated": r.violated, "ok": r.ok, "expect": expect_violation,
            "tlc": (r.distinct, r.generated, r.wall), "tail": r.out[-400:] if not r.ok and not r.violated else ""}


def _cap(mism, cap):
    """keep at most `cap` mismatches per signature (and nothing that is not plain data: results cross processes)"""
    seen = {}
    out = []
    for m in mism:
        s = signature(m)
        seen[s] = seen.get(s, 0) + 1
        if seen[s] <= cap:
            out.append(m)
    return json.loads(json.dumps(out, default=lambda o: "<%s>" % type(o).__name__))


def _run_job(j):
    try:
        real()
        return globals()["job_" + j[0]](*j[1:])
    except Exception as e:  # noqa
        import traceback
        return {"kind": j[0], "error": "%s: %s\n%s" % (type(e).__name__, e, traceback.format_exc()[-1500:]), "job": j}


# ------------------------------------------------------------------------------------------------
# signatures
# ------------------------------------------------------------------------------------------------
def _vk(x):
    """a value -> its class (signatures name classes of values, not the values)"""
    if isinstance(x, str):
        if x.startswith("raises ") or x.startswith("returns "):
            return x
        if x.startswith("?"):
            return "foreign-value"
        return x
    if x is None:
        return "nil"
    if isinstance(x, bool):
        return str(x).lower()
    if isinstance(x, int):
        return "nil" if x == 0 else "value"
    if isinstance(x, list):
        return "seq[%d]" % len(x) if len(x) < 3 else "seq[n]"
    if isinstance(x, dict):
        return "snapshot"
    return type(x).__name__


def signature(m):
    a = m["act"][0] if m.get("act") else "-"
    if a == "withmeta" and m["what"] == "meta":
        # with-meta is one function of basilisp.core for all collection types
        return "with-meta:given=%s:observed=%s" % (m["expected"], m["observed"])
    s = "%s:%s:%s:expected=%s:observed=%s" % (m["ty"], a, m["what"], _vk(m["expected"]), _vk(m["observed"]))
    if m.get("rtype"):
        s += ":result-type=" + m["rtype"]
    return s


# ------------------------------------------------------------------------------------------------
class _R2:
    def __init__(self, t):
        self.distinct, self.generated, self.wall = t


def plan(tier):
    jobs = []
    for ty in TYPES:
        jobs.append(("mc", "MC_" + ty))
    jobs.append(("mc", "Neg_vecpop", "Laws"))
    jobs.append(("mc", "Neg_merge", "Laws"))
    if tier == "quick":
        # sized for <= ~90 s on 16 idle cores: every job is its own TLC JVM
        tree = {"vec": (3, 1, None), "map": (3, 4, None), "set": (3, 2, None), "list": (4, 4, None), "queue": (3, 1, None)}
        nsim, per = 2, 40
    else:
        # (depth, number of shards, shards that are run: None = all)
        tree = {"vec": (4, 16, None), "map": (4, 64, list(range(0, 64, 8))), "set": (4, 16, None),
                "list": (5, 32, list(range(0, 32, 4))), "queue": (5, 32, list(range(0, 32, 4)))}
        nsim, per = 12, 100
    for ty, (d, ns, which) in tree.items():
        for sh in (which if which is not None else range(ns)):
            jobs.append(("tree", ty, d, sh, ns))
    for ty in TYPES:
        for k in range(nsim):
            jobs.append(("sim", ty, 1000 * (k + 1) + 7, per))
    return jobs, tree


def run(chk):
    import multiprocessing as mp
    procs = int(os.environ.get("VERIF_PROCS") or 16)
    real()
    chk.rule = ("tree: every node of the history tree is one real operation on the real objects of its parent node; "
                "random: every step of every history; after each, every earlier object is re-checked.  non-trivial "
                "= a step that operates on a version that is not the newest one (a branch: an old value is picked up "
                "again after later operations on its descendants), or a random history that reaches 33+ elements")
    jobs, tree = plan(chk.tier)
    jobs = [(j[0], j[1], j[2] + chk.seed, j[3]) if j[0] == "sim" else j for j in jobs]
    # biggest first
    order = {"tree": 0, "sim": 1, "mc": 2}
    jobs.sort(key=lambda j: (order[j[0]], -(j[2] if j[0] == "tree" else 0)))
    pool = mp.get_context("fork").Pool(procs)
    results = list(pool.imap_unordered(_run_job, jobs))
    pool.close()
    pool.join()
    mism = []
    per = {}
    for r in sorted(results, key=lambda r: json.dumps([r.get("kind"), r.get("ty"), r.get("name"), r.get("shard"),
                                                        r.get("seed")])):
        if "error" in r:
            chk.machinery("%s job failed: %s ... %s" % (r["kind"], r["error"][:200], r["error"][-900:]))
            continue
        chk.add_tlc("%s:%s" % (r["kind"], r.get("name") or "%s/%s" % (r["ty"], r.get("shard", r.get("seed")))),
                    _R2(r["tlc"]))
        if r["kind"] == "mc":
            if r["expect"]:
                if r["expect"] not in r["violated"]:
                    chk.machinery("Collections_%s: the faulty model is NOT rejected (%s)" % (r["name"], r["violated"]))
            elif r["violated"] or not r["ok"]:
                chk.machinery("Collections_%s: the model breaks its own laws: %s %s" % (r["name"], r["violated"], r["tail"]))
            continue
        k = per.setdefault(r["kind"] + ":" + r["ty"], {"nodes": 0, "histories": 0, "steps": 0, "reached33": 0,
                                                       "mismatches": 0})
        if r["kind"] == "tree":
            k["nodes"] += r["nodes"]
            k["histories"] += r["leaves"]
            k["depth"] = r["depth"]
            chk.count(r["nodes"], traces=r["leaves"])
            chk.nontriv(n=r["nontriv"])
        else:
            k["histories"] += r["histories"]
            k["steps"] += r["steps"]
            k["reached33"] += r["reached33"]
            chk.count(r["steps"], traces=r["histories"])
            chk.nontriv(n=r["reached33"])
        k["mismatches"] += r["nmism"]
        if r.get("sample") and r.get("shard", 0) == 0 and len(chk.samples) < 6:
            chk.sample(r["sample"], cap=10)
        mism.extend(r["mism"])
    for ty, (d, ns, which) in tree.items():
        per.setdefault("tree:" + ty, {})["shards_run"] = "%d of %d" % (len(which) if which is not None else ns, ns)
    chk.extra["per_type"] = per
    chk.exhaustive = all(w is None for _, _, w in tree.values())
    report(chk, mism)


def report(chk, mism):
    seen = {}
    for m in mism:
        s = signature(m)
        seen[s] = seen.get(s, 0) + 1
        if seen[s] > 20:
            continue
        case = {"ty": m["ty"], "mode": m["mode"], "path": m["path"], "step": m.get("step", len(m["path"])),
                "what": m["what"]}
        for k in ("seed", "ntraces", "index"):
            if k in m:
                case[k] = m[k]
        if m.get("version"):
            case["version"] = m["version"]
        clause = "Collections!AppendOnly" if m["what"].startswith("earlier-version-changed") else \
            "Collections!Result" if m["what"] == "result" else "Collections!Obs"
        chk.discrepancy(clause, case, m["expected"], m["observed"], sig=s, module="Collections",
                        direction="spec->code", extra={"act": m.get("act"), "result_type": m.get("rtype")})
    chk.extra["discrepancies_by_sig"] = seen


def replay(chk, body):
    """re-execute the recorded history through the same machinery as the check (the model observations are
    produced by TLC again: the tree job of that depth, or the simulation with the recorded seed)"""
    case = body["case"]
    ty = case["ty"]
    real()
    print("type", ty, "mode", case["mode"], "step", case["step"], "history:")
    for n, a in enumerate(case["path"][:case["step"] if case["mode"] == "sim" else None], 1):
        print("  %2d %s" % (n, a))
    chk.count()
    if case["mode"] == "tree":
        want = tuple(tuple(a) for a in case["path"])
        r = tlc.run("Collections_MC", "Collections_T%d_%s.cfg" % (max(2, len(want)), ty), workers=4, timeout=3000)
        by = {tuple(tuple(a) for a in n["p"]): n for n in r.tagged("NODE")}
        probes = probes_of(ty, by[()]["s"]["o"])
        mism = []
        w = World()
        _new_object(ty, w, real()["empty-of"][ty], by[()]["s"]["o"], probes, lambda *a, **k: None)
        for n in range(1, len(want) + 1):
            node = by.get(want[:n])
            if node is None:
                chk.machinery("replay: TLC does not generate the recorded path any more")
                return
            ctx = {"ty": ty, "mode": "tree", "path": [list(a) for a in want[:n]]}
            do_step(ty, w, node["s"], probes, True, ctx, mism)
            recheck(ty, w, probes, True, ctx, mism)
            print("  after step %d: %s" % (n, [(type(o).__name__, snapshot(ty, o)[:3]) if not w.taint[i] else "(tainted)"
                                              for i, o in enumerate(w.objs)]))
    else:
        r = tlc.run("Collections_MC", "Collections_Sim_%s.cfg" % ty, workers=1, simulate=case["ntraces"], depth=500,
                    seed=case["seed"], timeout=3000)
        b = r.tagged("BEH")[case["index"]]
        mism, _, _ = run_linear(ty, b, upto=case["step"])
    for m in mism:
        print("  MISMATCH", signature(m), "expected", m["expected"], "observed", m["observed"])
    hit = [m for m in mism if signature(m) == body["sig"]] or mism
    if hit:
        m = hit[0]
        chk.discrepancy(body["clause"], case, m["expected"], m["observed"], sig=signature(m), module="Collections",
                        direction="replay")
