"""C19 -- EDN, JSON and bencode codecs invert themselves and never mis-frame.

Thin dispatcher over the two halves of the property:
  c19_bencode  Bencode.tla / Bencode_Trace.tla   (encode/decode inversion, framing under every cut)
  c19_codecs   PrintRead.tla views               (EDN and JSON round trips)
Each half exposes run_part(chk) and replay_part(chk, body); replay cases carry case["part"].
"""
import importlib

PARTS = {"bencode": "c19_bencode", "codecs": "c19_codecs"}


def _part(name):
    """the module of a half, or None when it does not exist (yet)"""
    try:
        return importlib.import_module(PARTS[name])
    except ImportError as ex:
        if ex.name == PARTS[name]:
            return None
        raise


def run(chk):
    for name in ("bencode", "codecs"):
        mod = _part(name)
        if mod is not None:
            mod.run_part(chk)


def replay(chk, body):
    name = (body.get("case") or {}).get("part", "bencode")
    mod = _part(name) if name in PARTS else None
    if mod is None:
        chk.machinery(f"C19 replay: no driver for part {name!r}")
        return
    mod.replay_part(chk, body)
