"""Child interpreter of the C14 check: ONE load of one namespace in a fresh process.

usage: python c14_child.py <job.json>

The parent fixes PYTHONHASHSEED and PYTHONPYCACHEPREFIX (a cache directory owned by the run) in the
environment.  job = {
  root:    directory put in front of sys.path (where the generated namespace lives), or null
  module:  Python module name to import ("c14gen.alpha", "basilisp.string", ...)
  source:  path of its source file
  ns:      Lisp namespace name ("c14gen.alpha")
  write:   bool -- sys.dont_write_bytecode is set to (not write) explicitly
  crash_at: null | k -- the process dies (os._exit) inside the real set_data() after exactly k bytes of
           the cache file of `module` have been written (k is clamped to len(data) - 1, or to len(data)
           when crash_full: everything is written but the file is never closed)
  edit:    null | {at: "started"|"use"|"fallback"|"towrite", content: <file with the new source text>,
           mtime: <int>} -- the source file is replaced while the load is in that phase (after the loader
           stat'ed the source: before it reads the cache / executes cached code / reads the source /
           right after the source has been compiled and executed, before the cache is written)
  caller:  Lisp text compiled FROM SOURCE in this process after the import (form by form in a scratch
           namespace); the printed value of every form is reported
  snapshot: "full" | "names" | "none"
  out:     path of the JSON result
}
Observation is by wrapping module-level functions of basilisp.importer / basilisp.lang.compiler BEFORE the
import (nothing under the repository is edited); events concern only `module`:
  start      path_stats(source file): the stat the loader will compare the cache header with
  read       get_data(cache file): n bytes | the OSError family raised
  decode     _get_basilisp_bytecode: ok | the exception raised (class + its bases)
  exec_cached begin/end   compile_bytecode (cached code objects are executed)
  recompile   begin/end   compile_module   (source is read, compiled and executed)
  write      begin/end    set_data(cache file)  (n bytes)
No verdict is computed here.
"""
import importlib
import json
import os
import re
import sys
import time
import types

import boot

job = json.load(open(sys.argv[1]))
OUT = job["out"]
res = {"events": [], "import": None, "caller": None, "snapshot": None, "seed": os.environ.get("PYTHONHASHSEED"),
       "prefix": sys.pycache_prefix}
events = res["events"]


def flush():
    tmp = OUT + ".tmp"
    with open(tmp, "w") as f:
        json.dump(res, f)
    os.replace(tmp, OUT)


def exc_info(e):
    return {"cls": type(e).__name__, "mro": [c.__name__ for c in type(e).__mro__ if c not in (object,)],
            "msg": str(e)[:300]}


sys.dont_write_bytecode = not job["write"]
if job.get("root"):
    sys.path.insert(0, job["root"])
boot.preload_native()
t0 = time.time()
from basilisp import importer  # noqa: E402
from basilisp import main as bmain  # noqa: E402
from basilisp.lang import compiler, runtime  # noqa: E402
from basilisp.lang import symbol as sym  # noqa: E402

MODULE = job["module"]
_state = {"cache_path": importer._cache_from_source(job["source"]), "file": None}

_orig_decode = importer._get_basilisp_bytecode
_orig_compile_module = compiler.compile_module
_orig_compile_bytecode = compiler.compile_bytecode
_orig_get_data = importer.BasilispImporter.get_data
_orig_set_data = importer.BasilispImporter.set_data
_orig_path_stats = importer.BasilispImporter.path_stats


def _path_stats(self, path):
    r = _orig_path_stats(self, path)
    if _state["file"] is None and path == job["source"]:
        _state["file"] = path
        events.append({"ev": "start", "cache": _state["cache_path"], "source": path, "mtime": r["mtime"],
                       "size": r["size"]})
    return r


def _edit(phase):
    ed = job.get("edit")
    if ed and ed["at"] == phase and not _state.get("edited"):
        _state["edited"] = True
        with open(ed["content"], "rb") as f:
            data = f.read()
        with open(job["source"], "wb") as f:
            f.write(data)
        os.utime(job["source"], (ed["mtime"], ed["mtime"]))
        events.append({"ev": "edit", "at": phase, "size": len(data), "mtime": ed["mtime"]})


def _get_data(self, path):
    if path != _state["cache_path"]:
        return _orig_get_data(self, path)
    _edit("started")
    try:
        d = _orig_get_data(self, path)
    except BaseException as e:
        events.append({"ev": "read", "out": "raise", "exc": exc_info(e)})
        raise
    events.append({"ev": "read", "out": "ok", "n": len(d)})
    return d


def _decode(fullname, mtime, size, data):
    if fullname != MODULE:
        return _orig_decode(fullname, mtime, size, data)
    try:
        r = _orig_decode(fullname, mtime, size, data)
    except BaseException as e:
        events.append({"ev": "decode", "out": "raise", "exc": exc_info(e)})
        raise
    events.append({"ev": "decode", "out": "ok", "n": len(r)})
    return r


def _compile_bytecode(code, gctx, optimizer, module):
    if module.__name__ != MODULE:
        return _orig_compile_bytecode(code, gctx, optimizer, module)
    _edit("use")
    events.append({"ev": "exec_cached", "at": "begin"})
    try:
        r = _orig_compile_bytecode(code, gctx, optimizer, module)
    except BaseException as e:
        events.append({"ev": "exec_cached", "at": "end", "out": "raise", "exc": exc_info(e)})
        raise
    events.append({"ev": "exec_cached", "at": "end", "out": "ok"})
    return r


def _compile_module(forms, ctx, module, collect_bytecode=None):
    if module.__name__ != MODULE:
        return _orig_compile_module(forms, ctx, module, collect_bytecode=collect_bytecode)
    _edit("fallback")
    events.append({"ev": "recompile", "at": "begin"})
    try:
        r = _orig_compile_module(forms, ctx, module, collect_bytecode=collect_bytecode)
    except BaseException as e:
        events.append({"ev": "recompile", "at": "end", "out": "raise", "exc": exc_info(e)})
        raise
    events.append({"ev": "recompile", "at": "end", "out": "ok"})
    _edit("towrite")
    return r


def _set_data(self, path, data):
    if path != _state["cache_path"]:
        return _orig_set_data(self, path, data)
    events.append({"ev": "write", "at": "begin", "n": len(data)})
    r = _orig_set_data(self, path, data)
    events.append({"ev": "write", "at": "end", "n": len(data)})
    return r


class _CrashingFile:
    """what open(cache, 'w+b') returns when a crash is injected: the real file object; write() writes a
    prefix for real and the process dies without unwinding"""

    def __init__(self, f, k):
        self.f, self.k = f, k

    def __enter__(self):
        return self

    def __exit__(self, *a):
        self.f.close()
        return False

    def write(self, data):
        k = min(self.k, len(data) if job.get("crash_full") else len(data) - 1)
        os.write(self.f.fileno(), bytes(data[:k]))
        events.append({"ev": "crash", "written": k, "of": len(data)})
        res["import"] = {"out": "crashed"}
        flush()
        os._exit(77)


def _open(path, mode="r", *a, **kw):
    f = open(path, mode, *a, **kw)
    if job.get("crash_at") is not None and path == _state["cache_path"] and "w" in mode:
        events.append({"ev": "truncated", "n": os.fstat(f.fileno()).st_size})
        return _CrashingFile(f, int(job["crash_at"]))
    return f


importer._get_basilisp_bytecode = _decode
compiler.compile_module = _compile_module
compiler.compile_bytecode = _compile_bytecode
importer.BasilispImporter.get_data = _get_data
importer.BasilispImporter.set_data = _set_data
importer.BasilispImporter.path_stats = _path_stats
importer.open = _open          # module global shadowing the builtin: the real set_data/get_data code runs

bmain.init()
importlib.import_module("basilisp.core")
res["t_core"] = round(time.time() - t0, 3)
res["kwhash"] = {k: hash((k, None)) for k in job.get("kwnames", [])}

try:
    importlib.import_module(MODULE)
    res["import"] = {"out": "ok"}
except BaseException as e:  # noqa
    res["import"] = {"out": "raise", "exc": exc_info(e)}

HEX = re.compile(r"0x[0-9a-fA-F]+")


def show(v, depth=0):
    """printed value, modulo what the property does not fix: addresses, and the iteration order of hash maps and
    sets (their elements are printed in sorted order)"""
    from basilisp.lang.interfaces import IPersistentMap, IPersistentSet, IPersistentVector, ISeq, IRecord, IType
    pr = boot.core_fn("pr-str")
    if isinstance(v, (types.FunctionType, types.BuiltinFunctionType, types.MethodType)):
        return "#<fn>"
    if isinstance(v, type):
        return "#<type %s>" % v.__name__
    try:
        if depth < 8:
            if isinstance(v, IRecord):
                return "#%s{%s}" % (type(v).__name__, ", ".join(sorted(show(k, depth + 1) + " " + show(x, depth + 1)
                                                                          for k, x in v.items())))
            if isinstance(v, (IPersistentMap, dict)):
                return ("#py " if isinstance(v, dict) else "") + "{%s}" % ", ".join(
                    sorted(show(k, depth + 1) + " " + show(x, depth + 1) for k, x in v.items()))
            if isinstance(v, (IPersistentSet, set, frozenset)):
                return ("#py " if not isinstance(v, IPersistentSet) else "") + "#{%s}" % " ".join(
                    sorted(show(x, depth + 1) for x in v))
            if isinstance(v, (IPersistentVector, list, tuple)):
                return ("" if isinstance(v, IPersistentVector) else "#py ") + "[%s]" % " ".join(
                    show(x, depth + 1) for x in v)
            if isinstance(v, ISeq):
                out = []
                for x in v:
                    out.append(show(x, depth + 1))
                    if len(out) >= 64:
                        out.append("...")
                        break
                return "(%s)" % " ".join(out)
        s = pr(v)
    except BaseException as e:  # noqa
        return "#<unprintable %s>" % type(e).__name__
    return HEX.sub("0x?", s)


def snapshot(nsname, mode):
    ns = runtime.Namespace.get(sym.symbol(nsname))
    if ns is None:
        return None
    out = []
    for s, v in sorted(ns.interns.items(), key=lambda kv: kv[0].name):
        meta = v.meta
        private = bool(meta and meta.val_at(boot_kw("private")))
        if private:
            continue
        ent = {"name": s.name}
        if mode == "full":
            try:
                val = v.value
            except BaseException as e:  # noqa
                val = None
            ent["val"] = show(val)
            ent["dyn"] = bool(v.dynamic)
            ent["meta"] = sorted((show(k), show(x)) for k, x in (meta or {}).items()) if meta is not None else None
        out.append(ent)
    return out


def boot_kw(name):
    from basilisp.lang import keyword as kwm
    return kwm.keyword(name)


if res["import"]["out"] == "ok":
    try:
        if job.get("snapshot", "full") != "none":
            res["snapshot"] = snapshot(job["ns"], job.get("snapshot", "full"))
    except BaseException as e:  # noqa
        res["snapshot"] = {"error": exc_info(e)}
    if job.get("caller"):
        vals = []
        try:
            sc = boot.Scratch("c14gen.caller%d" % os.getpid())
            for form in sc.read_all(job["caller"]):
                try:
                    vals.append(show(sc.eval_form(form)))
                except BaseException as e:  # noqa
                    vals.append("#<exc %s>" % type(e).__name__)
        except BaseException as e:  # noqa
            vals.append("#<caller failed %s: %s>" % (type(e).__name__, str(e)[:200]))
        res["caller"] = vals
res["t_all"] = round(time.time() - t0, 3)
flush()
os._exit(0)
