"""Imported first by every child interpreter that runs basilisp from the working tree.

boot.init() pre-loads the freshly built native extension (when the harness passed one in
VERIF_NATIVE_SO), initialises basilisp and imports basilisp.core.
"""
import importlib
import importlib.machinery
import importlib.util
import os
import sys

_done = False


def preload_native():
    so = os.environ.get("VERIF_NATIVE_SO", "")
    if so and "basilisp._lang" not in sys.modules:
        import basilisp  # noqa: F401  (package first, so the submodule has a parent)
        loader = importlib.machinery.ExtensionFileLoader("basilisp._lang", so)
        spec = importlib.util.spec_from_file_location("basilisp._lang", so, loader=loader)
        mod = importlib.util.module_from_spec(spec)
        sys.modules["basilisp._lang"] = mod
        loader.exec_module(mod)


def init(**opts):
    """Initialise basilisp; returns (runtime, core namespace)."""
    global _done
    preload_native()
    from basilisp import main as bmain
    from basilisp.lang import compiler, runtime, symbol as sym
    if not _done:
        bmain.init(compiler.compiler_opts(**opts) if opts else None)
        importlib.import_module("basilisp.core")
        _done = True
    return runtime, runtime.Namespace.get(sym.symbol("basilisp.core"))


class Scratch:
    """A scratch namespace in which Lisp text is read and evaluated form by form (as the REPL does)."""

    _n = 0

    def __init__(self, name=None, **opts):
        from basilisp.lang import compiler, runtime, symbol as sym, reader
        init()
        Scratch._n += 1
        self.name = name or f"verif.scratch{Scratch._n}"
        self.runtime, self.compiler, self.reader, self.sym = runtime, compiler, reader, sym
        self.opts = compiler.compiler_opts(**opts)
        self.ctx = compiler.CompilerContext("<verif>", opts=self.opts)
        core = runtime.Namespace.get(sym.symbol("basilisp.core"))
        self.ns = runtime.Namespace.get_or_create(sym.symbol(self.name))
        self.ns.refer_all(core)
        self.cur = self.ns

    def read_all(self, text):
        rt = self.runtime
        with rt.ns_bindings(self.cur.name):
            return list(self.reader.read_str(text, resolver=rt.resolve_alias))

    def eval(self, text):
        """Evaluate every form of text in this namespace; returns the last value."""
        rt = self.runtime
        res = None
        with rt.ns_bindings(self.cur.name):
            for form in self.reader.read_str(text, resolver=rt.resolve_alias):
                res = self.compiler.compile_and_exec_form(form, self.ctx, rt.get_current_ns())
            self.cur = rt.get_current_ns()
        return res

    def eval_form(self, form):
        rt = self.runtime
        with rt.ns_bindings(self.cur.name):
            res = self.compiler.compile_and_exec_form(form, self.ctx, rt.get_current_ns())
            self.cur = rt.get_current_ns()
        return res

    def remove(self):
        self.runtime.Namespace.remove(self.sym.symbol(self.name))
        sys.modules.pop(self.name, None)


def core_fn(name):
    from basilisp.lang import runtime, symbol as sym
    v = runtime.Var.find(sym.symbol(name, ns="basilisp.core"))
    return v.value
