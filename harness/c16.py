"""C16 -- the reader is total, classifies incomplete input, and reports true locations.

spec -> code:  Reader.tla (pushdown automaton over code points) is enumerated by TLC over every string up
to length 4 (quick) / 5 (thorough) over a 23-character delimiter/dispatch alphabet, and to length 6 over
the 14 deepest-nesting characters; for each string TLC emits the set of allowed outcomes and, for `ok`,
the skeleton of the forms with spans and metadata.  Every string is read with the real
basilisp.lang.reader.read_str in up to three concretisations (first representatives + LF, second
representatives + CRLF, CR) and compared: termination, exception class, line/col present, only Lisp data,
skeleton, spans (predicted spans, and re-reading the cut-out span gives an equal form).
Reader_MC checks in TLC that the specification depends only on the character class / line-ending style
(lock-step of two automata) and that cutting out a predicted span and re-reading it gives the same form.

code -> spec:  prefixes and single-character edits of programs generated from a grammar and of top-level
forms of the bundled .lpy sources are read for real; (text, observed outcome, skeleton) records are
validated in batch by Reader_Trace.tla (the same automaton run over the recorded code points).
"""
import json
import os
import random
import re
import signal
import sys
import traceback
import warnings
from decimal import Decimal
from fractions import Fraction

import boot
import tlc
from repo import SRC

CUR_NS = "verif.c16"
OK, EOF, SYN = 1, 2, 4
SUBST = {103: 122, 49: 55, 32: 44, 233: 20013}   # second representative of a class (g z, 1 7, space comma, é 中)

_R = {}


def _init():
    if _R:
        return _R
    rt, _core = boot.init()
    from basilisp.lang import reader, keyword as kw, symbol as sym, list as llist, vector as vec
    from basilisp.lang import map as lmap, set as lset, queue as lqueue
    from basilisp.lang.interfaces import IPersistentList, IPersistentVector, IPersistentMap, IPersistentSet
    rt.Namespace.get_or_create(sym.symbol(CUR_NS))
    _R.update(rt=rt, reader=reader, kw=kw, sym=sym, llist=llist, vec=vec, lmap=lmap, lset=lset,
              IL=llist.PersistentList, IV=IPersistentVector, IQ=lqueue.PersistentQueue, IM=IPersistentMap, IS=IPersistentSet,
              spankeys=(reader.READER_LINE_KW, reader.READER_COL_KW, reader.READER_END_LINE_KW,
                        reader.READER_END_COL_KW))
    return _R


class _Hang(BaseException):
    pass


def _alarm(signum, frame):
    raise _Hang()


# ------------------------------------------------------------------------------------------------
# observing the real reader
# ------------------------------------------------------------------------------------------------
def _site(exc):
    """innermost function of reader.py on the traceback (names the defect site in a signature)"""
    fn = "?"
    for fs in traceback.extract_tb(exc.__traceback__):
        if fs.filename.endswith("reader.py"):
            fn = fs.name
    return fn


def nondata(o, depth=0):
    """-> description of the first object that is not Lisp data inside o, or None"""
    R = _R
    if type(o) is object:
        return "eof-object"
    if isinstance(o, R["reader"].Comment):
        return "comment-object"
    if o is R["reader"].ReaderConditional.FEATURE_NOT_PRESENT:
        return "feature-not-present-object"
    if depth > 60 or isinstance(o, (str, bytes)):
        return None
    m = getattr(o, "meta", None)
    if isinstance(m, R["IM"]):
        r = nondata(m, depth + 1)
        if r:
            return r
    if isinstance(o, (R["IM"], dict)):
        for k, v in o.items():
            r = nondata(k, depth + 1) or nondata(v, depth + 1)
            if r:
                return r
        return None
    if isinstance(o, (R["IL"], R["IV"], R["IS"], R["IQ"], list, tuple, set, frozenset)):
        for x in o:
            r = nondata(x, depth + 1)
            if r:
                return r
        return None
    if hasattr(o, "form") and hasattr(o, "tag"):        # TaggedLiteral
        return nondata(o.form, depth + 1)
    return None


def observe(text):
    """read text with the real reader -> dict(v=ok|eof|syntax|other|hang, forms=[...], ...)"""
    R = _init()
    reader, rt = R["reader"], R["rt"]
    old = signal.signal(signal.SIGVTALRM, _alarm)
    signal.setitimer(signal.ITIMER_VIRTUAL, 20.0)
    try:
        with rt.ns_bindings(CUR_NS), warnings.catch_warnings():
            warnings.simplefilter("ignore")
            forms = list(reader.read_str(text))
        return {"v": "ok", "forms": forms}
    except reader.UnexpectedEOFError as e:
        return {"v": "eof", "loc": e.line is not None and e.col is not None}
    except reader.SyntaxError as e:
        return {"v": "syntax", "loc": e.line is not None and e.col is not None, "msg": e.message[:80]}
    except _Hang:
        return {"v": "hang"}
    except RecursionError:
        return {"v": "other", "type": "RecursionError", "site": "?"}
    except BaseException as e:  # noqa
        return {"v": "other", "type": type(e).__name__, "site": _site(e), "msg": str(e)[:80]}
    finally:
        signal.setitimer(signal.ITIMER_VIRTUAL, 0)
        signal.signal(signal.SIGVTALRM, old)


# ------------------------------------------------------------------------------------------------
# comparing a real form with the skeleton predicted by the specification
#   J = [k, t, xs, sp, so, m, ex]
# ------------------------------------------------------------------------------------------------
def _norm_nl(s):
    return s.replace("\r\n", "\n").replace("\r", "\n")


class Matcher:
    def __init__(self, subst=None):
        self.subst = subst or {}
        self.R = _init()

    def txt(self, cps, e=None):
        if e is not None and e[7] == "syn":          # synthetic symbol (quote, deref ...): spelled by the reader
            return "".join(map(chr, cps))
        return "".join(chr(self.subst.get(c, c)) for c in cps)

    def span_of(self, o):
        m = getattr(o, "meta", None)
        if m is None:
            return None
        ks = self.R["spankeys"]
        vals = [m.val_at(k) for k in ks]
        return None if any(v is None for v in vals) else vals

    def check_span(self, e, o, path, out):
        so, sp = e[4], e[3]
        if so == "any":
            return
        got = self.span_of(o)
        if got is None:
            if so == "req":
                out.append(("span-missing:" + e[0], path, sp, None))
        elif got != list(sp):
            kind = e[0]
            if kind == "set" and got[0] == sp[0] and got[1] == sp[1] + 1 and got[2:] == list(sp[2:]):
                out.append(("span:set-literal->starts-after-hash", path, sp, got))
            elif kind == "map" and e[7] == "ns" and (got[0], got[1]) > (sp[0], sp[1]) and got[2:] == list(sp[2:]):
                out.append(("span:namespaced-map->starts-at-brace", path, sp, got))
            else:
                out.append(("span-wrong:" + kind, path, sp, got))

    def check_meta(self, e, o, path, out):
        if e[0] in ("sq", "fn", "opq"):
            return
        exp = e[5]
        m = getattr(o, "meta", None)
        real = []
        if m is not None:
            real = [(k, v) for k, v in m.items() if k not in self.R["spankeys"]]
        if len(real) != len(exp):
            out.append(("meta-size", path, len(exp), len(real)))
            return
        for ke, ve in exp:
            if not any(not self.match(ke, k, path + "^k") and not self.match(ve, v, path + "^v") for k, v in real):
                out.append(("meta-entry", path, self.txt(ke[1]), str(real)[:80]))

    def match(self, e, o, path="/"):
        """-> list of mismatches (tag, path, expected, got); empty = o is the form e describes"""
        R = self.R
        out = []
        k, t, xs, ex = e[0], e[1], e[2], e[6]
        if k in ("sq", "opq"):
            return out
        if k == "sym":
            if not isinstance(o, R["sym"].Symbol):
                return [("kind", path, k, type(o).__name__)]
            name = (o.ns + "/" + o.name) if o.ns is not None else o.name
            if ex and name != self.txt(t, e):
                out.append(("text", path, self.txt(t, e), name))
        elif k in ("kw", "akw"):
            if not isinstance(o, R["kw"].Keyword):
                return [("kind", path, k, type(o).__name__)]
            if k == "akw":
                if o.ns != CUR_NS or (ex and o.name != self.txt(t)):
                    out.append(("text", path, "::" + self.txt(t), str(o)))
            elif ex:
                name = (o.ns + "/" + o.name) if o.ns is not None else o.name
                if name != self.txt(t, e):
                    out.append(("text", path, self.txt(t, e), name))
            return out
        elif k == "num":
            if isinstance(o, bool) or not isinstance(o, (int, float, complex, Fraction, Decimal)):
                return [("kind", path, k, type(o).__name__)]
            if ex and not (type(o) is int and o == int(self.txt(t))):
                out.append(("text", path, self.txt(t), repr(o)))
            return out
        elif k == "lit":
            want = {"nil": None, "true": True, "false": False}[self.txt(t)]
            return [] if o is want else [("kind", path, self.txt(t), repr(o)[:40])]
        elif k == "str":
            if not isinstance(o, str):
                return [("kind", path, k, type(o).__name__)]
            if ex and _norm_nl(o) != _norm_nl(self.txt(t)):
                out.append(("text", path, self.txt(t), o))
            return out
        elif k == "regex":
            return [] if isinstance(o, re.Pattern) else [("kind", path, k, type(o).__name__)]
        elif k == "bytes":
            return [] if isinstance(o, bytes) else [("kind", path, k, type(o).__name__)]
        elif k == "fn":
            ok = isinstance(o, R["IL"]) and len(o) > 0 and str(o.first) == "fn*"
            return [] if ok else [("kind", path, k, type(o).__name__)]
        elif k in ("list", "vec"):
            iface = R["IL"] if k == "list" else R["IV"]
            if not isinstance(o, iface):
                return [("kind", path, k, type(o).__name__)]
            items = list(o)
            if len(items) != len(xs):
                return [("length", path, len(xs), len(items))]
            for i, (ce, co) in enumerate(zip(xs, items)):
                out += self.match(ce, co, path + str(i) + "/")
        elif k == "set":
            if not isinstance(o, R["IS"]):
                return [("kind", path, k, type(o).__name__)]
            out += self._unordered([[x] for x in xs], [[x] for x in o], path)
        elif k == "map":
            if not isinstance(o, R["IM"]):
                return [("kind", path, k, type(o).__name__)]
            pairs = [[xs[i], xs[i + 1]] for i in range(0, len(xs), 2)]
            out += self._unordered(pairs, [[a, b] for a, b in o.items()], path)
        else:
            return [("kind", path, k, "?")]
        self.check_span(e, o, path, out)
        self.check_meta(e, o, path, out)
        return out

    def _unordered(self, exp, real, path):
        if len(exp) != len(real):
            return [("length", path, len(exp), len(real))]
        n = len(exp)
        mm = [[None] * n for _ in range(n)]

        def cost(i, j):
            if mm[i][j] is None:
                r = []
                for ce, co in zip(exp[i], real[j]):
                    r += self.match(ce, co, path + "{%d}/" % i)
                mm[i][j] = r
            return mm[i][j]
        # perfect matching by augmenting paths over the pairs that match exactly
        owner = [-1] * n

        def aug(i, seen):
            for j in range(n):
                if j not in seen and not cost(i, j):
                    seen.add(j)
                    if owner[j] < 0 or aug(owner[j], seen):
                        owner[j] = i
                        return True
            return False
        bad = [i for i in range(n) if not aug(i, set())]
        if not bad:
            return []
        i = bad[0]
        free = [j for j in range(n) if owner[j] < 0]
        best = min((cost(i, j) for j in free), key=len) if free else [("length", path, n, n)]
        return best


# ------------------------------------------------------------------------------------------------
# span oracle without a model: cutting out the reported span and re-reading it gives an equal form
# ------------------------------------------------------------------------------------------------
def _line_starts(text):
    starts = [0]
    i = 0
    while i < len(text):
        c = text[i]
        if c == "\r":
            if i + 1 < len(text) and text[i + 1] == "\n":
                i += 1
            starts.append(i + 1)
        elif c == "\n":
            starts.append(i + 1)
        i += 1
    return starts


def _eq_reread(sub, o, core_eq):
    ob = observe(sub)
    try:
        return ob["v"] == "ok" and len(ob["forms"]) == 1 and bool(core_eq(ob["forms"][0], o))
    except Exception:  # noqa
        return False


def reread_spans(text, forms, cap=40):
    """for every literal collection / symbol carrying a span inside forms: re-read text[span]
    -> list of (tag, detail)"""
    R = _init()
    core_eq = boot.core_fn("=")
    starts = _line_starts(text)
    out = []
    todo = list(forms)
    n = 0
    while todo and n < cap:
        o = todo.pop()
        if isinstance(o, R["IL"]) and len(o) > 0 and isinstance(o.first, R["sym"].Symbol) \
                and o.first.name == "fn*" and o.first.meta is None:
            continue              # #(...) is a reader macro whose body is rewritten (% arguments)
        if isinstance(o, (R["IL"], R["IV"], R["IS"])):
            todo.extend(list(o))
        elif isinstance(o, R["IM"]):
            for k, v in o.items():
                todo.extend((k, v))
        if not isinstance(o, (R["sym"].Symbol, R["IL"], R["IV"], R["IS"], R["IM"])):
            continue
        m = getattr(o, "meta", None)
        if m is None:
            continue
        vals = [m.val_at(k) for k in R["spankeys"]]
        if any(v is None for v in vals):
            continue
        n += 1
        l, c, el, ec = vals
        if not (1 <= l <= len(starts) and 1 <= el <= len(starts)):
            out.append(("span-out-of-text", str(vals)))
            continue
        a, b = starts[l - 1] + c, starts[el - 1] + ec
        if not (0 <= a < b <= len(text)):
            out.append(("span-out-of-text", str(vals)))
            continue
        sub = text[a:b]
        if isinstance(o, R["IS"]) and sub.startswith("{") and a > 0 and text[a - 1] == "#":
            out.append(("span:set-literal->starts-after-hash", "%r" % sub))
            continue
        if isinstance(o, R["IM"]) and sub.startswith("{") and not _eq_reread(sub, o, core_eq):
            j = text.rfind("#:", 0, a)
            hit = False
            while j >= 0 and a - j < 80 and not hit:
                hit = _eq_reread(text[j:b], o, core_eq)
                j = text.rfind("#:", 0, j)
            if hit:
                out.append(("span:namespaced-map->starts-at-brace", "%r" % sub))
                continue
        ob = observe(sub)
        if ob["v"] != "ok" or len(ob["forms"]) != 1:
            kind = "set" if isinstance(o, R["IS"]) else "map" if isinstance(o, R["IM"]) else \
                "sym" if isinstance(o, R["sym"].Symbol) else "seq"
            out.append(("span-reread-fails:" + kind, "%r -> %r" % (sub, ob["v"])))
        else:
            try:
                same = core_eq(ob["forms"][0], o)
            except Exception:  # noqa
                same = False
            if not same:
                kind = "set" if isinstance(o, R["IS"]) else "map" if isinstance(o, R["IM"]) else \
                    "sym" if isinstance(o, R["sym"].Symbol) else "seq"
                out.append(("span-reread-differs:" + kind, "%r" % sub))
    return out


# ------------------------------------------------------------------------------------------------
# verdict comparison
# ------------------------------------------------------------------------------------------------
def judge(text, code, subst, in_sq_ok=True):
    """compare the real reader on `text` with the specification's code for it.
    code = [mask] | [mask, why] | [mask, why, free, forms]
    -> list of (clause, sig, expected, observed)"""
    mask = code[0]
    why = code[1] if len(code) > 1 else ""
    ob = observe(text)
    v = ob["v"]
    res = direct_problems(ob)
    if res:
        return res
    bit = {"ok": OK, "eof": EOF, "syntax": SYN}[v]
    if not mask & bit:
        res.append(("Reader!EofIffOwed", verdict_sig(mask, why, v), _mask_names(mask),
                    v + (": " + ob.get("msg", "") if v != "ok" else "")))
        return res
    if v == "ok":
        forms = ob["forms"]
        if len(code) > 3:
            free, exp = code[2], code[3]
            mt = Matcher(subst)
            if free == "unspec":
                return res
            if len(forms) != len(exp) and not (free == "tail" and len(exp) <= len(forms) <= len(exp) + 1):
                res.append(("Reader!Forms", None, "%d forms" % len(exp), "%d forms" % len(forms)))
            else:
                for i, e in enumerate(exp):
                    for tag, path, want, got in mt.match(e, forms[i], "/%d/" % i):
                        sig = tag if tag.startswith("span:") else None
                        res.append(("Reader!SpanExact" if tag.startswith("span") else "Reader!Forms",
                                    sig, "%s at %s: %s" % (tag, path, want), str(got)[:120]))
        if "`" not in text and (len(code) > 3 or mask == OK):
            for tag, detail in reread_spans(text, forms):
                res.append(("Reader!SpanExact", tag, "re-reading the span gives an equal form", detail))
    return res


def verdict_sig(mask, why, v):
    """family signature of a wrong outcome: which construct owed a form / which rule was broken, and
    what the reader did instead"""
    if mask == EOF:
        return "eof-owed:%s->%s" % (why, "syntax-error" if v == "syntax" else "read-as-complete")
    if mask == SYN:
        return "malformed:%s->%s" % (why, "reported-as-eof" if v == "eof" else "accepted")
    if mask == EOF | SYN and v == "ok":
        return "eof-owed:below-%s->read-as-complete" % why
    return None


def direct_problems(ob):
    """violations that need no model: totality, exception class, line/col, only Lisp data
    -> list of (clause, sig, expected, observed)"""
    v = ob["v"]
    if v == "hang":
        return [("Reader!Total", "no-termination", "terminates", "step budget exceeded")]
    if v == "other":
        return [("Reader!Total", "non-syntax-exception:%s@%s" % (ob["type"], ob["site"]),
                 "forms or a syntax error", "%s: %s" % (ob["type"], ob.get("msg", "")))]
    if v in ("eof", "syntax") and not ob["loc"]:
        return [("Reader!Total", "syntax-error-without-line-col", "line and col", v)]
    if v == "ok":
        for i, f in enumerate(ob["forms"]):
            nd = nondata(f)
            if nd:
                return [("Reader!FormsAreData", "eof-after-prefix->form-with-%s" % nd,
                         "forms made of Lisp data", "form %d contains a non-Lisp object" % i)]
    return []


def _mask_names(mask):
    return "|".join(n for b, n in ((OK, "ok"), (EOF, "eof"), (SYN, "syntax")) if mask & b)


def variants(cps, thin=False):
    """concretisations of one enumerated string: (name, text, substitution); thin: beyond the length up to
    which skeletons are compared only every 4th string (by content) gets the 2nd and 3rd concretisation"""
    base = "".join(map(chr, cps))
    out = [("first-reps/LF", base, None)]
    if thin and sum((i + 1) * c for i, c in enumerate(cps)) % 4:
        return out
    alt = "".join(chr(SUBST.get(c, c)) for c in cps)
    if "\\\n" not in alt:       # a character literal \<CR> would split the CRLF pair: not the same program
        alt = alt.replace("\n", "\r\n")
    if alt != base:
        out.append(("second-reps/CRLF", alt, SUBST))
    if 10 in cps:
        out.append(("first-reps/CR", base.replace("\n", "\r"), None))
    return out


# ------------------------------------------------------------------------------------------------
# spec -> code
# ------------------------------------------------------------------------------------------------
def _replay_blocks(args):
    blocks, alphabet, thin_from = args
    _init()
    n = 0
    nontriv = 0
    bad = []
    for b in blocks:
        cases = [(b["p"] + [alphabet[i]], c) for i, c in enumerate(b["ch"])]
        if not b["p"]:
            cases.append(([], b["own"]))
        for cps, code in cases:
            if code[0] != OK or (len(code) > 3 and code[3]):
                nontriv += 1
            for vname, text, subst in variants(cps, thin=len(code) < 2 or len(cps) >= thin_from):
                n += 1
                for clause, sig, want, got in judge(text, code, subst):
                    bad.append({"clause": clause, "sig": sig, "cps": cps, "variant": vname, "text": text,
                                "code": code, "expected": want, "observed": got})
    return n, nontriv, bad


POOL = int(os.environ.get("VERIF_POOL") or 16)            # process pool size (shared machine: VERIF_POOL=4)
TLCW = int(os.environ.get("VERIF_TLC_WORKERS") or 16)     # cap on TLC worker threads per job


def _pool(n=None):
    import multiprocessing
    return multiprocessing.get_context("fork").Pool(n or POOL)


class Bg:
    """a TLC job running in a background thread (started after the process pool exists)"""

    def __init__(self, module, cfg, **kw):
        import threading
        import time
        self.r = self.err = None

        def go():
            try:
                kw["workers"] = min(kw.get("workers", 16), TLCW)
                self.r = tlc.run(module, cfg, **kw)
            except BaseException as e:  # noqa
                self.err = e
        self.t = threading.Thread(target=go, daemon=True)
        self.t.start()
        time.sleep(0.3)          # tlc.run numbers its scratch directories with an unlocked counter

    def result(self):
        self.t.join()
        if self.err is not None:
            raise self.err
        return self.r


def gen_job(chk, pool, r, name):
    chk.add_tlc(name, r)
    if r.violated or not r.ok:
        chk.machinery("%s: the reader specification violates its own invariants: %s\n%s"
                      % (name, r.violated, r.error_trace()[:1500]))
        return
    blocks = r.tagged("TAB")
    del r
    alphabet = ALPHABETS[name]
    blocks.sort(key=lambda b: b["p"])
    step = max(1, len(blocks) // 256)
    thin_from = 4 if len(alphabet) > 20 else 99      # the widest level of the 23-character alphabet
    chunks = [(blocks[i:i + step], alphabet, thin_from) for i in range(0, len(blocks), step)]
    strings = 0
    for n, nontriv, bad in pool.imap_unordered(_replay_blocks, chunks):
        chk.count(n, traces=n)
        chk.nontriv(None, nontriv)
        for d in bad:
            report(chk, d, "spec->code")
    for b in blocks:
        strings += len(b["ch"]) + (0 if b["p"] else 1)
    chk.extra.setdefault("strings_enumerated", {})[name] = strings
    for b in blocks[:2000:400]:
        chk.sample({"prefix": "".join(map(chr, b["p"])), "codes": [c[0] for c in b["ch"]]})


ALPHABETS = {
    "Reader_Gq": [40, 41, 91, 93, 123, 125, 34, 92, 35, 39, 96, 126, 64, 94, 59, 58, 103, 49, 32, 10, 95, 98, 233],
    "Reader_Gt": [40, 41, 91, 93, 123, 125, 34, 92, 35, 39, 96, 126, 64, 94, 59, 58, 103, 49, 32, 10, 95, 98, 233],
    "Reader_Gd": [40, 41, 91, 93, 123, 125, 34, 92, 35, 39, 94, 59, 103, 10],
}


def report(chk, d, direction):
    case = {"kind": "text", "text": d["text"], "code": d.get("code"), "variant": d.get("variant")}
    sig = d["sig"]
    if sig is None:
        sig = "case:" + json.dumps(d.get("cps") or d["text"])
    chk.discrepancy(d["clause"], case, d["expected"], d["observed"], sig=sig, module="Reader",
                    direction=direction)


# ------------------------------------------------------------------------------------------------
# code -> spec: programs from a grammar and top-level forms of the bundled sources, their prefixes and
# single-character edits, read for real; records validated by Reader_Trace
# ------------------------------------------------------------------------------------------------
SYMS = ["foo", "bar", "x'", "+", "->", "a.b/c", "*e*", "nil", "true", "false", "é", "&", "%", "%1", ".m", "x#y"]
KWS = [":a", ":b/c", "::loc", ":k1", ":7"]
NUMS = ["0", "1", "42", "-7", "1.5", "2/3", "1e3", "0x1F", "7N", "2.5M", "017", "##Inf", "3J"]
STRS = ['"\\u6a91090e"', '""', '"a b"', '"x\\ny"', '"q\\"r"', '"é中😀"', '"\\u00e9z"', '"l1\nl2"', '"(;"']
CHARS = ["\\a", "\\newline", "\\(", "\\u00e9", "\\é", "\\space"]
MISC = ['#"a+b"', '#"[a-z]\\d"', '#uuid "6f3e1a2c-1b2d-4c3e-8f9a-0b1c2d3e4f5a"', '#inst "2020-01-02T03:04:05Z"',
        "#py []", "#py {:a 1}", "#queue [1 2]", "#queue ()", '#b "ab\\x00c"', "#'foo", "#?(:lpy 1 :default 2)",
        "#_skipped", "#_(a b)", "; note\n", "#!shebang\n", "#g/tag 1"]


# always part of the corpus (tags with data readers, escapes, namespaced maps)
FIXED_PROGRAMS = ['#queue [1]', '#queue 1', '#inst "2020-01-02T03:04:05Z"', '#inst 1', '#uuid 1', '#py [1 {:a 2}]',
                  '#true 1', '"\\u6a91090e"', '"\\u00e9"', '#b "a\\x41"', '#b "\xe9"', '#:a{:b 1 c 2}', '#::{:b 1}',
                  "^:m ^{:k 1} [a]", "#(+ % %2)", "`(a ~b ~@c d#)", "#'foo/bar", "##Inf", "#_#_a b c",
                  # unhashable values (Python lists / dicts / sets) as set elements and map keys
                  "#:a\n {:b 1}", "[#:a\n\n  {:b 1} 2]", "#:a   {:b 1}",
                  "#{#py []}", "#{[1] #py {}}",
                  # \u / \U escapes outside the code-point range (chr raises ValueError or OverflowError)
                  '"\\U8001F600"', '"\\U00110000"', '"\\UFFFFFFFF"', '"\\U0001F600"', "#{#py #{1}}", "{#py [] 1}", "#{1 1}", "{1 2 1 3}"]


class Gen:
    def __init__(self, rnd):
        self.r = rnd

    def atom(self):
        r = self.r
        return r.choice(r.choice([SYMS, SYMS, KWS, NUMS, STRS, CHARS, MISC]))

    def ws(self):
        return self.r.choice([" ", " ", " ", "  ", "\n", ", ", "\n  ", " ; c\n "])

    def keys(self, n):
        pool = [":a", ":b", "foo", "1", '"s"', "[1]", "x", ":c/d", "\\k", "(q)"]
        self.r.shuffle(pool)
        return pool[:n]

    def form(self, d):
        r = self.r
        if d <= 0 or r.random() < 0.3:
            return self.atom()
        k = r.randrange(16)
        sub = lambda: self.form(d - 1)  # noqa
        seq = lambda n: self.ws().join(sub() for _ in range(n)).join(["", ""])  # noqa
        if k == 0:
            return "(" + seq(r.randrange(4)) + ")"
        if k == 1:
            return "[" + seq(r.randrange(4)) + "]"
        if k == 2:
            n = r.randrange(3)
            return "{" + self.ws().join(kk + " " + sub() for kk in self.keys(n)) + "}"
        if k == 3:
            return "#{" + " ".join(self.keys(r.randrange(3))) + "}"
        if k == 4:
            return r.choice(["'", "@", "~", "~@", "`"]) + sub()
        if k == 5:
            return "^" + r.choice([":m", "Tag", "{:d 1}", "[T]"]) + r.choice([" ", "\n"]) + \
                r.choice(["foo", "[" + seq(2) + "]", "(" + seq(2) + ")", "{}", "#{}"])
        if k == 6:
            return "#(" + seq(r.randrange(1, 4)) + ")"
        if k == 7:
            return "#_" + sub() + " " + sub()
        if k == 8:
            return "`(" + " ".join(r.choice(["a", "~b", "~@c", "d#", "[e ~f]", "'g"]) for _ in range(r.randrange(1, 4))) + ")"
        if k == 9:
            return r.choice(["#:ns", "#::"]) + r.choice(["", " ", "\n", "\n  "]) + "{" + " ".join(
                kk + " " + sub() for kk in r.sample([":a", ":b", "c", ":_/d"], r.randrange(3))) + "}"
        if k == 10:
            return "(" + seq(2) + "\n " + seq(2) + ")"
        if k == 11:
            return "[" + sub() + r.choice(["\r\n", "\r", "\n"]) + sub() + "]"
        if k == 12:
            return "'" + self.ws() + sub()
        return self.atom()

    def program(self):
        n = self.r.randrange(1, 4)
        return self.ws().join(self.form(self.r.randrange(1, 4)) for _ in range(n))


EDIT_CHARS = list("()[]{}\"\\#'`~@^;: a1\n_") + ["é"]


def edits(rnd, text, n):
    out = []
    for _ in range(n):
        i = rnd.randrange(len(text) + 1)
        k = rnd.randrange(3)
        if k == 0 and i < len(text):
            out.append(text[:i] + text[i + 1:])
        elif k == 1 and i < len(text):
            out.append(text[:i] + rnd.choice(EDIT_CHARS) + text[i + 1:])
        else:
            out.append(text[:i] + rnd.choice(EDIT_CHARS) + text[i:])
    return out


def source_chunks():
    """top-level chunks of the bundled .lpy sources: from a line starting with '(' to the next one"""
    out = []
    root = os.path.join(SRC, "basilisp")
    for dp, dns, fns in sorted(os.walk(root)):
        dns.sort()
        for fn in sorted(fns):
            if not fn.endswith(".lpy"):
                continue
            with open(os.path.join(dp, fn), encoding="utf-8") as f:
                lines = f.read().split("\n")
            cur = None
            for ln in lines:
                if ln.startswith("("):
                    if cur:
                        out.append((fn, "\n".join(cur).rstrip("\n")))
                    cur = [ln]
                elif cur is not None:
                    cur.append(ln)
            if cur:
                out.append((fn, "\n".join(cur).rstrip("\n")))
    return out


def _observe_record(args):
    """worker: read the cuts of one text for real -> trace record fields + direct problems"""
    text, cuts = args
    _init()
    v = [0] * (len(text) + 1)
    nf = [0] * (len(text) + 1)
    probs = []
    for i in cuts:
        ob = observe(text[:i])
        dp = direct_problems(ob)
        if dp:
            for clause, sig, want, got in dp:
                probs.append({"clause": clause, "sig": sig, "text": text[:i], "expected": want, "observed": got})
            continue
        v[i] = {"ok": OK, "eof": EOF, "syntax": SYN}[ob["v"]]
        nf[i] = len(ob["forms"]) if ob["v"] == "ok" else 0
    return text, v, nf, probs


def _judge_final(args):
    text, code = args
    _init()
    return text, code, judge(text, code, None)


def trace_job(chk, pool, name, texts_cuts):
    """texts_cuts: list of (text, list of cut positions)"""
    recs = []
    by_id = {}
    nreads = 0
    for text, v, nf, probs in pool.imap(_observe_record, texts_cuts, chunksize=4):
        for d in probs:
            report(chk, d, "code->spec")
        tid = len(recs) + 1
        recs.append({"id": tid, "cps": [ord(c) for c in text], "v": v, "nf": nf})
        by_id[tid] = text
        nreads += sum(1 for x in v if x) + len(probs)
    chk.count(nreads, traces=nreads)
    path = tlc.write_json("c16_" + name, recs)
    r = tlc.run("Reader_Trace", "Reader_Trace.cfg", env={"TRACE_FILE": path}, timeout=3000, heap="6g",
                workers=TLCW)
    chk.add_tlc("Reader_Trace/" + name, r)
    os.unlink(path)
    if r.violated or not r.ok:
        chk.machinery("Reader_Trace(%s) failed: %s %s" % (name, r.violated, r.error_trace()[:800]))
        return
    acc = set(r.tagged("ACC"))
    rejs = r.tagged("REJ")
    rejected_ids = set()
    names = {OK: "ok", EOF: "eof", SYN: "syntax"}
    for j in rejs:
        text = by_id[j["id"]][:j["at"]]
        rec = recs[j["id"] - 1]
        v = names[rec["v"][j["at"]]]
        rejected_ids.add(j["id"])
        if not j["mask"] & rec["v"][j["at"]]:
            sig = verdict_sig(j["mask"], j["why"], v)
            clause = "Reader!EofIffOwed"
            want = _mask_names(j["mask"])
        else:
            sig, clause = None, "Reader!Forms"
            want = "%d forms (%s)" % (j["nf"], j["free"])
            v = "%d forms" % rec["nf"][j["at"]]
        report(chk, {"clause": clause, "sig": sig, "text": text, "code": [j["mask"], j["why"]],
                     "expected": want, "observed": v}, "code->spec")
    missing = set(by_id) - acc - rejected_ids
    if missing:
        chk.machinery("Reader_Trace(%s): %d records neither accepted nor rejected" % (name, len(missing)))
    finals = [(by_id[e["id"]], e["code"]) for e in r.tagged("EXP")]
    for text, code, res in pool.imap(_judge_final, finals, chunksize=16):
        chk.count(1, traces=1)
        for clause, sig, want, got in res:
            report(chk, {"clause": clause, "sig": sig, "text": text, "code": code, "expected": want,
                         "observed": got}, "code->spec")
    chk.extra.setdefault("trace_records", {})[name] = {"records": len(recs), "accepted": len(acc),
                                                       "cuts_observed": nreads, "skeletons_compared": len(finals)}
    chk.nontriv(None, len(finals))


def code_to_spec(chk, pool):
    rnd = random.Random(chk.seed * 7919 + 16)
    quick = chk.tier == "quick"
    g = Gen(rnd)
    progs = []
    seen = set()
    while len(progs) < (40 if quick else 600):
        p = g.program()
        if p not in seen and len(p) <= 90:
            seen.add(p)
            progs.append(p)
    progs += [q for q in FIXED_PROGRAMS if q not in seen]
    # grammar programs: every prefix, and single-character edits (observed at the end only)
    tc = [(p, list(range(len(p) + 1))) for p in progs]
    for p in progs:
        for e in edits(rnd, p, 25 if quick else 25):
            tc.append((e, [len(e)]))
    chk.sample({"grammar_program": progs[0]})
    chk.extra["grammar_programs"] = len(progs)
    # bundled sources
    chunks = [(fn, t) for fn, t in source_chunks() if 10 <= len(t)]
    chk.extra["source_chunks"] = len(chunks)
    small = [c for c in chunks if len(c[1]) <= 400]
    rnd.shuffle(small)
    budget = 3000 if quick else 250000
    used = 0
    if not quick:
        rnd.shuffle(chunks)
    for fn, t in (small if quick else chunks):
        if len(t) > 4000 or used + len(t) > budget:
            continue
        used += len(t)
        tc.append((t, list(range(len(t) + 1))))
    tiny = [c for c in small if len(c[1]) <= 160]
    for fn, t in tiny[:(30 if quick else 500)]:
        for e in edits(rnd, t, 12 if quick else 16):
            tc.append((e, [len(e)]))
    trace_job(chk, pool, "grammar+sources", tc)


def run(chk):
    _init()
    chk.rule = ("every enumerated string is read for real in up to 3 concretisations; non-trivial = a string "
                "whose required outcome is not plain `ok` with zero forms (an error, an owed form, or >= 1 form "
                "whose skeleton and spans are compared); code->spec: texts whose skeleton was compared")
    quick = chk.tier == "quick"
    pool = _pool()
    try:
        mc = Bg("Reader_MC", "Reader_MC.cfg" if quick else "Reader_MCt.cfg", timeout=3000,
                workers=4 if quick else 8, heap="2g")
        mcneg = Bg("Reader_MC", "Reader_MCneg.cfg", timeout=3000, workers=2, heap="1g")
        gens = [("Reader_Gq", Bg("Reader", "Reader_Gq.cfg", timeout=3000, workers=8, heap="3g"))] if quick else \
            [("Reader_Gt", Bg("Reader", "Reader_Gt.cfg", timeout=3000)),
             ("Reader_Gd", Bg("Reader", "Reader_Gd.cfg", timeout=3000))]
        code_to_spec(chk, pool)
        r = mc.result()
        chk.add_tlc("Reader_MC", r)
        if r.violated or not r.ok:
            chk.machinery("Reader_MC: design check of the reader specification fails: %s\n%s"
                          % (r.violated, r.error_trace()[:1500]))
        rn = mcneg.result()
        chk.add_tlc("Reader_MCneg", rn)
        if "ClassIndependent" not in rn.violated:
            chk.machinery("Reader_MCneg: the deviation 'CR is not a line end' was NOT rejected "
                          "(vacuous design check)")
        for name, bg in gens:
            gen_job(chk, pool, bg.result(), name)
    finally:
        pool.close()
        pool.join()
    # the replay written per signature is the first discrepancy with it: make that the shortest text
    chk.discrepancies.sort(key=lambda d: (len(d["case"].get("text") or ""), d["case"].get("text") or ""))
    chk.exhaustive = True


def replay(chk, body):
    _init()
    case = body["case"]
    text, code = case["text"], case["code"]
    subst = SUBST if (case.get("variant") or "").startswith("second") else None
    ob = observe(text)
    print("text=%r observed=%s expected=%s" % (text, {k: v for k, v in ob.items() if k != "forms"},
                                               _mask_names(code[0]) if code else "?"))
    if ob["v"] == "ok":
        print("forms:", ob["forms"])
    chk.count()
    if code:
        for clause, sig, want, got in judge(text, code, subst):
            chk.discrepancy(clause, case, want, got, sig=sig or body.get("sig"), module="Reader",
                            direction="replay")
