"""C07 runtime: concretise Xform.tla cases on the real basilisp.core and observe them.

Nothing here knows what a transducer should compute: the vocabulary (stages, universes, slack) comes from the
<<"VOC", ..>> line that TLC prints, the expected results from its <<"TAB", ..>> lines.  This module only
  * builds the real functions / transducers / inputs that a stage record names,
  * executes one (pipeline, input) through one application form,
  * records what is observable without touching core: the result, how many elements were pulled from an
    instrumented (counting) lazy input, and -- in the probed variant -- the init/step/complete calls seen by
    transparent probe transducers placed above, between and below the stages.
"""
import boot

FORMS = ("lazy", "into", "transduce", "sequence", "eduction", "eduction-reduce")
FORM_CLASS = {"lazy": "lazy", "into": "xf", "transduce": "xf", "sequence": "xf", "eduction": "edu",
              "eduction-reduce": "edu"}

LISP = r"""
(def incish (fn [x] (if (number? x) (inc x) x)))
(def cnil (constantly nil))
(def inset #{2 :a})
(def ixeven (fn [i x] (when (even? i) x)))
(def ixnum (fn [i x] (when (number? x) (+ i x))))
(def dup (fn [x] (list x x)))
(def rng (fn [x] (if (number? x) (range x) [x])))
(defn src
  "a lazy sequence over xs that tells counter c about every element it realizes"
  [xs c]
  (lazy-seq
    (if-let [s (seq xs)]
      (do (.hit c)
          (cons (first s) (src (rest s) c)))
      (.end c))))
"""


class Budget(Exception):
    """the instrumented input was asked for more elements than any terminating run may need"""


class Counter:
    __slots__ = ("n", "budget", "over", "ends")

    def __init__(self, budget):
        self.n, self.budget, self.over, self.ends = 0, budget, False, 0

    def end(self):
        """the consumer asked for an element beyond the last one"""
        self.ends += 1
        return None

    def hit(self):
        self.n += 1
        if self.n > self.budget:
            self.over = True
            raise Budget()


class RT:
    def __init__(self, voc):
        boot.init()
        from basilisp.lang import keyword as kw, vector as vec, reduced
        from basilisp.lang.interfaces import ISeq, ISeqable
        self.vec, self.Reduced, self.ISeq, self.ISeqable = vec, reduced.Reduced, ISeq, ISeqable
        self.KA = kw.keyword("a")
        self.voc = voc
        self.stages = voc["stages"]
        self.slack = voc["slack"]
        self.flush_ops = set(voc["flush"])
        c = boot.core_fn
        sc = boot.Scratch()
        sc.eval(LISP)
        g = lambda n: sc.eval(n)  # noqa
        self.sc = sc
        self.fn1 = {"identity": c("identity"), "incish": g("incish"), "vector": c("vector"), "cnil": g("cnil"),
                    "nilp": c("nil?"), "numberp": c("number?"), "inset": g("inset")}
        self.fn2 = {"ixvec": c("vector"), "ixeven": g("ixeven"), "ixnum": g("ixnum")}
        self.fnc = {"dup": g("dup"), "rng": g("rng"), "cnil": g("cnil")}
        self.sep = {"nil": None, "a": self.KA, "0": 0}
        self.src = g("src")
        self.core = {n: c(n) for n in
                     ["map", "filter", "remove", "keep", "keep-indexed", "map-indexed", "take", "take-while",
                      "take-nth", "drop", "drop-while", "interpose", "partition-all", "partition-by", "distinct",
                      "dedupe", "mapcat", "cat", "comp", "into", "sequence", "transduce", "eduction", "reduce",
                      "conj", "cycle", "identity"]}
        self.empty_vec = vec.vector([])
        self._xf = {}
        self._comp = {}
        self.log = []
        try:
            from basilisp.lang import runtime, symbol as sym
            self.Eduction = runtime.Var.find(sym.symbol("Eduction", ns="basilisp.core")).value
        except Exception:  # noqa
            self.Eduction = None

    # ---- values ---------------------------------------------------------------------------------------------
    def dec(self, e):
        if e == "n":
            return None
        if e == "f":
            return False
        if e == "t":
            return True
        if e == "a":
            return self.KA
        if isinstance(e, list):
            return self.vec.vector([self.dec(x) for x in e])
        return e

    def enc(self, v):
        if v is None:
            return "n"
        if v is True:
            return "t"
        if v is False:
            return "f"
        if isinstance(v, int):
            return v
        if v is self.KA:
            return "a"
        if isinstance(v, (self.ISeq, self.ISeqable)) and not isinstance(v, str):
            return [self.enc(x) for x in v]
        return "?" + repr(v)[:60]

    def enc_result(self, r):
        return [] if r is None else [self.enc(x) for x in r]

    # ---- stages ----------------------------------------------------------------------------------------------
    def _args(self, st):
        op, f, n = st["op"], st["f"], st["n"]
        C = self.core
        if op in ("map", "filter", "remove", "keep", "takewhile", "dropwhile", "partby"):
            name = {"takewhile": "take-while", "dropwhile": "drop-while", "partby": "partition-by"}.get(op, op)
            return C[name], (self.fn1[f],)
        if op == "keepix":
            return C["keep-indexed"], (self.fn2[f],)
        if op == "mapix":
            return C["map-indexed"], (self.fn2[f],)
        if op in ("take", "drop"):
            return C[op], (n,)
        if op == "takenth":
            return C["take-nth"], (n,)
        if op == "partall":
            return C["partition-all"], (n,)
        if op == "interpose":
            return C["interpose"], (self.sep[f],)
        if op in ("distinct", "dedupe"):
            return C[op], ()
        if op == "mapcat":
            return C["mapcat"], (self.fnc[f],)
        if op == "cat":
            return None, ()
        raise ValueError(op)

    def xf(self, st):
        """the transducer of a stage (its state lives in the closure created when it is applied to rf)"""
        key = (st["op"], st["f"], st["n"])
        x = self._xf.get(key)
        if x is None:
            fn, args = self._args(st)
            x = self.core["cat"] if fn is None else fn(*args)
            self._xf[key] = x
        return x

    def lazy(self, st, coll):
        """the lazy-seq arity of a stage applied to coll (cat has none: (mapcat identity coll))"""
        fn, args = self._args(st)
        if fn is None:
            return self.core["mapcat"](self.core["identity"], coll)
        return fn(*args, coll)

    def pipeline(self, pi):
        return [self.stages[i - 1] for i in pi]

    # ---- probes ----------------------------------------------------------------------------------------------
    def probe(self, k):
        """a transparent transducer that writes what it is asked to do into self.log:
        (k, i) init, (k, s) step, (k, r) that step returned reduced, (k, c)/(k, x) completion entered/left"""
        Reduced = self.Reduced
        log = self.log

        def xform(rf):
            def f(*a):
                n = len(a)
                if n == 0:
                    log.append((k, "i"))
                    return rf()
                if n == 1:
                    log.append((k, "c"))
                    r = rf(a[0])
                    log.append((k, "x"))
                    return r
                log.append((k, "s"))
                r = rf(a[0], a[1])
                if isinstance(r, Reduced):
                    log.append((k, "r"))
                return r
            return f
        return xform

    def compose(self, stages, probed):
        """-> (the pipeline as one transducer -- `comp` of its parts when there are several --, the parts); cached"""
        key = (tuple((st["op"], st["f"], st["n"]) for st in stages), probed)
        c = self._comp.get(key)
        if c is None:
            xs = [self.xf(st) for st in stages]
            if probed:
                ys = [self.probe(0)]
                for k, x in enumerate(xs):
                    ys += [x, self.probe(k + 1)]
                xs = ys
            c = (xs[0] if len(xs) == 1 else self.core["comp"](*xs), xs)
            if len(self._comp) > 20000:
                self._comp.clear()
            self._comp[key] = c
        return c

    # ---- one execution ---------------------------------------------------------------------------------------
    def source(self, inp, kind, cyclic, budget):
        """-> (collection, counter or None)"""
        v = self.vec.vector([self.dec(e) for e in inp])
        if kind == "vec" and not cyclic:
            return v, None
        c = Counter(budget)
        return self.src(self.core["cycle"](v) if cyclic else v, c), c

    def lazy_levels(self, stages, inp, cyclic, budget):
        """the lazy-seq arities again, with a counting sequence in front of EVERY stage: -> demand per level (level j
        feeds stage j + 1): elements pulled, plus one if the stage also asked for an element beyond the last one"""
        v = self.vec.vector([self.dec(e) for e in inp])
        cs = [Counter(budget)] + [Counter(10 ** 9) for _ in stages[1:]]
        r = self.src(self.core["cycle"](v) if cyclic else v, cs[0])
        try:
            for k, st in enumerate(stages):
                if k:
                    r = self.src(r, cs[k])
                r = self.lazy(st, r)
            self.enc_result(r)
        except Exception:  # noqa
            pass
        return [c.n + min(c.ends, 1) for c in cs]

    def make_eduction(self, xf, parts, coll, variadic, real):
        """(eduction xf coll) / (eduction xf1 xf2 .. coll).  core's `eduction` spends milliseconds taking its argument
        list apart; unless `real` the harness therefore builds what it returns -- (Eduction (comp xf..) coll) -- itself"""
        if real or self.Eduction is None:
            return self.core["eduction"](*parts, coll) if variadic else self.core["eduction"](xf, coll)
        return self.Eduction(xf, coll)

    def execute(self, stages, inp, form, kind="lazy", cyclic=False, probed=False, budget=10 ** 9, real=True):
        """-> dict(out=encoded result | None, exc=name | None, pulls=int | None, over=bool, log=[..] | None)"""
        C = self.core
        coll, counter = self.source(inp, kind, cyclic, budget)
        del self.log[:]
        res = {"out": None, "exc": None, "pulls": None, "over": False, "log": None}
        try:
            if form == "lazy":
                r = coll
                for st in stages:
                    r = self.lazy(st, r)
            else:
                xf, parts = self.compose(stages, probed)
                if form == "into":
                    r = C["into"](self.empty_vec, xf, coll)
                elif form == "transduce":
                    r = C["transduce"](xf, C["conj"], coll)
                elif form == "sequence":
                    r = C["sequence"](xf, coll)
                elif form == "eduction":
                    r = C["into"](self.empty_vec, self.make_eduction(xf, parts, coll, False, real))
                elif form == "eduction-reduce":       # eduction composes the transducers it is given itself
                    r = C["reduce"](C["conj"], self.empty_vec, self.make_eduction(xf, parts, coll, True, real))
                else:
                    raise ValueError(form)
            res["out"] = self.enc_result(r)
        except Budget:
            res["exc"] = "Budget"
        except RecursionError:
            res["exc"] = "RecursionError"
        except Exception as e:  # noqa
            res["exc"] = type(e).__name__ + ": " + str(e)[:120]
        if probed:
            res["log"] = list(self.log)
        if counter is not None:
            res["pulls"] = min(counter.n, counter.budget + 1)
            res["over"] = counter.over
        return res
