"""Child process of C15: compile bundled namespaces FROM SOURCE (empty private bytecode cache) with the real
PythonASTOptimizer wrapped, record every (before, after) module body.  Output: JSON on the given path.
usage: c15_collect.py <out.json> <ns> [<ns> ...]   (basilisp.core is always compiled first)"""
import ast
import copy
import importlib
import json
import sys
import time

import boot

boot.preload_native()
from basilisp.lang.compiler import optimizer as O  # noqa: E402
import pyast_enc as E  # noqa: E402

units = []
stats = {"invocations": 0, "changed": 0, "nodes": 0}
cur = {"ns": "basilisp.core"}
_orig = O.PythonASTOptimizer.visit


def visit(self, node):
    if not isinstance(node, ast.Module):
        return _orig(self, node)
    before = copy.deepcopy(node)
    after = _orig(self, node)
    stats["invocations"] += 1
    stats["nodes"] += E.count_nodes(before)
    db, da = ast.dump(before), ast.dump(after)
    if db != da:
        stats["changed"] += 1
        units.append({"ns": cur["ns"], "n": stats["invocations"], "before": E.module(before), "after": E.module(after),
                      "src": ast.unparse(before)[:1500] if _can_unparse(before) else ""})
    return after


def _can_unparse(m):
    try:
        ast.unparse(m)
        return True
    except Exception:  # noqa
        return False


O.PythonASTOptimizer.visit = visit
out = sys.argv[1]
t0 = time.time()
failed = {}
from basilisp import main as bmain  # noqa: E402
bmain.init()
for ns in ["basilisp.core"] + sys.argv[2:]:
    cur["ns"] = ns
    try:
        importlib.import_module(ns.replace("-", "_"))
    except BaseException as e:  # noqa
        failed[ns] = "%s: %s" % (type(e).__name__, str(e)[:200])
stats["wall"] = time.time() - t0
json.dump({"units": units, "stats": stats, "failed": failed}, open(out, "w"))
