"""C02 -- sub-expressions are evaluated left to right, exactly once (see langcheck.py, specs/Lang.tla)."""
import langcheck


def run(chk):
    langcheck.run(chk, "C02")


def replay(chk, body):
    langcheck.replay(chk, body, "C02")
