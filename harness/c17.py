"""C17 -- compare is a consistent total order; sort/sort-by return the ordered stable permutation.

spec -> code:  Order.tla machine T emits the comparison/equality tables of six 13-element
families (TLC checks antisymmetry, transitivity, zero-iff-equal on all triples); machine S emits
every input sequence with the result of the specified stable sort.  Both are replayed into the
real basilisp.core/compare, =, sort and sort-by.
"""
import decimal
import fractions
import random

import boot
import tlc

RANK_STR = [{1: "A", 2: "a", 3: "b", 4: "é", 5: "中", 6: "\U0001F600"},
            {1: "-", 2: "B", 3: "_", 4: "\x7f", 5: "Ā", 6: "\U00010000"}]
# the second mapping puts characters below "/" after a shared prefix: ns "!" vs ns "!-" (a "ns/name" string comparison
# would order them the other way round)
RANK_NAME = [{1: "a", 2: "b"}, {1: "!", 2: "-"}, {1: "A", 2: "z"}, {1: "x-", 2: "x?"}]


class Conc:
    def __init__(self, variant):
        from basilisp.lang import keyword as kw, symbol as sym, vector as vec
        self.kw, self.sym, self.vec = kw, sym, vec
        self.rs = RANK_STR[variant % len(RANK_STR)]
        self.rn = RANK_NAME[variant % len(RANK_NAME)]

    def name(self, ranks):
        return "".join(self.rn[r] for r in ranks)

    def __call__(self, e):
        ty = e["ty"]
        if ty == "nil":
            return None
        if ty == "num":
            k, n, d = e["k"], e["n"], e["d"]
            if k == "int":
                return n
            if k == "float":
                return n / d
            if k == "ratio":
                return fractions.Fraction(n, d)
            return decimal.Decimal(n) / decimal.Decimal(d)
        if ty == "str":
            return "".join(self.rs[r] for r in e["cs"])
        if ty == "kw":
            return self.kw.keyword(self.name(e["nm"]), ns=self.name(e["ns"]) if e["ns"] else None)
        if ty == "sym":
            return self.sym.symbol(self.name(e["nm"]), ns=self.name(e["ns"]) if e["ns"] else None)
        if ty == "vec":
            return self.vec.vector([self(x) for x in e["xs"]])
        raise ValueError(ty)


def _call(f, *a):
    try:
        return f(*a)
    except Exception as ex:  # noqa
        return "exc:" + type(ex).__name__


def check_pair(core, conc, fam, els, i, j, cmp_exp, eq_exp):
    """-> list of (clause, expected, observed)"""
    out = []
    x, y = conc(els[i]), conc(els[j])
    if cmp_exp != 9:
        got = _call(core["compare"], x, y)
        if got != cmp_exp or isinstance(got, bool):
            out.append(("Order!Cmp", cmp_exp, got))
        e = _call(core["="], x, y)
        if e is not (eq_exp == 1):
            out.append(("Order!ZeroIffEqual(=)", eq_exp == 1, e))
    return out


def sort_variants(core, rt, dirn):
    """the ways of asking the real code for a sort in direction dirn: name -> fn(list of keys) -> list of positions"""
    compare = core["compare"]
    sort, sort_by = core["sort"], core["sort-by"]
    first = core["first"]
    from basilisp.lang import vector as vec, list as llist
    if dirn == 1:
        cmps = {"default": None, "compare": compare,
                "bool<": lambda p, q: compare(p, q) < 0,
                "3way": lambda p, q: compare(p, q) * 7}
    else:
        cmps = {"rev": lambda p, q: compare(q, p),
                "bool>": lambda p, q: compare(p, q) > 0}

    def by_identity(keys, res):
        ids = {}
        for pos, k in enumerate(keys):
            ids.setdefault(id(k), []).append(pos + 1)
        return [ids[id(r)].pop(0) if ids.get(id(r)) else 0 for r in res]

    vs = {}
    for cn, c in cmps.items():
        def mk(c=c, coll=vec.vector):
            def run(keys):
                boxed = list(keys)
                res = sort(coll(boxed)) if c is None else sort(c, coll(boxed))
                return by_identity(boxed, list(res or []))
            return run

        def mk_by(c=c):
            def run(keys):
                pairs = vec.vector([vec.vector([k, p + 1]) for p, k in enumerate(keys)])
                res = sort_by(first, pairs) if c is None else sort_by(first, c, pairs)
                return [r[1] for r in (res or [])]
            return run
        vs["sort/" + cn + "/vec"] = mk()
        vs["sort/" + cn + "/list"] = mk(coll=lambda xs: llist.list(xs))
        vs["sort-by/" + cn] = mk_by()
    return vs


def run(chk):
    rt, corens = boot.init()
    names = ["compare", "=", "sort", "sort-by", "first"]
    core = {n: boot.core_fn(n) for n in names}
    chk.rule = ("pairs: every ordered pair of each 13-element family (TLC table) compared with real "
                "compare and =; sorts: every TLC-sorted input replayed through sort/sort-by with "
                "default, 3-way and boolean comparators; non-trivial = input with >= 2 keys that is "
                "not already in order or contains a tie")
    # ---- machine T: tables + order laws on all triples ------------------------------------
    # where do names without a namespace go?  The property is silent: both conventions are specified (and both
    # proved to be total orders by TLC); the implementation's convention is read off one probe pair
    from basilisp.lang import keyword as _kw
    probe = _call(core["compare"], _kw.keyword("a"), _kw.keyword("a", ns="a"))
    suffix = "" if probe == -1 else "_nl"
    chk.extra["names_without_namespace_sort"] = "first" if probe == -1 else "last"
    for other in (["_nl"] if suffix == "" else [""]):
        ro = tlc.run("Order", "Order_T%s.cfg" % other)
        chk.add_tlc("Order_T%s (other convention, laws only)" % other, ro)
        if ro.violated or not ro.ok:
            chk.machinery("Order_T%s: order laws fail: %s" % (other, ro.violated))
    rT = tlc.run("Order", "Order_T%s.cfg" % suffix)
    chk.add_tlc("Order_T" + suffix, rT)
    if rT.violated or not rT.ok:
        chk.machinery("Order_T: specification's own order laws fail: %s" % rT.violated)
        return
    rows = rT.tagged("TAB")
    fams = {}
    for r in rows:
        fams.setdefault(r["fam"], {})[r["i"]] = r
    nvar = 2 if chk.tier == "quick" else 4
    for fam, byi in sorted(fams.items()):
        n = len(byi)
        els = [byi[i + 1]["el"] for i in range(n)]
        for variant in range(nvar):
            conc = Conc(variant)
            for i in range(n):
                for j in range(n):
                    ce, ee = byi[i + 1]["cmp"][j], byi[i + 1]["eq"][j]
                    chk.count()
                    if ce != 9:
                        chk.nontriv(("pair", fam, i, j))
                    for clause, exp, got in check_pair(core, conc, fam, els, i, j, ce, ee):
                        chk.discrepancy(clause, {"kind": "pair", "fam": fam, "variant": variant,
                                                 "a": els[i], "b": els[j]}, exp, got,
                                        module="Order", direction="spec->code")
        chk.sample({"family": fam, "row1": byi[1]})
    # ---- machine S: sort behaviours --------------------------------------------------------
    cfg = ("Order_Sq%s.cfg" if chk.tier == "quick" else "Order_St%s.cfg") % suffix
    rS = tlc.run("Order", cfg, timeout=3000)
    chk.add_tlc(cfg, rS)
    if rS.violated or not rS.ok:
        chk.machinery("Order_S: sort machine breaks its own invariants: %s" % rS.violated)
        return
    behs = rS.tagged("BEH")
    variants = {1: None, -1: None}
    concs = [Conc(v) for v in range(nvar)]
    for k, b in enumerate(behs):
        fam, dirn, inp, out = b["fam"], b["dir"], b["inp"], b["out"]
        if variants[dirn] is None:
            variants[dirn] = sort_variants(core, rt, dirn)
        els = [fams[fam][i]["el"] for i in inp]
        conc = concs[k % nvar]
        if len(inp) >= 2 and out != list(range(1, len(inp) + 1)) or len(set(inp)) < len(inp):
            chk.nontriv(("sort", fam, dirn, tuple(inp)))
        if k % 997 == 0:
            chk.sample({"sort": b})
        for vn, fn in variants[dirn].items():
            keys = [_distinct(conc(e)) for e in els]
            got = _call(fn, keys)
            chk.count(traces=1)
            if got != out:
                chk.discrepancy("Order!SortMachine", {"kind": "sort", "fam": fam, "dir": dirn, "via": vn,
                                                      "keys": els}, out, got,
                                module="Order", direction="spec->code")
    # ---- beyond the exhaustive bound: random longer inputs against the same model ------------
    rnd = random.Random(chk.seed)
    nrand = 300 if chk.tier == "quick" else 5000
    pyspec = PySpec(fams)
    for t in range(nrand):
        fam = rnd.choice(sorted(fams))
        n = len(fams[fam])
        inp = [rnd.randint(1, n) for _ in range(rnd.randint(7, 40))]
        if not pyspec.sortable(fam, inp):
            continue
        dirn = rnd.choice([1, -1])
        out = pyspec.sort(fam, inp, dirn)
        els = [fams[fam][i]["el"] for i in inp]
        conc = concs[t % nvar]
        if variants[dirn] is None:
            variants[dirn] = sort_variants(core, rt, dirn)
        for vn, fn in variants[dirn].items():
            got = _call(fn, [_distinct(conc(e)) for e in els])
            chk.count(traces=1)
            if got != out:
                chk.discrepancy("Order!SortMachine(random)", {"kind": "sort", "fam": fam, "dir": dirn,
                                                              "via": vn, "keys": els}, out, got,
                                module="Order", direction="spec->code")
        chk.nontriv(("rsort", t))
    chk.exhaustive = True
    chk.extra["families"] = sorted(fams)
    chk.extra["sort_behaviours"] = len(behs)


class PySpec:
    """The sort machine again, for inputs longer than TLC enumerates: a stable insertion sort driven by
    the TLC-computed pair table (the table is the specification; nothing is recomputed here)."""

    def __init__(self, fams):
        self.t = {f: {i: r["cmp"] for i, r in by.items()} for f, by in fams.items()}

    def sortable(self, fam, inp):
        return all(self.t[fam][i][j - 1] != 9 for i in inp for j in inp)

    def sort(self, fam, inp, dirn):
        done = []
        for p in range(1, len(inp) + 1):
            at = len(done)
            for k, q in enumerate(done):
                if dirn * self.t[fam][inp[q - 1]][inp[p - 1] - 1] > 0:
                    at = k
                    break
            done.insert(at, p)
        return done


def _distinct(v):
    """a fresh object per occurrence where CPython allows it (results are mapped back to input
    positions by identity; identical objects are interchangeable, so their positions are taken in order)"""
    if isinstance(v, float):
        return v + 0.0
    return v


def replay(chk, body):
    rt, corens = boot.init()
    core = {n: boot.core_fn(n) for n in ["compare", "=", "sort", "sort-by", "first"]}
    case = body["case"]
    conc = Conc(case.get("variant", 0))
    if case["kind"] == "pair":
        x, y = conc(case["a"]), conc(case["b"])
        print("compare ->", _call(core["compare"], x, y), " = ->", _call(core["="], x, y),
              " expected", body["expected"])
        got = _call(core["compare"], x, y) if "Cmp" in body["clause"] else _call(core["="], x, y)
    else:
        fn = sort_variants(core, rt, case["dir"])[case["via"]]
        got = _call(fn, [_distinct(conc(e)) for e in case["keys"]])
        print("sort ->", got, "expected", body["expected"])
    chk.count()
    if got != body["expected"]:
        chk.discrepancy(body["clause"], case, body["expected"], got, module="Order", direction="replay")
