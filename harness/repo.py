"""Binding to the working tree of /repo.

Every check imports basilisp from /repo/src *as it is now*:
  * interpreters run with a private PYTHONPYCACHEPREFIX keyed by a hash of the source
    tree (so an edit to the compiler forces basilisp.core to be recompiled),
  * the native extension is rebuilt from /repo/rust with cargo --offline and pre-loaded
    when it differs from the installed _lang.abi3.so.
Nothing under /repo is ever written.
"""
import fcntl
import hashlib
import os
import shutil
import subprocess
import sys
import time

VERIF = os.path.dirname(os.path.dirname(os.path.abspath(__file__)))
REPO = os.environ.get("VERIF_REPO", "/repo")
SRC = os.path.join(REPO, "src")
WORK = os.path.join(VERIF, ".work")
PY = "/venv/bin/python"
HARNESS = os.path.join(VERIF, "harness")


def _hash_files(roots, exts):
    h = hashlib.sha256()
    for root in roots:
        for dp, dns, fns in sorted(os.walk(root)):
            dns[:] = sorted(d for d in dns if d not in ("__pycache__", "target"))
            for fn in sorted(fns):
                if fn.endswith(exts):
                    p = os.path.join(dp, fn)
                    h.update(os.path.relpath(p, REPO).encode())
                    with open(p, "rb") as f:
                        h.update(hashlib.sha256(f.read()).digest())
    return h.hexdigest()[:20]


def rust_hash():
    return _hash_files([os.path.join(REPO, "rust", "src")], (".rs",)) + _hash_files(
        [os.path.join(REPO, "rust")], ("Cargo.toml", "Cargo.lock"))[:6]


def tree_hash():
    return _hash_files([os.path.join(SRC, "basilisp")], (".py", ".lpy")) + rust_hash()[:8]


class _Lock:
    def __init__(self, name):
        os.makedirs(WORK, exist_ok=True)
        self.path = os.path.join(WORK, name + ".lock")

    def __enter__(self):
        self.f = open(self.path, "w")
        fcntl.flock(self.f, fcntl.LOCK_EX)

    def __exit__(self, *a):
        fcntl.flock(self.f, fcntl.LOCK_UN)
        self.f.close()


def _same_file(a, b):
    try:
        if os.path.getsize(a) != os.path.getsize(b):
            return False
        with open(a, "rb") as fa, open(b, "rb") as fb:
            return fa.read() == fb.read()
    except OSError:
        return False


def build_native():
    """Build the native extension from /repo/rust; return path to preload or '' when the
    installed one is byte-identical (or when the installed one is all there is)."""
    rh = rust_hash()
    outdir = os.path.join(WORK, "native", rh)
    out = os.path.join(outdir, "_lang.abi3.so")
    installed = os.path.join(SRC, "basilisp", "_lang.abi3.so")
    with _Lock("native_" + rh):
        if not os.path.exists(out):
            env = dict(os.environ, CARGO_NET_OFFLINE="true", PYO3_BUILD_EXTENSION_MODULE="1",
                       PYO3_PYTHON=PY)
            env.pop("PYO3_CONFIG_FILE", None)
            # one cargo target directory per source hash: cargo decides freshness by mtime, so a target
            # directory shared between checkouts could hand back a library built from another tree
            tgt = os.path.join(WORK, "rust-target", rh)
            p = subprocess.run(
                ["cargo", "build", "--release", "--offline", "--manifest-path",
                 os.path.join(REPO, "rust", "Cargo.toml"), "--target-dir", tgt],
                env=env, stdout=subprocess.PIPE, stderr=subprocess.STDOUT, text=True)
            if p.returncode != 0:
                raise RuntimeError("native build failed:\n" + p.stdout[-3000:])
            os.makedirs(outdir, exist_ok=True)
            shutil.copyfile(os.path.join(tgt, "release", "libbasilisp_native.so"), out + ".tmp")
            os.replace(out + ".tmp", out)
            # prune old builds (keep the 6 most recent: other checks / mutant runs may be using them)
            nd = os.path.join(WORK, "native")
            ds = sorted((d for d in os.listdir(nd) if d != rh), key=lambda d: os.path.getmtime(os.path.join(nd, d)))
            for d in ds[:-6]:
                if time.time() - os.path.getmtime(os.path.join(nd, d)) < PRUNE_AGE:
                    continue          # used recently (touched by every prepare): a running check may depend on it
                shutil.rmtree(os.path.join(nd, d), ignore_errors=True)
                shutil.rmtree(os.path.join(WORK, "rust-target", d), ignore_errors=True)
        same = _same_file(out, installed)
    return "" if same else out


def child_env(hashseed="0", extra=None, pyc=None):
    env = dict(os.environ)
    env.pop("PYTHONDONTWRITEBYTECODE", None)
    env["PYTHONHASHSEED"] = str(hashseed)
    env["PYTHONPYCACHEPREFIX"] = pyc or os.path.join(WORK, "pyc", tree_hash())
    env["PYTHONPATH"] = HARNESS + os.pathsep + SRC
    env["PYTHONUNBUFFERED"] = "1"
    env["VERIF_NATIVE_SO"] = _native_cached()
    env["BASILISP_VERIF"] = "1"
    env.pop("BASILISP_DO_NOT_CACHE_NAMESPACES", None)
    if extra:
        env.update(extra)
    return env


_NATIVE = None


def _native_cached():
    global _NATIVE
    if _NATIVE is None:
        _NATIVE = build_native()
    return _NATIVE


PRUNE_AGE = 6 * 3600


def prepare(verbose=False):
    """Build native ext, warm the private pycache for this tree.  Idempotent, locked."""
    t0 = time.time()
    so = _native_cached()
    th = tree_hash()
    pyc = os.path.join(WORK, "pyc", th)
    with _Lock("warm_" + th):
        if not os.path.exists(os.path.join(pyc, ".warm")):
            os.makedirs(pyc, exist_ok=True)
            p = subprocess.run([PY, "-c", "import boot; boot.init(); print('ok')"],
                               env=child_env(), stdout=subprocess.PIPE, stderr=subprocess.STDOUT,
                               text=True, timeout=900)
            if p.returncode != 0 or "ok" not in p.stdout:
                raise RuntimeError("basilisp does not start from the working tree:\n" + p.stdout[-4000:])
            open(os.path.join(pyc, ".warm"), "w").write(str(time.time()))
            # prune older caches (keep the 8 most recent besides this one)
            pd = os.path.join(WORK, "pyc")
            ds = sorted((d for d in os.listdir(pd) if d != th),
                        key=lambda d: os.path.getmtime(os.path.join(pd, d)))
            for d in ds[:-8]:
                if time.time() - os.path.getmtime(os.path.join(pd, d)) < PRUNE_AGE:
                    continue          # touched by a prepare() within the last hours: possibly in use by a running check
                shutil.rmtree(os.path.join(pd, d), ignore_errors=True)
    for used in (pyc, os.path.dirname(so) if so else None):
        try:
            if used:
                os.utime(used)        # "in use": pruning (by this or a concurrent run on another tree) skips recent ones
        except OSError:
            pass
    if verbose:
        print(f"[repo] tree={th} native={'rebuilt:' + so if so else 'installed'} prepare={time.time()-t0:.1f}s",
              flush=True)
    return {"tree": th, "native": so}


def run_child(args, hashseed="0", input=None, timeout=600, extra=None, cwd=None):
    """Run /venv python with the harness environment; returns CompletedProcess (text)."""
    return subprocess.run([PY] + list(args), env=child_env(hashseed, extra), input=input,
                          stdout=subprocess.PIPE, stderr=subprocess.PIPE, text=True,
                          timeout=timeout, cwd=cwd or VERIF)


if __name__ == "__main__":
    print(prepare(verbose=True))
