"""Shared driver of C01 and C02: corpus -> real compiler -> records -> TLC (Lang_Trace) -> verdicts.

which = "C01": a record is wrong when outcome/value differ from Lang.tla
which = "C02": a record is wrong when the marker log differs from Lang.tla
(each property reports only its own clause, both validate every record completely).
"""
import json
import multiprocessing as mp
import random

import langgen as G
import langrun
import tlc

OPTSETS = [
    {},
    {"use_var_indirection": True},
    {"inline_functions": False},
    {"generate_auto_inlines": False},
    {"use_var_indirection": True, "inline_functions": False},
    {"use_var_indirection": True, "generate_auto_inlines": False},
    {"inline_functions": False, "generate_auto_inlines": False},
    {"use_var_indirection": True, "inline_functions": False, "generate_auto_inlines": False},
]


def corpus(tier, seed):
    """-> list of dict(prog (AST), ctx, src ('small'|'random'), base (index of the unwrapped program))"""
    rnd = random.Random(seed)
    out = []
    small = list(G.small_programs(4 if tier == "quick" else 5))
    ctxs = G.CTX_QUICK if tier == "quick" else list(G.contexts(G.c(G.NIL)).keys())
    base = 0
    for k, p in enumerate(small):
        if tier == "quick":
            names = [ctxs[k % len(ctxs)], ctxs[(k // len(ctxs) + 1 + k) % len(ctxs)]]
        else:
            names = [ctxs[(k + j) % len(ctxs)] for j in range(3)]
        w = G.contexts(p)
        for cn in dict.fromkeys(names):
            out.append({"prog": w[cn], "ctx": cn, "src": "small", "base": base})
        base += 1
    for p in G.capture_programs(rnd, 120 if tier == "quick" else 1200):
        w = G.contexts(p)
        for cn in ("top", "fnbody", "arg"):
            out.append({"prog": w[cn], "ctx": cn, "src": "capture", "base": base})
        base += 1
    for p in G.interop_programs(rnd, 150 if tier == "quick" else 1500):
        w = G.contexts(p)
        for cn in ("top", "fnbody", "arg"):
            out.append({"prog": w[cn], "ctx": cn, "src": "interop", "base": base})
        base += 1
    for p in G.arity_programs(rnd, 300 if tier == "quick" else 3000):
        w = G.contexts(p)
        for cn in ("top", "fnbody", "arg", "fnstmt"):
            out.append({"prog": w[cn], "ctx": cn, "src": "arity", "base": base})
        base += 1
    for p in G.letfn_programs(rnd, 80 if tier == "quick" else 800):
        w = G.contexts(p)
        for cn in ("top", "fnstmt", "letstmt", "ifstmt", "arg"):
            out.append({"prog": w[cn], "ctx": cn, "src": "letfn", "base": base})
        base += 1
    nrand = 2500 if tier == "quick" else 40000
    for t in range(nrand):
        depth = rnd.choice([2, 3, 3, 4, 4, 5] if tier == "quick" else [3, 4, 4, 5, 5, 6])
        p = G.random_program(rnd, depth)
        w = G.contexts(p)
        names = ["top", ctxs[t % len(ctxs)]] if tier == "quick" else ["top"] + [ctxs[(t + j) % len(ctxs)] for j in (0, 3)]
        for cn in dict.fromkeys(names):
            out.append({"prog": w[cn], "ctx": cn, "src": "random", "base": base})
        base += 1
    return out


def execute(items, optsets):
    """items: list of corpus entries -> list of records (one per item x option set assigned to it)"""
    jobs = []
    B = 250
    for oi, opts in enumerate(optsets):
        mine = [(i, G.pr(it["prog"])) for i, it in enumerate(items) if oi in it["opts"]]
        for off in range(0, len(mine), B):
            jobs.append((mine[off:off + B], opts, oi))
    ctx = mp.get_context("fork")
    with ctx.Pool(16) as pool:
        res = pool.map(_job, jobs, chunksize=1)
    recs = []
    for oi, part in res:
        for (i, outcome, val, log) in part:
            recs.append({"item": i, "opt": oi, "prog": items[i]["prog"], "outcome": outcome, "val": val, "log": log})
    return recs


def _job(j):
    items, opts, oi = j
    return oi, langrun.run_batch((items, opts))


def validate(chk, recs):
    """TLC runs Lang.tla on every distinct (prog, observation); returns dict key -> expected | None (accepted)"""
    distinct = {}
    for r in recs:
        key = json.dumps([r["prog"], r["outcome"], r["val"], r["log"]], sort_keys=True)
        distinct.setdefault(key, r)
    keys = list(distinct)
    verdict = {}
    B = 6000
    for off in range(0, len(keys), B):
        part = keys[off:off + B]
        data = [{"prog": G.annotate(distinct[k]["prog"]), "outcome": distinct[k]["outcome"], "val": distinct[k]["val"],
                 "log": distinct[k]["log"], "mc": 1 if (chk.tier != "quick" or (off + j) % 5 == 0) else 0}
                for j, k in enumerate(part)]
        p = tlc.write_json("lang_%d" % off, data)
        r = tlc.run("Lang_Trace", "Lang_Trace.cfg", env={"TRACE_FILE": p}, timeout=3000, stack="256m")
        chk.add_tlc("Lang_Trace[%d..%d]" % (off, off + len(part)), r)
        if r.violated:
            chk.machinery("Lang.tla breaks its own invariant %s\n%s" % (r.violated, r.error_trace()[:1500]))
        acc = set(r.tagged("ACC"))
        rej = {x["id"]: dict(x["expected"], devs=x["devs"]) for x in r.tagged("REJ")}
        for x in r.tagged("MODEL")[:5]:
            chk.machinery("as-built model with all deviations off disagrees with Lang.tla on %s: lang=%s asbuilt=%s"
                          % (G.pr(data[x["id"] - 1]["prog"])[:300], json.dumps(x["lang"])[:300],
                             json.dumps(x["asbuilt"])[:300]))
        for i, k in enumerate(part):
            if (i + 1) in acc:
                verdict[k] = None
            elif (i + 1) in rej:
                verdict[k] = rej[i + 1]
            else:
                verdict[k] = {"outcome": "machine did not finish"}
    return verdict


def run(chk, which):
    items = corpus(chk.tier, chk.seed)
    nopt = 2 if chk.tier == "quick" else len(OPTSETS)
    for i, it in enumerate(items):
        if chk.tier == "quick":
            it["opts"] = {0, 1 + (i % (len(OPTSETS) - 1))} if i % 3 == 0 else {i % len(OPTSETS)}
        else:
            it["opts"] = set(range(len(OPTSETS))) if it["src"] == "small" or i % 4 == 0 else {0, i % len(OPTSETS)}
    recs = execute(items, OPTSETS)
    chk.count(len(recs), traces=len(recs))
    verdict = validate(chk, recs)
    nd = 0
    for r in recs:
        key = json.dumps([r["prog"], r["outcome"], r["val"], r["log"]], sort_keys=True)
        exp = verdict[key]
        if len(r["log"]) >= 2:
            chk.nontriv(key)
        if exp is None:
            continue
        obs = {"outcome": r["outcome"], "val": r["val"], "log": r["log"]}
        valbad = exp.get("outcome") != r["outcome"] or exp.get("val") != r["val"]
        if "devs" not in exp:
            exp = dict(exp, devs=["unexplained"])
        logbad = exp.get("log") != r["log"]
        if (which == "C01" and valbad) or (which == "C02" and logbad):
            case = {"prog": r["prog"], "text": G.pr(r["prog"]), "opts": OPTSETS[r["opt"]],
                    "ctx": items[r["item"]]["ctx"]}
            devs = exp.get("devs") or ["unexplained"]
            sig = ("dev:" + "+".join(devs)) if devs != ["unexplained"] else None
            chk.discrepancy("Lang_Trace!Agree(value)" if which == "C01" else "Lang_Trace!Agree(log)",
                            case, {k: v for k, v in exp.items() if k != "devs"}, obs, sig=sig,
                            module="Lang_Trace", direction="code->spec")
            nd += 1
    for r in recs[:: max(1, len(recs) // 5)][:5]:
        chk.sample({"text": G.pr(r["prog"]), "opts": OPTSETS[r["opt"]], "outcome": r["outcome"], "val": r["val"],
                    "log": r["log"]})
    chk.extra.update({"programs": len(items), "executions": len(recs), "distinct_records": len(verdict),
                      "option_sets": nopt if chk.tier == "quick" else len(OPTSETS)})
    chk.rule = ("programs: all skeletons of the reduced alphabet up to the size bound + seeded random typed programs, "
                "each wrapped in syntactic contexts and compiled under code-generation option sets; one evaluation "
                "= one compile+run of the real code validated by TLC against Lang.tla; non-trivial = distinct "
                "(program, observation) whose effect log has >= 2 markers")


def replay(chk, body, which):
    case = body["case"]
    recs = execute([{"prog": case["prog"], "opts": {0}}], [case["opts"]])
    chk.count(1, traces=1)
    verdict = validate(chk, recs)
    for r in recs:
        key = json.dumps([r["prog"], r["outcome"], r["val"], r["log"]], sort_keys=True)
        print("text:", G.pr(r["prog"]))
        print("observed:", r["outcome"], r["val"], r["log"])
        print("expected:", verdict[key] or "same")
        if verdict[key] is not None:
            chk.discrepancy(body["clause"], case, verdict[key],
                            {"outcome": r["outcome"], "val": r["val"], "log": r["log"]},
                            module="Lang_Trace", direction="replay")
