"""C20 -- integer and ratio arithmetic is exact; quot/rem/mod identities; result types; call paths agree.

spec -> code  Arith.tla: TLC checks the identities on all pairs of a 42-element universe (ints, ratios, exactly
              representable decimals and floats) and emits the expected [kind, n/d] of + - * / quot rem mod; every
              entry is replayed through four call paths of the real functions.
code -> spec  random operands up to 10^40 (ints and ratios): the observed results go back to TLC as base-10^4 limb
              sequences and Arith_Trace/Limbs.tla evaluates exactness and the quot/rem/mod identities.
"""
import decimal
import fractions
import random

import boot
import tlc

OPS = ["add", "sub", "mul", "div", "quot", "rem", "mod"]
SYM = {"add": "+", "sub": "-", "mul": "*", "div": "/", "quot": "quot", "rem": "rem", "mod": "mod"}


def conc(a):
    k, n, d = a["k"], a["n"], a["d"]
    if k == "int":
        return n
    if k == "ratio":
        return fractions.Fraction(n, d)
    if k == "dec":
        return decimal.Decimal(n) / decimal.Decimal(d)
    return n / d


def lit(a):
    k, n, d = a["k"], a["n"], a["d"]
    if k == "int":
        return str(n)
    if k == "ratio":
        return "%d/%d" % (n, d)
    if k == "dec":
        return str(decimal.Decimal(n) / decimal.Decimal(d)) + "M"
    return repr(n / d)


def kind(v):
    if isinstance(v, bool):
        return "bool"
    if isinstance(v, int):
        return "int"
    if isinstance(v, fractions.Fraction):
        return "ratio"
    if isinstance(v, decimal.Decimal):
        return "dec"
    if isinstance(v, float):
        return "float"
    return type(v).__name__


def representable(k, d):
    """is n/d exactly representable in kind k (so that the real result must equal it exactly)?"""
    if k in ("int", "ratio"):
        return True
    if k == "float":
        return d & (d - 1) == 0 and d <= 2 ** 20
    while d % 2 == 0:
        d //= 2
    while d % 5 == 0:
        d //= 5
    return d == 1


def value_ok(a, b, exp, got):
    """exact operands (int, ratio): the result must be exactly the rational result.  With a float or decimal
    operand the property only fixes the result TYPE; the value is compared with a tolerance far above any
    rounding of the conversions involved, so that only wrong results (sign, off by a divisor) are reported."""
    want = fractions.Fraction(exp["n"], exp["d"])
    have = fractions.Fraction(got)
    if a["k"] in ("int", "ratio") and b["k"] in ("int", "ratio"):
        return have == want
    return abs(have - want) <= fractions.Fraction(1, 10 ** 9) * max(1, abs(want))


def paths():
    out = {}
    sc = boot.Scratch()
    sc2 = boot.Scratch(inline_functions=False)
    sc3 = boot.Scratch(use_var_indirection=True)
    for op in OPS:
        s = SYM[op]
        out[(op, "direct")] = sc.eval("(fn [a b] (%s a b))" % s)
        out[(op, "apply")] = sc.eval("(fn [a b] (apply %s [a b]))" % s)
        out[(op, "noinline")] = sc2.eval("(fn [a b] (%s a b))" % s)
        out[(op, "varind")] = sc3.eval("(fn [a b] (%s a b))" % s)
    return out, sc


def observe(f, x, y):
    try:
        r = f(x, y)
    except Exception as e:  # noqa
        return {"exc": type(e).__name__}
    return r


def limbs(v):
    s = (v > 0) - (v < 0)
    v = abs(v)
    m = []
    while v:
        m.append(v % 10000)
        v //= 10000
    return {"s": s, "m": m}


def run(chk):
    boot.init()
    chk.rule = ("table: every (a, b, op) of the universe x 5 call paths against the TLC-computed kind and exact value "
                "(value compared when representable in the result kind); big: random operands up to 10^40 validated by "
                "TLC with limb arithmetic; non-trivial = operand pair of different kinds or a non-integral result")
    r = tlc.run("Arith", "Arith_MC.cfg")
    chk.add_tlc("Arith_MC", r)
    if r.violated or not r.ok:
        chk.machinery("Arith.tla identities fail in the model: %s" % r.violated)
        return
    rows = r.tagged("TAB")
    P, sc = paths()
    for row in rows:
        a, b = row["a"], row["b"]
        x, y = conc(a), conc(b)
        for oi, op in enumerate(OPS):
            exp = row["row"][oi]
            if exp["k"] == "undef":
                continue
            variants = [(pn, P[(op, pn)]) for pn in ("direct", "apply", "noinline", "varind")]
            variants.append(("literal", None))
            for pn, f in variants:
                if f is None:
                    try:
                        got = sc.eval("(%s %s %s)" % (SYM[op], lit(a), lit(b)))
                    except Exception as e:  # noqa
                        got = {"exc": type(e).__name__}
                else:
                    got = observe(f, x, y)
                chk.count(traces=1)
                if a["k"] != b["k"] or exp["d"] != 1:
                    chk.nontriv((op, a["k"], a["n"], a["d"], b["k"], b["n"], b["d"]))
                if isinstance(got, dict):
                    obs = got
                    bad = True
                else:
                    k = kind(got)
                    obs = {"k": k, "v": str(got)}
                    bad = k != exp["k"] or not value_ok(a, b, exp, got)
                if bad:
                    chk.discrepancy("Arith!Result", {"op": op, "a": a, "b": b, "path": pn}, exp, obs,
                                    module="Arith", direction="spec->code")
    chk.sample({"a": rows[7]["a"], "b": rows[7]["b"], "ops": OPS, "expected": rows[7]["row"]})
    # ---- big operands -------------------------------------------------------------------------------
    rnd = random.Random(chk.seed)
    n = 1500 if chk.tier == "quick" else 20000

    def big():
        e = rnd.choice([3, 9, 16, 17, 25, 40])
        v = rnd.randint(10 ** (e - 1), 10 ** e) * rnd.choice([1, -1])
        return v + rnd.choice([0, 0, 1, -1])

    recs, meta = [], []
    one = limbs(1)
    for i in range(n):
        pn = rnd.choice(["direct", "apply"])
        if i % 3 == 0:
            x, y = big(), big()
            if rnd.random() < 0.3:
                x = y * rnd.randint(-10 ** 9, 10 ** 9) + rnd.choice([0, 0, 1, -1, y - 1 if y > 0 else y + 1])
            if y == 0:
                y = 7
            q, r, m = (observe(P[(o, pn)], x, y) for o in ("quot", "rem", "mod"))
            if not all(isinstance(v, int) and not isinstance(v, bool) for v in (q, r, m)):
                chk.discrepancy("Arith_Trace!QRM(type)", {"x": str(x), "y": str(y), "path": pn}, "three ints",
                                [str(q), str(r), str(m)], module="Arith_Trace", direction="code->spec")
                continue
            recs.append({"op": "qrm", "xn": limbs(x), "xd": one, "yn": limbs(y), "yd": one, "rn": limbs(0) if False else limbs(q),
                         "rd": one, "rint": True, "q": limbs(q), "r": limbs(r), "m": limbs(m)})
            meta.append({"op": "qrm", "x": str(x), "y": str(y), "path": pn, "obs": [str(q), str(r), str(m)]})
        else:
            op = rnd.choice(["add", "sub", "mul", "div"])
            x = fractions.Fraction(big(), rnd.choice([1, 1, big()]) or 1)
            y = fractions.Fraction(big(), rnd.choice([1, 1, big()]) or 1)
            if y == 0:
                y = fractions.Fraction(3)
            if rnd.random() < 0.2 and op == "div":
                x = y * rnd.randint(-10 ** 12, 10 ** 12)
            xx = x.numerator if x.denominator == 1 else x
            yy = y.numerator if y.denominator == 1 else y
            got = observe(P[(op, pn)], xx, yy)
            if isinstance(got, dict) or kind(got) not in ("int", "ratio"):
                chk.discrepancy("Arith_Trace!Exact(type)", {"op": op, "x": str(x), "y": str(y), "path": pn},
                                "int or ratio", str(got), module="Arith_Trace", direction="code->spec")
                continue
            g = fractions.Fraction(got)
            recs.append({"op": op, "xn": limbs(x.numerator), "xd": limbs(x.denominator), "yn": limbs(y.numerator),
                         "yd": limbs(y.denominator), "rn": limbs(g.numerator), "rd": limbs(g.denominator),
                         "rint": kind(got) == "int", "q": one, "r": one, "m": one})
            meta.append({"op": op, "x": str(x), "y": str(y), "path": pn, "obs": str(got)})
    acc = set()
    B = 4000
    for off in range(0, len(recs), B):
        p = tlc.write_json("arith_%d" % off, recs[off:off + B])
        rr = tlc.run("Arith_Trace", "Arith_Trace.cfg", env={"TRACE_FILE": p}, timeout=1800)
        chk.add_tlc("Arith_Trace[%d..]" % off, rr)
        acc |= {off + i for i in rr.tagged("ACC")}
        if len(rr.tagged("ACC")) + len(rr.tagged("REJ")) != len(recs[off:off + B]):
            chk.machinery("Arith_Trace gave %d verdicts for %d records" % (len(rr.tagged("ACC")) + len(rr.tagged("REJ")),
                                                                         len(recs[off:off + B])))
    chk.count(len(recs), traces=len(recs))
    for i, mt in enumerate(meta):
        chk.nontriv(("big", i))
        if (i + 1) not in acc:
            chk.discrepancy("Arith_Trace!Holds", mt, "exact rational result / quot-rem-mod identities", mt["obs"],
                            module="Arith_Trace", direction="code->spec")
    chk.sample(meta[0] if meta else {})
    chk.exhaustive = True
    chk.extra["universe"] = len(rows)


def replay(chk, body):
    boot.init()
    case = body["case"]
    P, sc = paths()
    if "a" in case:
        a, b, op, pn = case["a"], case["b"], case["op"], case["path"]
        got = sc.eval("(%s %s %s)" % (SYM[op], lit(a), lit(b))) if pn == "literal" else observe(P[(op, pn)], conc(a), conc(b))
        print("(%s %s %s) via %s =>" % (SYM[op], lit(a), lit(b), pn), repr(got), " expected", body["expected"])
        exp = body["expected"]
        chk.count(1)
        if isinstance(got, dict) or kind(got) != exp["k"] or not value_ok(a, b, exp, got):
            chk.discrepancy(body["clause"], case, exp, str(got), direction="replay")
    else:
        print("big-operand case:", case)
        x, y = fractions.Fraction(case["x"]), fractions.Fraction(case["y"])
        xx = x.numerator if x.denominator == 1 else x
        yy = y.numerator if y.denominator == 1 else y
        if case["op"] == "qrm":
            q, r, m = (observe(P[(o, case["path"])], xx, yy) for o in ("quot", "rem", "mod"))
            print("quot rem mod =", q, r, m)
            ok = xx == yy * q + r and abs(r) < abs(yy) and abs(m) < abs(yy)
        else:
            got = observe(P[(case["op"], case["path"])], xx, yy)
            print("result =", got)
            ok = True
        chk.count(1)
        if not ok:
            chk.discrepancy(body["clause"], case, body["expected"], "identity fails", direction="replay")
