"""Run TLC and parse what it says.  All specs live in /verif/specs (one flat directory so that
EXTENDS/INSTANCE resolve without library paths)."""
import json
import os
import re
import shutil
import subprocess
import time

from repo import VERIF, WORK

SPECS = os.path.join(VERIF, "specs")
JAR = "/opt/veriftools/tla/tla2tools.jar:/opt/veriftools/tla/CommunityModules-deps.jar"


class TLCError(Exception):
    """Machinery failure (spec does not parse, TLC crashed, timeout)."""


class TLCResult:
    def __init__(self, out, wall):
        self.out = out
        self.wall = wall
        m = re.findall(r"(\d+) states generated, (\d+) distinct states found", out)
        self.generated = int(m[-1][0]) if m else 0
        self.distinct = int(m[-1][1]) if m else 0
        self.violated = re.findall(r"Error: Invariant (\S+) is violated", out)
        self.violated += re.findall(r"Error: Action property (\S+) is violated", out)
        self.violated += re.findall(r"Error: Temporal property (\S+) was violated", out)
        if "Temporal properties were violated" in out:
            self.violated.append("<temporal>")
        if "Error: Deadlock reached" in out:
            self.violated.append("<deadlock>")
        self.ok = ("Model checking completed. No error has been found" in out) or (
            "Finished in" in out and "Error:" not in out)
        self._msgs = None

    def messages(self):
        """All <<"TAG", payload>> lines printed by PrintT; payload is an int or a JSON-in-string."""
        if self._msgs is None:
            self._msgs = []
            for m in re.finditer(r'<<"([A-Z]+)", ("(?:[^"\\]|\\.)*"|-?\d+)>>', self.out):
                tag, p = m.group(1), m.group(2)
                if p.startswith('"'):
                    s = json.loads(p)
                    try:
                        p = json.loads(s)
                    except ValueError:
                        p = s
                else:
                    p = int(p)
                self._msgs.append((tag, p))
        return self._msgs

    def tagged(self, tag):
        return [p for t, p in self.messages() if t == tag]

    def coverage(self):
        """action name -> (distinct, total) from -coverage output ('<Name line ...>: d:t')."""
        cov = {}
        for m in re.finditer(r"^<(\w+) line [^>]*>: (\d+):(\d+)", self.out, re.M):
            d, t = int(m.group(2)), int(m.group(3))
            a = cov.get(m.group(1), (0, 0))
            cov[m.group(1)] = (a[0] + d, a[1] + t)
        return cov

    def error_trace(self):
        i = self.out.find("Error:")
        return self.out[i:i + 6000] if i >= 0 else ""


_job = 0
_job_lock = __import__("threading").Lock()


def run(module, cfg=None, workers=16, timeout=1800, env=None, simulate=None, depth=None,
        seed=None, coverage=False, deadlock=True, extra=(), heap=None, stack="64m"):
    """Run TLC on specs/<module>.tla with specs/<cfg>.  Returns TLCResult; raises TLCError on
    machinery failure (parse error, crash, timeout).  A violated invariant is *not* an error here:
    callers decide what it means."""
    global _job
    with _job_lock:
        _job += 1
        jobno = _job
    meta = os.path.join(WORK, "tlc", f"{os.getpid()}_{jobno}")
    os.makedirs(meta, exist_ok=True)
    cmd = ["java", "-XX:+UseParallelGC", "-Xss" + stack]
    if heap:
        cmd.append("-Xmx" + heap)
    cmd += ["-cp", JAR, "tlc2.TLC", "-workers", str(workers), "-metadir", meta, "-noGenerateSpecTE",
            "-config", cfg or (module + ".cfg")]
    if coverage:
        cmd += ["-coverage", "1"]
    if not deadlock:
        cmd += ["-deadlock"]
    if simulate is not None:
        cmd += ["-simulate", f"num={simulate}"]
    if depth is not None:
        cmd += ["-depth", str(depth)]
    if seed is not None:
        cmd += ["-seed", str(seed)]
    cmd += list(extra) + [module + ".tla"]
    e = dict(os.environ)
    e.pop("JAVA_TOOL_OPTIONS", None)
    if env:
        e.update(env)
    t0 = time.time()
    try:
        p = subprocess.run(cmd, cwd=SPECS, env=e, stdout=subprocess.PIPE, stderr=subprocess.STDOUT,
                           text=True, timeout=timeout)
    except subprocess.TimeoutExpired as ex:
        subprocess.run(["pkill", "-f", meta], check=False)
        raise TLCError(f"TLC timed out after {timeout}s on {module}/{cfg}") from ex
    finally:
        shutil.rmtree(meta, ignore_errors=True)
    out = p.stdout
    r = TLCResult(out, time.time() - t0)
    fatal = ("Parsing or semantic analysis failed" in out or "*** Errors:" in out
             or "TLC threw an unexpected exception" in out or "Error: TLC threw" in out
             or "java.lang." in out and "Exception" in out and not r.violated
             or "The exception was a" in out and not r.violated
             or "Error: " in out and not r.violated and not r.ok)
    if fatal and not r.violated:
        raise TLCError(f"TLC failed on {module}/{cfg}:\n" + out[-5000:])
    return r


def write_json(name, obj):
    """Write a JSON file under .work/data and return its path (for IOEnv variables)."""
    d = os.path.join(WORK, "data")
    os.makedirs(d, exist_ok=True)
    p = os.path.join(d, f"{os.getpid()}_{name}.json")
    with open(p, "w") as f:
        json.dump(obj, f, separators=(",", ":"))
    return p


def sany(module):
    p = subprocess.run(["java", "-cp", JAR, "tla2sany.SANY", module + ".tla"], cwd=SPECS,
                       stdout=subprocess.PIPE, stderr=subprocess.STDOUT, text=True)
    bad = p.returncode != 0 or "Fatal errors" in p.stdout or "*** Errors" in p.stdout \
        or "Could not parse" in p.stdout or "Parse Error" in p.stdout
    return (not bad), p.stdout
