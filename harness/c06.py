"""C06 -- lazy sequences realize each element once, only on demand, safely shared.

design checks  LazySeq_MC      the required specification LazySeq.tla keeps its invariants, never deadlocks,
                               terminates (driven by consumer programs x producer plans)
               LazySeqImpl_MC  the mechanism of seq.rs (GIL, re-entrant mutex, Initialized/Computing/Computed/
                               Realized) with the intended repairs simulates LazySeq.tla and terminates;
               _DevLock/_DevErr the same model with a deviation of the pinned tree switched on must be REJECTED
                               (deadlock / "a cell that is not done is seen")
               LazySeqDemand   invariants of the single-consumer demand machine
spec -> code   (a) TLC enumerates the behaviours of LazySeqImpl_MC with the harness-level decisions recorded
               (which thread starts its next call, which parked producer is released); every distinct
               (programs, plans, decisions) is executed with REAL threads on a REAL lazy sequence in child
               interpreters (c06_child.py) under a watchdog;
               (b) TLC enumerates every consumption history (first/rest/next/seq/count/nth/iterator steps) up to
               length 4 (thorough: 6) with the demand after every step and the table Need(construct, demand);
               every history is executed on lazy-seq, map, filter, concat, take, drop, iterate and seqs over
               Python iterables/iterators with instrumented sources, comparing results and source counters.
code -> spec   every recorded multi-threaded execution (call/ret/pstart/pend events) goes back to TLC
               (LazySeq_Trace, silent Observe steps placed by TLC).  A rejected or frozen execution is then
               offered to the as-built model with named deviations (LazySeqImpl_Trace): if that model reproduces
               exactly this execution the discrepancy gets the signature dev:<Deviation>.
Verdicts come from recorded events and from the watchdog only (a child that stays silent although the
checking process itself keeps being scheduled); timing inside the child only steers.
"""
import collections
import concurrent.futures as cf
import json
import multiprocessing as mp
import os
import queue
import select
import subprocess
import threading
import time

import boot
import repo
import tlc

NIL = {"ty": "nil", "i": 0}
JOBS = max(1, int(os.environ.get("VERIF_JOBS") or 16))      # child interpreters / pool processes run at once
CHILD = os.path.join(repo.HARNESS, "c06_child.py")

# watchdog (seconds of silence of a child while this process itself is being scheduled normally)
SILENCE = 20.0
STARTUP = 1800.0
BUSY_CAP = 240.0          # a child that is silent but burning CPU is given this long
CHILD_STUCK = 40.0        # in-child: threads inside calls without any event although the controller runs
LONG = 1000               # events; far above the longest behaviour of LazySeq.tla for any generated scenario
GRACE = 0.02              # in-child steering: silence after which a thread is assumed blocked in native code


# =================================================================================================
# TLC from several threads: tlc.run derives its -metadir from a module-level counter that is not
# thread-safe, so concurrent jobs go through this equivalent runner with a unique directory
# =================================================================================================
_tlc_lock = threading.Lock()
_tlc_n = [0]


def run_tlc(module, cfg, workers=4, timeout=3000, env=None, heap=None):
    import shutil
    if JOBS < 16:
        workers = min(workers, 4)
    with _tlc_lock:
        _tlc_n[0] += 1
        meta = os.path.join(repo.WORK, "tlc", "c06_%d_%d" % (os.getpid(), _tlc_n[0]))
    os.makedirs(meta, exist_ok=True)
    cmd = ["java", "-XX:+UseParallelGC", "-XX:ParallelGCThreads=%d" % max(2, min(workers, 4))] + (["-Xmx" + heap] if heap else []) + [
        "-cp", tlc.JAR, "tlc2.TLC", "-workers", str(workers), "-metadir", meta, "-noGenerateSpecTE",
        "-config", cfg, module + ".tla"]
    e = dict(os.environ)
    e.pop("JAVA_TOOL_OPTIONS", None)
    e.update(env or {})
    t0 = time.time()
    p = subprocess.Popen(cmd, cwd=tlc.SPECS, env=e, stdout=subprocess.PIPE, stderr=subprocess.STDOUT, text=True)
    try:
        out, _ = p.communicate(timeout=timeout)
    except subprocess.TimeoutExpired as ex:
        p.kill()
        p.wait()
        raise tlc.TLCError("TLC timed out after %ds on %s/%s" % (timeout, module, cfg)) from ex
    finally:
        shutil.rmtree(meta, ignore_errors=True)
    r = tlc.TLCResult(out, time.time() - t0)
    fatal = ("Parsing or semantic analysis failed" in out or "*** Errors:" in out
             or "TLC threw an unexpected exception" in out or "Error: TLC threw" in out
             or ("java.lang." in out and "Exception" in out) or "The exception was a" in out
             or ("Error: " in out and not r.ok))
    if fatal and not r.violated:
        raise tlc.TLCError("TLC failed on %s/%s:\n%s" % (module, cfg, out[-5000:]))
    return r


# =================================================================================================
# design checks
# =================================================================================================
def design_jobs(tier):
    j = [("LazySeq_MC", "LazySeq_MC.cfg", True, None),
         ("LazySeqImpl_MC", "LazySeqImpl_MC.cfg", True, None),
         ("LazySeqImpl_MC", "LazySeqImpl_DevLock.cfg", False, "<deadlock>"),
         ("LazySeqImpl_MC", "LazySeqImpl_DevErr.cfg", False, "Simulates")]
    if tier == "thorough":
        j += [("LazySeq_MC", "LazySeq_MC3.cfg", True, None),
              ("LazySeqImpl_MC", "LazySeqImpl_MC3.cfg", True, None),
              ("LazySeqImpl_MC", "LazySeqImpl_MC23.cfg", True, None)]
    return j


def run_design(job):
    mod, cfg, must_hold, expect = job
    try:
        r = run_tlc(mod, cfg, workers=4, timeout=3000)
        return job, r, None
    except Exception as e:  # noqa
        return job, None, str(e)[-1500:]


def account_design(chk, results):
    for (mod, cfg, must_hold, expect), r, err in results:
        if r is None:
            chk.machinery("design check %s: %s" % (cfg, err))
            continue
        chk.add_tlc(cfg, r)
        if must_hold and (r.violated or not r.ok):
            chk.machinery("design check %s fails: %s\n%s" % (cfg, r.violated, r.error_trace()[:1500]))
        if not must_hold:
            if not r.violated:
                chk.machinery("anti-vacuity: deviation model %s is not rejected by the design check" % cfg)
            elif expect not in r.violated:
                chk.machinery("deviation model %s is rejected, but by %s instead of %s" % (cfg, r.violated, expect))


# =================================================================================================
# (b) single-threaded demand histories
# =================================================================================================
class Cnt:
    def __init__(self):
        self.n = 0


class CountingIterable:
    """re-iterable Python iterable; counts __next__ calls (including the one that raises StopIteration)"""

    def __init__(self, items, cnt):
        self.items, self.cnt = items, cnt

    def __iter__(self):
        return CountingIterator(self.items, self.cnt)


class CountingIterator:
    def __init__(self, items, cnt):
        self.items, self.cnt, self.i = items, cnt, 0

    def __iter__(self):
        return self

    def __next__(self):
        self.cnt.n += 1
        if self.i >= len(self.items):
            raise StopIteration
        self.i += 1
        return self.items[self.i - 1]


_D = {}


def demand_env():
    if not _D:
        boot.init()
        from basilisp.lang import seq as lseq, runtime as rt
        from basilisp.lang.interfaces import ISeq
        s = boot.Scratch("verif.c06demand")
        _D["lseq"], _D["rt"], _D["ISeq"] = lseq, rt, ISeq
        _D["factory"] = s.eval("(fn [prod] (fn mk [k] (lazy-seq (prod mk k))))")
        for n in ("first", "seq", "rest", "next", "count", "nth", "cons", "map", "filter", "concat", "take", "drop",
                  "iterate", "iterator-seq"):
            _D[n] = boot.core_fn(n)
    return _D


def chain(m, cnt, base=0):
    """instrumented source: a lazy-seq chain of m elements base+1..base+m; cnt counts producer runs (cells)"""
    D = demand_env()

    def prod(mk, k):
        cnt.n += 1
        if k > m:
            return None
        return D["cons"](base + k, mk(k + 1))
    return D["factory"](prod)(1)


def build(con):
    """-> (head handle, counters {name: Cnt}, val: cell index -> expected element)"""
    D = demand_env()
    src, f, b = Cnt(), Cnt(), Cnt()

    def counting(g, c):
        def h(x):
            c.n += 1
            return g(x)
        return h
    if con == "lazy":
        return chain(3, src), {"src": src}, lambda k: k
    if con == "map":
        return D["map"](counting(lambda x: x + 100, f), chain(3, src)), {"src": src, "f": f}, lambda k: k + 100
    if con == "filter":
        return (D["filter"](counting(lambda x: x in (2, 3, 5), f), chain(5, src)), {"src": src, "f": f},
                lambda k: {1: 2, 2: 3, 3: 5}[k])
    if con == "concat":
        return D["concat"](chain(2, src), chain(1, b, base=2)), {"src": src, "b": b}, lambda k: k
    if con == "take":
        return D["take"](2, chain(3, src)), {"src": src}, lambda k: k
    if con == "map2":

        def first_of(x, y):
            f.n += 1
            return x
        return D["map"](first_of, chain(2, src), chain(3, b)), {"src": src, "b": b, "f": f}, lambda k: k
    if con == "drop":
        return D["drop"](1, chain(4, src)), {"src": src}, lambda k: k + 1
    if con == "iterate":
        return D["iterate"](counting(lambda x: x + 1, f), 1), {"f": f}, lambda k: k
    if con == "iterate-bool":      # elements true, false, true, ...: a falsey element is an element
        return D["iterate"](counting(lambda x: not x, f), True), {"f": f}, lambda k: k % 2 == 1
    if con == "iterate-nil":       # elements 0, nil, 0, nil, ...
        return D["iterate"](counting(lambda x: None if x == 0 else 0, f), 0), {"f": f}, lambda k: 0 if k % 2 == 1 else None
    if con == "pyseq":
        return D["lseq"].sequence(CountingIterable([1, 2, 3], src)), {"src": src}, lambda k: k
    if con == "pyseq1":
        return D["seq"](CountingIterable([1, 2, 3], src)), {"src": src}, lambda k: k
    if con == "pyiter":
        return D["iterator-seq"](CountingIterator([1, 2, 3], src)), {"src": src}, lambda k: k
    raise ValueError(con)


# construct -> row of the TLC table it is judged by
TABLE_OF = {"iterate-bool": "iterate", "iterate-nil": "iterate", "pyiter": "pyseq"}
# construct -> name used in signatures (one signature per defect, not per concretisation)
FAMILY = {"iterate-bool": "iterate:falsey-element", "iterate-nil": "iterate:falsey-element"}


def same(a, b):
    return a is b or (type(a) is type(b) and a == b)


def judge_result(D, exp, r, val):
    """None when the real result r is what the specification says (exp: abstract value), else a description"""
    ty = exp["ty"]
    lseq, ISeq = D["lseq"], D["ISeq"]
    if ty == "none":
        return None
    if ty == "nil":
        return None if r is None else "nil expected, got %s" % desc(D, r)
    if ty == "int":
        return None if same(r, val(exp["i"])) else "element %r expected, got %s" % (val(exp["i"]), desc(D, r))
    if ty == "count":
        return None if r == exp["i"] and not isinstance(r, bool) else "count %d expected, got %s" % (exp["i"], desc(D, r))
    if ty == "stop":
        return None if r == "<StopIteration>" else "StopIteration expected, got %s" % desc(D, r)
    if ty == "exc":
        return None if r == "<IndexError>" else "IndexError expected, got %s" % desc(D, r)
    if ty == "seq":          # a non-empty realized seq starting with element i
        if r is None or not isinstance(r, ISeq):
            return "non-empty seq expected, got %s" % desc(D, r)
        if isinstance(r, lseq.LazySeq) and not r.is_realized:
            return "realized seq expected, got an unrealized lazy seq"
        if r.is_empty:
            return "non-empty seq expected, got an empty one"
        return None if same(r.first, val(exp["i"])) else "seq starting with %r expected, starts with %r" % (val(exp["i"]), r.first)
    if ty == "cell":         # the rest: some seq, not looked into (looking would realize it)
        if not isinstance(r, ISeq) or r is lseq.EMPTY:
            return "a (lazy) rest expected, got %s" % desc(D, r)
        return None
    if ty == "empty":
        if r is lseq.EMPTY:
            return None
        if isinstance(r, lseq.LazySeq) and not r.is_realized:
            return None       # an unrealized lazy seq standing for the empty rest: not looked into
        if isinstance(r, ISeq) and r.is_empty:
            return None
        return "the empty seq expected, got %s" % desc(D, r)
    raise ValueError(exp)


def desc(D, r):
    if r is None:
        return "nil"
    if isinstance(r, D["ISeq"]):
        if isinstance(r, D["lseq"].LazySeq) and not r.is_realized:
            return "<unrealized lazy seq>"
        return "<empty seq>" if r.is_empty else "<seq starting with %r>" % (r.first,)
    return repr(r)


def run_history(con, hist, need, dem0):
    """-> list of (clause, step index, expected, observed, sig)"""
    D = demand_env()
    head, cnts, val = build(con)
    out = []

    def check_counts(i, dem):
        nd = need[str(dem)]
        for name, c in cnts.items():
            if c.n != nd[name]:
                clause = "LazySeqDemand!Need" if c.n > nd[name] else "LazySeqDemand!NeedTooHigh"
                out.append((clause, i, {"counter": name, "allowed": nd[name], "demand": dem}, {"counter": name, "observed": c.n},
                            "demand:%s:%s:%+d" % (TABLE_OF.get(con, con), name, c.n - nd[name])))
                return False
        return True

    if not check_counts(-1, dem0):
        return out
    h, it = head, None
    for i, st in enumerate(hist):
        op, exp = st["op"], st["res"]
        try:
            if op == "head":
                h, r = head, None
            elif op == "iter":
                if it is None:
                    it = iter(h)
                try:
                    r = next(it)
                except StopIteration:
                    r = "<StopIteration>"
            elif op == "nth1":
                try:
                    r = D["nth"](h, 1)
                except IndexError:
                    r = "<IndexError>"
            else:
                r = D[op](h)
        except Exception as e:  # noqa
            out.append(("LazySeqDemand!Result", i, exp, "raised %s" % type(e).__name__,
                        "result:%s:%s:raised:%s" % (con, op, type(e).__name__)))
            return out
        e2 = {"ty": "count", "i": exp["i"]} if op == "count" else exp
        why = judge_result(D, e2, r, val)
        if why is not None:
            ended = (r is None or r in ("<StopIteration>", "<IndexError>")) and exp["ty"] in ("int", "seq")
            if ended:     # the sequence ends although the specification has an element in cell exp.i
                sig = "result:%s:ends-before-cell-%d" % (FAMILY.get(con, con), exp["i"])
            else:
                sig = "result:%s:%s:expected=%s:observed=%s" % (FAMILY.get(con, con), op, exp["ty"], desc(D, r))
            out.append(("LazySeqDemand!Result", i, exp, why, sig))
            return out
        if not check_counts(i, st["dem"]):
            return out
        if op == "rest":
            h = r
        elif op == "next":
            h = r
        elif op == "seq" and r is None:
            h = None
    return out


OPS_D = ["first", "seq", "rest", "next", "count", "nth1", "iter", "head"]
TYS_D = ["nil", "int", "cell", "seq", "empty", "stop", "exc", "none"]


def decode_history(codes):
    """LazySeqDemand!Code: op * 100000 + result type * 10000 + result.i * 100 + dem"""
    return [{"op": OPS_D[c // 100000], "res": {"ty": TYS_D[c // 10000 % 10], "i": c // 100 % 100}, "dem": c % 100}
            for c in codes]


def demand_worker(arg):
    con, hists, need, dem0 = arg
    bad = []
    n = 0
    for hi, codes in hists:
        res = run_history(con, decode_history(codes), need, dem0)
        n += 1
        for (clause, i, exp, obs, sig) in res:
            bad.append((con, hi, clause, i, exp, obs, sig))
    return con, n, bad


def demand_part(chk, pool):
    cfg = "LazySeqDemand_q.cfg" if chk.tier == "quick" else "LazySeqDemand_t.cfg"
    r = run_tlc("LazySeqDemand", cfg, workers=8, timeout=3000, heap="6g")
    chk.add_tlc(cfg, r)
    if r.violated or not r.ok:
        chk.machinery("LazySeqDemand: %s\n%s" % (r.violated, r.error_trace()[:1500]))
        return
    tabs = {t["con"]: t for t in r.tagged("TAB")}
    by_mode = collections.defaultdict(dict)
    for b in r.tagged("BEH"):
        by_mode[b["m"]][tuple(b["h"])] = None
    for m in by_mode:
        by_mode[m] = sorted(by_mode[m])        # histories stay encoded (tuples of ints) until they are executed
    cons = ["lazy", "map", "map2", "filter", "concat", "take", "drop", "iterate", "iterate-bool", "iterate-nil",
            "pyseq", "pyseq1", "pyiter"]
    jobs = []
    for con in cons:
        t = tabs[TABLE_OF.get(con, con)]
        hs = list(enumerate(by_mode[t["mode"]]))
        per = max(1, (len(hs) + 15) // 16)
        for off in range(0, len(hs), per):
            jobs.append((con, hs[off:off + per], t["need"], t["dem0"]))
    total = 0
    nbad = collections.Counter()
    for con, n, bad in pool.imap_unordered(demand_worker, jobs):
        total += n
        for (c, hi, clause, i, exp, obs, sig) in bad:
            nbad[sig] += 1
            if nbad[sig] <= 3:
                t = tabs[TABLE_OF.get(c, c)]
                hist = decode_history(by_mode[t["mode"]][hi])
                if clause == "LazySeqDemand!NeedTooHigh":
                    chk.machinery("demand table over-demands: %s step %d of %s: %s vs %s" % (c, i, hist, exp, obs))
                else:
                    chk.discrepancy(clause, {"kind": "demand", "construct": c, "history": hist, "step": i}, exp, obs,
                                    sig=sig, module="LazySeqDemand", direction="spec->code")
    chk.count(total, traces=total)
    chk.extra["demand_histories_per_mode"] = {m: len(v) for m, v in by_mode.items()}
    chk.extra["demand_constructs"] = cons
    chk.extra["demand_executions"] = total
    chk.extra["demand_discrepancies_by_sig"] = dict(nbad)
    for m, v in by_mode.items():
        chk.nontriv(n=sum(1 for h in v if len({c // 100000 for c in h}) >= 3 and h[-1] % 100 >= 2))
    if by_mode.get("L3"):
        chk.sample({"demand_history": decode_history(by_mode["L3"][len(by_mode["L3"]) // 2]), "table_map": tabs["map"]["need"]})


# =================================================================================================
# (a)/(c) multi-threaded and throwing scenarios in child interpreters
# =================================================================================================
def gen_configs(tier):
    cfgs = ["LazySeqImpl_Gen1.cfg", "LazySeqImpl_Gen2.cfg"]
    if tier == "thorough":
        cfgs += ["LazySeqImpl_Gen23.cfg", "LazySeqImpl_Gen3.cfg"]
    return cfgs


def run_gen(cfg):
    try:
        return cfg, run_tlc("LazySeqImpl_MC", cfg, workers=6, timeout=3000, heap="6g"), None
    except Exception as e:  # noqa
        return cfg, None, str(e)[-1500:]


def gen_scenarios(chk, futures):
    seen, scs = set(), []
    for f in futures:
        cfg, r, err = f.result()
        if r is None:
            chk.machinery("scenario generation %s: %s" % (cfg, err))
            continue
        chk.add_tlc(cfg, r)
        if r.violated or not r.ok:
            chk.machinery("scenario generation %s: %s\n%s" % (cfg, r.violated, r.error_trace()[:1500]))
            continue
        for b in r.tagged("BEH"):
            key = json.dumps(b, sort_keys=True)
            if key in seen:
                continue
            seen.add(key)
            scs.append({"n": len(b["plan"]), "progs": b["progs"], "plan": b["plan"], "hist": b["hist"]})
    scs.sort(key=lambda s: json.dumps(s, sort_keys=True))
    return scs


class Machine(Exception):
    pass


class Slot(threading.Thread):
    """runs batches of scenarios in child interpreters, one child at a time, under the watchdog"""

    def __init__(self, idx, q, results, ctl):
        super().__init__(daemon=True)
        self.idx, self.q, self.results, self.ctl = idx, q, results, ctl

    def run(self):
        while True:
            try:
                batch = self.q.get_nowait()
            except queue.Empty:
                return
            try:
                self.run_batch(batch)
            except Exception as e:  # noqa
                with self.ctl["lock"]:
                    self.ctl["errors"].append("slot %d: %s: %s" % (self.idx, type(e).__name__, e))

    def run_batch(self, batch):
        while batch:
            if self.ctl["abort"].is_set():
                with self.ctl["lock"]:
                    self.ctl["skipped"] += len(batch)
                return
            done_ids = self.run_child(batch)
            batch = [s for s in batch if s["id"] not in done_ids]

    def run_child(self, batch):
        """-> ids finished one way or the other (completed, hung, stuck)"""
        path = tlc.write_json("c06_batch_%d_%d" % (self.idx, batch[0]["id"]),
                              {"scenarios": batch, "grace": GRACE, "stuck": CHILD_STUCK})
        errp = path + ".err"
        byid = {s["id"]: s for s in batch}
        finished = set()
        with open(errp, "w") as ef:
            p = subprocess.Popen([repo.PY, CHILD, path], env=repo.child_env(), stdout=subprocess.PIPE, stderr=ef,
                                 cwd=repo.VERIF)
        fd = p.stdout.fileno()
        buf = b""
        cur, evs = None, []
        ready = False
        silent = 0.0
        cpu0 = None
        t_prev = time.monotonic()
        t_start = t_prev
        t_last = t_prev
        outcome = None
        try:
            while outcome is None:
                rl, _, _ = select.select([fd], [], [], 0.25)
                now = time.monotonic()
                dt = now - t_prev
                t_prev = now
                if rl:
                    chunk = os.read(fd, 1 << 16)
                    if not chunk:
                        outcome = "eof"
                        break
                    silent, cpu0, t_last = 0.0, None, now
                    buf += chunk
                    *lines, buf = buf.split(b"\n")
                    for ln in lines:
                        ln = ln.decode()
                        tag = ln[:1]
                        if tag == "R":
                            ready = True
                        elif tag == "B":
                            cur, evs = int(ln[2:]), []
                        elif tag == "E":
                            evs.append(json.loads(ln[2:]))
                        elif tag == "D":
                            d = json.loads(ln[2:])
                            self.emit(byid[d["id"]], d["status"], evs, d.get("skipped", 0))
                            finished.add(d["id"])
                            cur, evs = None, []
                        elif tag == "X":
                            outcome = "done"
                    continue
                # nothing to read for 0.25 s.  Count it as silence only if this very thread was scheduled on
                # time (a stalled machine stalls us too and must not look like a frozen child).
                if dt < 0.6:
                    silent += dt
                if not ready:
                    if now - t_start > STARTUP:
                        raise Machine("child did not start within %ds: %s" % (STARTUP, open(errp).read()[-800:]))
                    silent = 0.0
                    continue
                if silent >= SILENCE - 3.0:
                    # the last three seconds before the deadline: watch CPU use and thread states from outside
                    if cpu0 is None:
                        cpu0 = (_cpu_seconds(p.pid), now, [])
                    cpu0[2].append(_any_runnable(p.pid))
                if silent >= SILENCE:
                    used = _cpu_seconds(p.pid) - cpu0[0]
                    starving = sum(cpu0[2]) * 4 >= len(cpu0[2])     # a thread wants the CPU in >= 1/4 of the samples
                    if (used > 0.5 * (now - cpu0[1]) or starving) and now - t_last < BUSY_CAP:
                        silent, cpu0 = 0.0, None      # silent but computing / waiting for a CPU: not a frozen interpreter
                        continue
                    outcome = "frozen"
        finally:
            if p.poll() is None:
                p.kill()
            p.wait()
            p.stdout.close()
        rc = p.returncode
        if outcome == "frozen":
            if cur is None:
                raise Machine("child froze between scenarios")
            self.emit(byid[cur], "frozen", evs, 0)
            finished.add(cur)
        elif outcome == "eof":
            if cur is not None and cur not in finished:
                raise Machine("child died (rc=%s) in scenario %s: %s" % (rc, cur, open(errp).read()[-800:]))
            if rc not in (0, 3):
                raise Machine("child exit code %s: %s" % (rc, open(errp).read()[-800:]))
        try:
            err = open(errp).read()
            if err.strip():
                with self.ctl["lock"]:
                    self.ctl["stderr"].append(err[-2000:])
            os.unlink(errp)
            os.unlink(path)
        except OSError:
            pass
        if not finished and outcome != "done":
            raise Machine("child made no progress at all (outcome %s, rc %s)" % (outcome, rc))
        return finished

    def emit(self, sc, status, evs, skipped):
        with self.ctl["lock"]:
            self.results.append({"sc": sc, "status": status, "ev": evs, "skipped": skipped})
            if status != "ok":
                self.ctl["hangs"] += 1
                if self.ctl["hangs"] >= self.ctl["max_hangs"]:
                    self.ctl["abort"].set()


def _cpu_seconds(pid):
    try:
        f = open("/proc/%d/stat" % pid).read()
        rest = f[f.rindex(")") + 2:].split()
        return (int(rest[11]) + int(rest[12])) / os.sysconf("SC_CLK_TCK")
    except Exception:  # noqa
        return 0.0


def _any_runnable(pid):
    """is some thread of the process runnable or in uninterruptible sleep right now?"""
    try:
        for tid in os.listdir("/proc/%d/task" % pid):
            f = open("/proc/%d/task/%s/stat" % (pid, tid)).read()
            if f[f.rindex(")") + 2] in "RD":
                return True
    except Exception:  # noqa
        pass
    return False


def run_children(scs, max_hangs, nslots=None, per_batch=40):
    nslots = nslots or JOBS
    q = queue.Queue()
    for off in range(0, len(scs), per_batch):
        q.put(scs[off:off + per_batch])
    results = []
    ctl = {"lock": threading.Lock(), "abort": threading.Event(), "hangs": 0, "max_hangs": max_hangs, "skipped": 0,
           "errors": [], "stderr": []}
    slots = [Slot(i, q, results, ctl) for i in range(nslots)]
    for s in slots:
        s.start()
    for s in slots:
        s.join()
    while True:
        try:
            ctl["skipped"] += len(q.get_nowait())
        except queue.Empty:
            break
    return results, ctl


def to_trace(res, devlock=False, deverr=False):
    sc = res["sc"]
    return {"id": sc["id"], "n": sc["n"], "devlock": devlock, "deverr": deverr, "hang": res["status"] != "ok",
            "ev": res["ev"]}


def validate(chk, traces, name):
    """LazySeq_Trace on complete traces grouped by number of cells -> set of accepted ids"""
    acc = set()
    for n in sorted({t["n"] for t in traces}):
        part = [t for t in traces if t["n"] == n]
        for off in range(0, len(part), 3000):
            p = tlc.write_json("c06_traces_%s_%d_%d" % (name, n, off), part[off:off + 3000])
            r = run_tlc("LazySeq_Trace", "LazySeq_Trace.cfg", env={"TRACE_FILE": p}, timeout=3000, workers=8)
            chk.add_tlc("LazySeq_Trace[%s,n=%d,%d..]" % (name, n, off), r)
            acc |= set(r.tagged("ACC"))
            os.unlink(p)
    return acc


def diagnose(trace):
    p = tlc.write_json("c06_diag", [trace])
    r = run_tlc("LazySeq_Trace", "LazySeq_TraceDiag.cfg", env={"TRACE_FILE": p}, workers=1, timeout=600)
    ls = [x % 10000 for x in r.tagged("PFX")]
    reached = max(ls) if ls else 1
    n = len(trace["ev"])
    if reached > n:
        return "all %d events match but a call is still pending at the end" % n
    return "event %d of %d has no matching step in LazySeq.tla: %s" % (reached, n, json.dumps(trace["ev"][reached - 1]))


DEVSETS = [("Dev_ErrLeavesComputing", False, True), ("Dev_LockUnderGIL", True, False),
           ("Dev_LockUnderGIL+Dev_ErrLeavesComputing", True, True)]


def classify(chk, results):
    """results not accepted by LazySeq_Trace (or frozen) -> {id: deviation set name} for those that the as-built
    model with named deviations reproduces exactly (the smallest listed set that does)"""
    sets = [("<none>", False, False)] + DEVSETS
    jobs = []
    for name, dl, de in sets:
        for n in sorted({r["sc"]["n"] for r in results}):
            part = [to_trace(r, dl, de) for r in results if r["sc"]["n"] == n][:600]
            jobs.append((name, n, tlc.write_json("c06_cls_%s_%d" % (name.strip("<>").replace("+", "_"), n), part)))

    def one(j):
        name, n, p = j
        r = run_tlc("LazySeqImpl_Trace", "LazySeqImpl_Trace.cfg", env={"TRACE_FILE": p}, timeout=3000, workers=4)
        os.unlink(p)
        return name, n, r
    out = {}
    accepted = collections.defaultdict(set)
    with cf.ThreadPoolExecutor(8 if JOBS >= 16 else 2) as ex:
        for name, n, r in ex.map(one, jobs):
            chk.add_tlc("LazySeqImpl_Trace[%s,n=%d]" % (name, n), r)
            accepted[name] |= set(r.tagged("ACC")) | set(r.tagged("HNG"))
    # sanity: the repaired model must not accept what the required specification rejects
    for i in sorted(accepted["<none>"])[:5]:
        chk.machinery("trace %d is rejected by LazySeq_Trace but accepted by the repaired as-built model" % i)
    for name, _, _ in DEVSETS:
        for i in accepted[name]:
            out.setdefault(i, name)
    return out


def mt_part(chk, scs, label="mt"):
    max_hangs = 8 if chk.tier == "quick" else 24
    results, ctl = run_children(scs, max_hangs)
    for e in ctl["errors"]:
        chk.machinery(e)
    complete = [r for r in results if r["status"] == "ok" and len(r["ev"]) <= LONG]
    runaway = [r for r in results if r["status"] == "ok" and len(r["ev"]) > LONG]
    hung = [r for r in results if r["status"] != "ok"]
    for r in runaway:
        # no behaviour of LazySeq.tla for these programs and plans is that long (a producer is started at most twice
        # per cell: each plan raises at most once); such an execution is reported without asking TLC
        starts = collections.Counter(e["c"] for e in r["ev"] if e["k"] == "pstart")
        chk.discrepancy("LazySeq!RunsAtMostOnce", {"kind": "mt", "scenario": _pub(r["sc"])},
                        "at most %d events (every producer starts at most twice)" % LONG,
                        "%d events; producer starts per cell: %s" % (len(r["ev"]), dict(starts)),
                        module="LazySeq", direction="code->spec", extra={"trace_head": r["ev"][:60]})
    traces = [to_trace(r) for r in complete]
    acc = validate(chk, traces, label) if traces else set()
    rejected = [r for r in complete if r["sc"]["id"] not in acc]
    cls = classify(chk, rejected + hung) if (rejected or hung) else {}
    chk.count(len(results), traces=len(complete))
    ndiag = 0
    for r in rejected:
        sc = r["sc"]
        ndiag += 1
        why = diagnose(to_trace(r)) if ndiag <= 6 else "rejected by LazySeq_Trace (not diagnosed: more than 6 rejections)"
        dev = cls.get(sc["id"])
        chk.discrepancy("LazySeq_Trace!Accept", {"kind": "mt", "scenario": _pub(sc)},
                        "a behaviour of LazySeq.tla (at most once, on demand, same elements, exception keeps the cell)",
                        why, sig=("dev:" + dev) if dev else None, module="LazySeq_Trace", direction="code->spec",
                        extra={"trace": r["ev"], "as_built_model_reproduces_with": dev})
    for r in hung:
        sc = r["sc"]
        dev = cls.get(sc["id"])
        if r["status"] == "frozen":
            obs = ("the whole interpreter froze: no output and no CPU use for %ds after %d events (last: %s)"
                   % (SILENCE, len(r["ev"]), json.dumps(r["ev"][-1]) if r["ev"] else "-"))
        else:
            obs = "consumer threads made no progress for %ds inside their calls (interpreter alive)" % CHILD_STUCK
        chk.discrepancy("LazySeq!Live", {"kind": "mt", "scenario": _pub(sc)},
                        "every call returns (no deadlock, no lost wake-up)", obs,
                        sig=("dev:" + dev) if dev else None, module="LazySeq", direction="code->spec",
                        extra={"trace": r["ev"], "as_built_model_reproduces_with": dev})
    for r in complete:
        if _overlap(r["ev"]):
            chk.nontriv(n=1)
    st = chk.extra.setdefault("mt", {})
    st[label] = {"scenarios": len(scs), "executed": len(results), "complete": len(complete), "accepted": len(acc),
                 "rejected": len(rejected), "frozen_or_stuck": len(hung), "runaway": len(runaway),
                 "not_run_after_%d_hangs" % max_hangs: ctl["skipped"],
                 "decisions_not_applicable_in_replay": sum(r["skipped"] for r in results),
                 "executions_with_a_call_overlapping_a_running_producer": sum(1 for r in complete if _overlap(r["ev"])),
                 "classified": dict(collections.Counter(cls.values()))}
    if ctl["stderr"]:
        st[label]["child_stderr_tail"] = ctl["stderr"][0][-600:]
    for r in complete[:: max(1, len(complete) // 3)][:3]:
        chk.sample({"scenario": _pub(r["sc"]), "trace": r["ev"]})
    return results


def _pub(sc):
    return {k: sc[k] for k in ("n", "progs", "plan", "hist")}


def _overlap(evs):
    """a call of one thread is pending while another thread is inside a producer"""
    inprod, pending = set(), set()
    for e in evs:
        if e["k"] == "pstart":
            inprod.add(e["t"])
        elif e["k"] == "pend":
            inprod.discard(e["t"])
        elif e["k"] == "call":
            pending.add(e["t"])
            if inprod - {e["t"]}:
                return True
        elif e["k"] == "ret":
            pending.discard(e["t"])
    return False


# =================================================================================================
def run(chk):
    chk.rule = ("(a) scenario = consumer programs of 1-3 threads x producer plan per cell (park / throw once / "
                "re-enter) x decision sequence generated by TLC from LazySeqImpl_MC, executed with real threads; "
                "non-trivial = execution in which a call of one thread was issued while another thread was inside a "
                "producer; (b) consumption history of length 4 (6) x construct; non-trivial = history with >= 3 "
                "different operations that demands >= 2 cells")
    chk.assumptions = [
        "producers return nil or a cons cell (the unwrapping loop of nested lazy seqs in seq() is exercised only "
        "functionally through filter/drop in the demand histories, not in the thread model)",
        "the interpreter lock is modelled as held from taking a cell's mutex to the next point where Python code runs",
        "a frozen child = no output for %ds of time during which the checking process was scheduled normally and the "
        "child used no CPU" % SILENCE]
    demand_env()
    ctx = mp.get_context("fork")
    pool = ctx.Pool(JOBS)
    ex = cf.ThreadPoolExecutor(6 if JOBS >= 16 else 2)      # TLC jobs running at once
    t0 = time.time()
    gen = [ex.submit(run_gen, c) for c in gen_configs(chk.tier)]
    design = [ex.submit(run_design, j) for j in design_jobs(chk.tier)]
    try:
        demand_part(chk, pool)
    finally:
        pool.close()
        pool.join()
    t1 = time.time()
    scs = gen_scenarios(chk, gen)
    t2 = time.time()
    for i, s in enumerate(scs):
        s["id"] = i + 1
    cap = 2600 if chk.tier == "quick" else 30000
    chk.extra["scenarios_generated"] = len(scs)
    if len(scs) > cap:
        import random
        rnd = random.Random(chk.seed)
        single = [s for s in scs if len(s["progs"]) == 1]
        multi = [s for s in scs if len(s["progs"]) > 1]
        rnd.shuffle(multi)
        scs = sorted(single + multi[:cap - len(single)], key=lambda s: s["id"])
    mt_part(chk, scs)
    t3 = time.time()
    account_design(chk, [f.result() for f in design])
    ex.shutdown()
    chk.extra["phase_wall_s"] = {"demand": round(t1 - t0, 1), "wait_for_scenarios": round(t2 - t1, 1),
                                 "threads+validation": round(t3 - t2, 1), "wait_for_design_checks": round(time.time() - t3, 1)}
    chk.exhaustive = {"design": "all reachable states of the listed configurations",
                      "demand_histories": "all of length %d over 8 operations" % (4 if chk.tier == "quick" else 6),
                      "scenarios": "all distinct (programs, plans, decisions) of the generation configurations"
                                   + " (seeded sample of %d when more)" % cap}


def replay(chk, body):
    case = body["case"]
    if case["kind"] == "demand":
        cfg = "LazySeqDemand_q.cfg"
        r = run_tlc("LazySeqDemand", cfg, workers=4, timeout=3000)
        chk.add_tlc(cfg, r)
        tabs = {t["con"]: t for t in r.tagged("TAB")}
        t = tabs[TABLE_OF.get(case["construct"], case["construct"])]
        res = run_history(case["construct"], case["history"], t["need"], t["dem0"])
        chk.count(1)
        print("history:", json.dumps(case["history"]))
        print("outcome:", res)
        for (clause, i, exp, obs, sig) in res:
            chk.discrepancy(clause, case, exp, obs, sig=sig, module="LazySeqDemand", direction="replay")
        return
    sc = dict(case["scenario"])
    sc["id"] = 1
    results = mt_part(chk, [sc], label="replay")
    for r in results:
        print("status:", r["status"])
        for e in r["ev"]:
            print("  ", json.dumps(e))


# =================================================================================================
# self-test of the binding (never part of the verdict on basilisp): hand-written traces, some of them corrupted
# =================================================================================================
def selftest(chk):
    def I(i):
        return {"ty": "int", "i": i}
    exc = {"ty": "exc", "i": 0}

    def ev(k, t, op="-", c=0, ok=True, res=NIL):
        return {"k": k, "t": t, "op": op, "c": c, "ok": ok, "res": res}
    T = {
        1: [ev("call", 1, "first", 1), ev("pstart", 1, c=1), ev("pend", 1, c=1), ev("ret", 1, res=I(1))],
        # producer throws, second access silently nil (what the pinned tree does)
        2: [ev("call", 1, "first", 1), ev("pstart", 1, c=1), ev("pend", 1, c=1, ok=False), ev("ret", 1, res=exc),
            ev("call", 1, "first", 1), ev("ret", 1, res=NIL)],
        # producer throws, second access runs it again
        3: [ev("call", 1, "first", 1), ev("pstart", 1, c=1), ev("pend", 1, c=1, ok=False), ev("ret", 1, res=exc),
            ev("call", 1, "first", 1), ev("pstart", 1, c=1), ev("pend", 1, c=1), ev("ret", 1, res=I(1))],
        # frozen: second thread asks while the producer is parked
        4: [ev("call", 1, "first", 1), ev("pstart", 1, c=1), ev("park", 1), ev("call", 2, "first", 1)],
        5: [ev("call", 1, "first", 1), ev("pstart", 1, c=1), ev("park", 1), ev("call", 2, "first", 1), ev("resume", 1),
            ev("pend", 1, c=1), ev("ret", 1, res=I(1)), ev("ret", 2, res=I(1))],
        # re-entrant access from inside the producer sees nil
        6: [ev("call", 1, "first", 1), ev("pstart", 1, c=1), ev("call", 1, "first", 1), ev("ret", 1, res=NIL),
            ev("pend", 1, c=1), ev("ret", 1, res=I(1))],
        # corrupted: the producer runs twice
        7: [ev("call", 1, "first", 1), ev("pstart", 1, c=1), ev("park", 1), ev("call", 2, "first", 1), ev("resume", 1),
            ev("pend", 1, c=1), ev("ret", 1, res=I(1)), ev("pstart", 2, c=1), ev("pend", 2, c=1), ev("ret", 2, res=I(1))],
        8: [ev("call", 1, "count", 1), ev("pstart", 1, c=1), ev("pend", 1, c=1), ev("pstart", 1, c=2), ev("pend", 1, c=2),
            ev("ret", 1, res=I(1)), ev("call", 2, "next", 1), ev("ret", 2, res=NIL)],
        # corrupted: first realizes the second cell too (beyond demand)
        9: [ev("call", 1, "first", 1), ev("pstart", 1, c=1), ev("pend", 1, c=1), ev("pstart", 1, c=2), ev("pend", 1, c=2),
            ev("ret", 1, res=I(1))],
        # corrupted: another element is returned to the second consumer
        10: [ev("call", 1, "first", 1), ev("pstart", 1, c=1), ev("pend", 1, c=1), ev("ret", 1, res=I(1)),
             ev("call", 2, "first", 1), ev("ret", 2, res=I(2))],
        # frozen before the producer could log its start / after it logged its end (it is at Python level there)
        11: [ev("call", 1, "first", 1), ev("call", 2, "first", 1)],
        12: [ev("call", 1, "first", 1), ev("pstart", 1, c=1), ev("pend", 1, c=1), ev("call", 2, "first", 1)],
    }

    def mk(dl, de):
        return [{"id": i, "n": 2, "devlock": dl, "deverr": de, "hang": i in (4, 11, 12), "ev": e} for i, e in sorted(T.items())]
    p = tlc.write_json("c06_selftest", mk(False, False))
    r = run_tlc("LazySeq_Trace", "LazySeq_Trace.cfg", env={"TRACE_FILE": p})
    got = sorted(set(r.tagged("ACC")))
    ok = got == [1, 3, 5, 6, 8]
    print("LazySeq_Trace accepts", got, "expected [1, 3, 5, 6, 8]")
    want = {(False, False): ([1, 3, 5, 6, 8], []), (True, False): ([1, 3, 5, 6, 8], [4, 11, 12]),
            (False, True): ([1, 2, 5, 6, 8], []), (True, True): ([1, 2, 5, 6, 8], [4, 11, 12])}
    for (dl, de), (wacc, whng) in want.items():
        p = tlc.write_json("c06_selftest", mk(dl, de))
        r = run_tlc("LazySeqImpl_Trace", "LazySeqImpl_Trace.cfg", env={"TRACE_FILE": p})
        a, h = sorted(set(r.tagged("ACC"))), sorted(set(r.tagged("HNG")))
        print("LazySeqImpl_Trace lock=%s err=%s accepts %s freezes %s" % (dl, de, a, h))
        ok = ok and a == wacc and h == whng
    # a correct construct judged with a table that is off by one must be reported
    D = demand_env()
    need = {str(d): {"src": max(0, d - 1)} for d in range(0, 6)}
    res = run_history("lazy", [{"op": "first", "res": I(1), "dem": 1}], need, 0)
    print("demand replay with a table that is one too low:", res)
    ok = ok and len(res) == 1 and res[0][4] == "demand:lazy:src:+1"
    print("selftest", "passed" if ok else "FAILED")
    return 0 if ok else 2
