"""C19, EDN / JSON half -- the codecs invert themselves.

PrintRead.tla (the value universe of C03) has two views: InEdn(v), the EDN data the EDN writer is specified
for, and InJson(v) with the documented coercion JsonNorm(v) (map keys -> (name k); keywords / symbols ->
"ns/name" strings; lists, vectors and sets -> vectors).  TLC checks on the specified text scheme that EDN
values round-trip and that JsonNorm is idempotent, and emits every value of the two views.  Each one is
concretised twice and replayed through the real code:
   edn/read-string . edn/write-string        = identity (same value, same type)
   (core) read-string . edn/write-string     = identity (the Lisp reader reads EDN)
   json/read-str . json/write-str            = JsonNorm
Outside the documented domain (examined, not flagged): (json/write-str {1 3}) raises AttributeError -- the
documented key coercion is :key-fn, default basilisp.core/name, which is defined on keywords, symbols and
strings only; maps with other keys are therefore not in InJson.  Values the EDN writer rejects (ratios,
decimals, regexes, byte strings, Python collections) are not EDN data and not in InEdn.
"""
import json

import boot
import tlc
import c03

PART = "codecs"
_R = {}


def _init():
    if _R:
        return _R
    c03._init()
    sc = boot.Scratch("verif.c19codecs")
    sc.eval("(require '[basilisp.edn :as edn] '[basilisp.json :as json])")
    _R.update(edn_write=sc.eval("edn/write-string"), edn_read=sc.eval("edn/read-string"),
              json_write=sc.eval("json/write-str"), json_read=sc.eval("json/read-str"),
              read_string=boot.core_fn("read-string"), eq=boot.core_fn("="))
    return _R


def _call(f, *a):
    try:
        return True, f(*a)
    except Exception as e:  # noqa
        return False, "%s: %s" % (type(e).__name__, str(e)[:80])


def conc_norm(v, var):
    """the concrete value JsonNorm(v) denotes; sets become ('unordered', [...])"""
    R = c03._R
    ty = v["ty"]
    if ty == "namestr":
        name = c03.NAMES[var][v["n"]]
        return (c03.NSS[var][v["ns"]] + "/" + name) if v["ns"] else name
    if ty == "vec":
        return R["vec"].vector([conc_norm(x, var) for x in v["xs"]])
    if ty == "vec-unordered":
        return ("unordered", [conc_norm(x, var) for x in v["xs"]])
    if ty == "map":
        items = [conc_norm(x, var) for x in v["xs"]]
        return R["lmap"].map(dict(zip(items[0::2], items[1::2])))
    return c03.conc(v, var)


def same_norm(exp, got):
    """got is the expected normal form (sets in any order)"""
    R = c03._R
    if isinstance(exp, tuple) and len(exp) == 2 and exp[0] == "unordered":
        if not isinstance(got, R["vec"].PersistentVector):
            return "type:vector expected->%s" % type(got).__name__
        left = list(got)
        if len(left) != len(exp[1]):
            return "length"
        for e in exp[1]:
            for i, g in enumerate(left):
                if same_norm(e, g) is None:
                    del left[i]
                    break
            else:
                return "set-element"
        return None
    if isinstance(exp, R["vec"].PersistentVector):
        if not isinstance(got, R["vec"].PersistentVector):
            return "type:%s->%s" % (type(exp).__name__, type(got).__name__)
        if len(exp) != len(got):
            return "length"
        for e, g in zip(exp, got):
            r = same_norm(e, g)
            if r:
                return r
        return None
    if isinstance(exp, R["lmap"].PersistentMap):
        if not isinstance(got, R["lmap"].PersistentMap):
            return "type:%s->%s" % (type(exp).__name__, type(got).__name__)
        if len(exp) != len(got):
            return "length"
        for k, e in exp.items():
            if k not in got:
                return "key:%r" % (k,)
            r = same_norm(e, got[k])
            if r:
                return r
        return None
    return c03.same(exp, got, False)


def float_shape(v):
    for lf in c03.find_leaf(v):
        if lf["ty"] == "float" and "e" in repr(c03.FLOATS[lf["n"]]):
            return "float-written-in-exponent-notation"
    return None


def replay_value(v, var, do_edn, do_json, jn):
    """-> list of (clause, sig, expected, observed)"""
    R = _init()
    out = []
    val = c03.conc(v, var)
    shape = float_shape(v)
    if do_edn:
        ok, text = _call(R["edn_write"], val)
        if not ok:
            out.append(("PrintRead!RoundTrip(EDN)", "edn:writer-rejects:%s" % v["ty"], "EDN text", text))
        else:
            for name, rd in (("edn-reader", R["edn_read"]), ("lisp-reader", R["read_string"])):
                ok, back = _call(rd, text)
                if not ok:
                    sig = "edn:%s->%s-fails" % (shape, name) if shape else None
                    out.append(("PrintRead!RoundTrip(EDN, %s)" % name, sig, "the value written", "%s text=%r" % (back, text)))
                    continue
                d = c03.same(val, back, False)
                if d is None and not c03._has_nan(val) and R["eq"](val, back) is not True:
                    d = "not="
                if d:
                    what = "reads-an-int" if d.startswith("type:float->int") else \
                        "reads-a-different-double" if d.startswith("float-bits") else None
                    sig = "edn:%s->%s-%s" % (shape, name, what) if shape and what else None
                    out.append(("PrintRead!RoundTrip(EDN, %s)" % name, sig, "the value written",
                                "%s text=%r back=%r" % (d, text, back)))
    if do_json:
        exp = conc_norm(jn, var)
        ok, text = _call(R["json_write"], val)
        if not ok:
            out.append(("PrintRead!JsonNorm", "json:writer-rejects:%s" % v["ty"], "JSON text", text))
        else:
            ok, back = _call(R["json_read"], text)
            if not ok:
                out.append(("PrintRead!JsonNorm", None, "JsonNorm(v)", "%s text=%r" % (back, text)))
            else:
                d = same_norm(exp, back)
                if d:
                    out.append(("PrintRead!JsonNorm", None, "JsonNorm(v) = %r" % (exp,), "%s text=%r back=%r" % (d, text, back)))
    return out


def _work(recs):
    _init()
    n = 0
    bad = []
    for r in recs:
        for var in (0, 1):
            res = replay_value(r["v"], var, r["edn"], r["json"], r["jn"])
            n += int(r["edn"]) * 2 + int(r["json"])
            for clause, sig, want, got in res:
                bad.append({"v": r["v"], "var": var, "edn": r["edn"], "json": r["json"], "jn": r["jn"],
                            "clause": clause, "sig": sig, "expected": want, "observed": got})
    return n, bad


def run_part(chk):
    _init()
    quick = chk.tier == "quick"
    chk.rule += (" [codecs] every value of the EDN / JSON views of the PrintRead universe, two concretisations; "
                 "non-trivial = a collection, a string with an escape-relevant class or a float in exponent notation.")
    r = tlc.run("PrintRead", "PrintRead_Cq.cfg" if quick else "PrintRead_Ct.cfg", timeout=3000, heap="6g",
                workers=c03.TLCW)
    chk.add_tlc("PrintRead_Codecs", r)
    if r.violated or not r.ok:
        chk.machinery("PrintRead codec views: %s\n%s" % (r.violated, r.error_trace()[:1200]))
        return
    recs = r.tagged("COD")
    recs.sort(key=lambda x: json.dumps(x, sort_keys=True))
    chk.extra["codecs_values"] = {"edn": sum(1 for x in recs if x["edn"]), "json": sum(1 for x in recs if x["json"])}
    for x in recs:
        v = x["v"]
        if v["xs"] or (v["ty"] == "str" and set(v["cs"]) - {"alpha", "hexalpha", "digit", "sp"}) or float_shape(v):
            chk.nontriv(None, 2)
    def report(bad):
        for d in bad:
            case = {"part": PART, "v": d["v"], "var": d["var"], "edn": d["edn"], "json": d["json"], "jn": d["jn"]}
            chk.discrepancy(d["clause"], case, d["expected"], d["observed"], sig=d["sig"],
                            module="PrintRead", direction="spec->code")
    if quick:
        n, bad = _work(recs)
        chk.count(n, traces=n)
        report(bad)
    else:
        import multiprocessing
        pool = multiprocessing.get_context("fork").Pool(min(8, c03.POOL))
        try:
            step = max(1, len(recs) // 64)
            for n, bad in pool.imap_unordered(_work, [recs[i:i + step] for i in range(0, len(recs), step)]):
                chk.count(n, traces=n)
                report(bad)
        finally:
            pool.close()
            pool.join()
    for x in recs[:2000:500]:
        chk.sample({"codecs_value": x["v"], "edn": x["edn"], "json": x["json"]})


def replay_part(chk, body):
    _init()
    c = body["case"]
    res = replay_value(c["v"], c["var"], c["edn"], c["json"], c["jn"])
    print("value=%r" % (c03.conc(c["v"], c["var"]),))
    chk.count()
    for clause, sig, want, got in res:
        print("  ", clause, got)
        if clause == body["clause"]:
            chk.discrepancy(clause, c, want, got, sig=sig or body.get("sig"), module="PrintRead", direction="replay")
