"""Program corpus for C01 / C02 / C15: abstract syntax (JSON, the shape Lang.tla reads), a typed generator
(exhaustive for small sizes, random beyond), syntactic contexts, and the printer to Lisp text.

The generator is type-directed only to keep programs *meaningful* (calls hit functions of the right arity,
loops terminate); it decides nothing about what a program must compute — that is Lang.tla's business.
"""
import itertools

# ---- values ------------------------------------------------------------------------------------
NIL = {"ty": "nil"}


def I(i):
    return {"ty": "int", "i": i}


def B(b):
    return {"ty": "bool", "i": 1 if b else 0}


def K(n):
    return {"ty": "kw", "n": n}


# ---- node constructors ---------------------------------------------------------------------------
def c(v):
    return {"t": "c", "v": v}


def l(n):
    return {"t": "l", "n": n}


def b(n):
    return {"t": "b", "n": n}


def g(n):
    return {"t": "g", "n": n}


def if_(a, x, y):
    return {"t": "if", "a": a, "b": x, "c": y}


def do(*xs):
    return {"t": "do", "xs": list(xs)}


def let(bs, *xs):
    return {"t": "let", "bs": [{"n": n, "e": e} for n, e in bs], "xs": list(xs)}


def loop(bs, *xs):
    return {"t": "loop", "bs": [{"n": n, "e": e} for n, e in bs], "xs": list(xs)}


def recur(*args):
    return {"t": "recur", "args": list(args)}


def fn(ps, *xs, self=""):
    return {"t": "fn", "self": self, "ps": list(ps), "xs": list(xs)}


def mfn(ars, self=""):
    """a fn of several arities: ars = [(fixed params, rest param or "", body forms)]"""
    return {"t": "mfn", "self": self, "ars": [{"ps": list(ps), "rest": rest, "xs": list(xs)} for ps, rest, xs in ars]}


def call(f, *args):
    return {"t": "call", "f": f, "args": list(args)}


def prim(n, *args):
    return call(b(n), *args)


def m(k, e=None):
    return prim("m", c(I(k))) if e is None else prim("m", c(I(k)), e)


def vec(*xs):
    return {"t": "vec", "xs": list(xs)}


def letfn(fs, *xs):
    return {"t": "letfn", "fs": [{"n": n, "ps": list(ps), "xs": list(body)} for n, ps, body in fs], "xs": list(xs)}


def try_(xs, cs=(), fin=()):
    return {"t": "try", "xs": list(xs), "cs": [{"c": cl, "n": n, "xs": list(h)} for cl, n, h in cs], "fin": list(fin)}


def throw(cls):
    return {"t": "throw", "e": {"t": "mkexc", "c": cls}}


def def_(n, e):
    return {"t": "def", "n": n, "e": e}


def callall(e):
    return {"t": "callall", "e": e}


OBJ = {"t": "obj"}


def field(e, n):
    return {"t": "field", "e": e, "n": n}


def mcall(e, n, *args):
    return {"t": "mcall", "e": e, "n": n, "args": list(args)}


# ---- printer -------------------------------------------------------------------------------------
PRIMS = {"m": "m", "vector": "vector", "identity": "identity", "not": "not", "inc": "inc", "dec": "dec",
         "add": "+", "lt": "<", "eq": "=", "conj": "conj",
         # core functions marked ^:inline whose body mentions the parameter twice / never: an inlined call must
         # still evaluate the argument exactly once
         "truep": "true?", "falsep": "false?", "anyp": "any?", "peek": "peek"}


def pv(v):
    ty = v["ty"]
    if ty == "nil":
        return "nil"
    if ty == "bool":
        return "true" if v["i"] else "false"
    if ty == "int":
        return str(v["i"])
    if ty == "kw":
        return ":" + v["n"]
    raise ValueError(v)


def pr(e):
    t = e["t"]
    if t == "c":
        return pv(e["v"])
    if t in ("l", "g"):
        return e["n"]
    if t == "b":
        return PRIMS[e["n"]]
    if t == "mkexc":
        return '(python/%s "x")' % e["c"]
    if t == "if":
        return "(if %s %s %s)" % (pr(e["a"]), pr(e["b"]), pr(e["c"]))
    if t == "do":
        return "(do%s)" % "".join(" " + pr(x) for x in e["xs"])
    if t in ("let", "loop"):
        return "(%s [%s]%s)" % (t, " ".join("%s %s" % (bb["n"], pr(bb["e"])) for bb in e["bs"]),
                               "".join(" " + pr(x) for x in e["xs"]))
    if t == "recur":
        return "(recur%s)" % "".join(" " + pr(x) for x in e["args"])
    if t == "fn":
        return "(fn %s[%s]%s)" % (e["self"] + " " if e["self"] else "", " ".join(e["ps"]),
                                  "".join(" " + pr(x) for x in e["xs"]))
    if t == "mfn":
        ars = ["[%s%s]%s" % (" ".join(a["ps"]), ((" " if a["ps"] else "") + "& " + a["rest"]) if a["rest"] else "",
                             "".join(" " + pr(x) for x in a["xs"])) for a in e["ars"]]
        if len(ars) == 1 and e.get("bare", True):
            return "(fn %s%s)" % (e["self"] + " " if e["self"] else "", ars[0])
        return "(fn %s%s)" % (e["self"] + " " if e["self"] else "", " ".join("(%s)" % a for a in ars))
    if t == "call":
        return "(%s%s)" % (pr(e["f"]), "".join(" " + pr(x) for x in e["args"]))
    if t == "vec":
        return "[%s]" % " ".join(pr(x) for x in e["xs"])
    if t == "letfn" and e.get("star"):
        # the special form itself (what the letfn macro expands to), with fn* values
        return "(letfn* [%s]%s)" % (" ".join("%s (fn* %s [%s]%s)" % (f["n"], f["n"], " ".join(f["ps"]),
                                                                    "".join(" " + pr(x) for x in f["xs"]))
                                             for f in e["fs"]),
                                    "".join(" " + pr(x) for x in e["xs"]))
    if t == "letfn":
        return "(letfn [%s]%s)" % (" ".join("(%s [%s]%s)" % (f["n"], " ".join(f["ps"]),
                                                            "".join(" " + pr(x) for x in f["xs"]))
                                            for f in e["fs"]),
                                   "".join(" " + pr(x) for x in e["xs"]))
    if t == "try":
        s = "(try%s" % "".join(" " + pr(x) for x in e["xs"])
        for cc in e["cs"]:
            s += " (catch python/%s %s%s)" % (cc["c"], cc["n"], "".join(" " + pr(x) for x in cc["xs"]))
        if e["fin"]:
            s += " (finally%s)" % "".join(" " + pr(x) for x in e["fin"])
        return s + ")"
    if t == "throw":
        return "(throw %s)" % pr(e["e"])
    if t == "def":
        return "(def %s %s)" % (e["n"], pr(e["e"]))
    if t == "callall":
        return "(mapv (fn [f__] (f__)) %s)" % pr(e["e"])
    if t == "obj":
        return "o"
    if t == "field":
        return "(.-p%d %s)" % (e["n"], pr(e["e"]))
    if t == "mcall":
        return "(.m%d %s%s)" % (e["n"], pr(e["e"]), "".join(" " + pr(x) for x in e["args"]))
    raise ValueError(t)


_munge = None


def annotate(e):
    """add to every fn / letfn function the flag mdup: two parameters have the same munged (Python) name.
    Computed with basilisp's own munge; read only by the as-built model (Gen.tla), never by Lang.tla."""
    global _munge
    if _munge is None:
        from basilisp.lang.util import munge
        _munge = munge
    if isinstance(e, dict):
        out = {k: annotate(v) for k, v in e.items()}
        if e.get("t") == "fn" or ("ps" in e and "n" in e and "t" not in e) or ("ps" in e and "rest" in e):
            ms = [_munge(p) for p in e["ps"] + ([e["rest"]] if e.get("rest") else [])]
            out["mdup"] = len(set(ms)) < len(ms)
            out["mps"] = ms
        return out
    if isinstance(e, list):
        return [annotate(x) for x in e]
    return e


def size(e):
    if isinstance(e, dict):
        return (1 if "t" in e else 0) + sum(size(v) for v in e.values())
    if isinstance(e, list):
        return sum(size(x) for x in e)
    return 0


# ---- syntactic contexts (C01: the result must not depend on where the form sits) ----------------------
def contexts(p):
    """name -> program that places p in that position (the wrapped program is itself evaluated by Lang.tla)"""
    return {
        "top": p,
        "fnbody": call(fn([], p)),
        "stmt": do(p, m(97)),
        "arg": prim("vector", m(90), p, m(91)),
        "letinit": let([("z", p)], m(92), l("z")),
        "iftest": if_(p, m(93), m(94)),
        "vecelem": vec(m(95), p),
        "fnarg": call(fn(["q"], l("q")), p),
        "trybody": try_([p], [("Exception", "e", [m(96), c(K("caught"))])], [m(98)]),
        "loopinit": loop([("w", p)], l("w")),
        # statement position inside a function / a let body (a top-level `do` is split into units, so "stmt"
        # above is in fact a top-level form)
        "fnstmt": call(fn([], p, m(89))),
        "letstmt": let([("z", c(I(1)))], p, l("z")),
        "ifstmt": call(fn([], if_(m(88, c(B(True))), do(p, c(I(3))), c(I(4))))),
    }


CTX_QUICK = ["top", "fnbody", "stmt", "arg", "letinit", "iftest", "fnstmt", "letstmt"]

# ---- generator -------------------------------------------------------------------------------------
LOCALS = ["x", "y", "a-b", "a_b", "x?", "x__Q__", "class", "print", "n*", "G"]
EXC = ["ValueError", "KeyError", "ZeroDivisionError"]
CATCH = ["ValueError", "KeyError", "LookupError", "Exception", "ArithmeticError"]


class Gen:
    """random typed generation; types: 'int', 'any', 'fn0', 'vfn'"""

    def __init__(self, rnd):
        self.r = rnd
        self.k = 0        # marker counter
        self.gl = []      # globals defined so far (names), in evaluation order of generation
        self.gn = 0

    def marker(self):
        self.k += 1
        return self.k

    def name(self, scope):
        return self.r.choice(LOCALS)

    def expr(self, ty, d, scope, tail=None):
        """scope: list of (name, type); tail: None or ('loop'|'fn', arity) when a recur is allowed here"""
        r = self.r
        if ty == "fn0":
            return self.fn0(d, scope)
        if ty == "vfn":
            return self.vfn(d, scope)
        if d <= 0:
            return self.leaf(ty, scope)
        w = r.random()
        sub = lambda t=ty, tl=None: self.expr(t, d - 1, scope, tl)  # noqa: E731
        if w < 0.14:
            return self.leaf(ty, scope)
        if w < 0.26:
            return m(self.marker(), sub())
        if w < 0.36:
            return if_(sub("any"), sub(ty, tail), sub(ty, tail))
        if w < 0.43:
            return do(*[sub("any") for _ in range(r.randint(0, 2))], sub(ty, tail))
        if w < 0.53:
            return self.let_(ty, d, scope, tail)
        if w < 0.63:
            return self.primcall(ty, d, scope)
        if w < 0.71:
            return self.fncall(ty, d, scope)
        if w < 0.78:
            return self.loop_(ty, d, scope)
        if w < 0.86:
            return self.try_(ty, d, scope)
        if w < 0.89:
            return throw(r.choice(EXC))
        if w < 0.92 and ty == "any":
            return callall(self.vfn(d - 1, scope))
        if w < 0.95 and ty == "any":
            return self.def_(d, scope)
        if w < 0.965:
            return self.letfn_(ty, d, scope)
        if w < 0.972 and ty == "any":
            return self.arity_(d, scope)
        if w < 0.98 and ty == "any":
            return self.capture_(d, scope)
        if w < 0.992 and ty == "any":
            return self.interop_(d, scope)
        if ty == "any":
            return vec(*[sub("any") for _ in range(r.randint(0, 3))])
        return self.leaf(ty, scope)

    def leaf(self, ty, scope):
        r = self.r
        cands = [n for n, t in scope if t == ty or (ty == "any" and t == "int")]
        if cands and r.random() < 0.5:
            return l(r.choice(cands))
        if ty == "any" and self.gl and r.random() < 0.2:
            return g(r.choice(self.gl))
        if r.random() < 0.3:
            return m(self.marker()) if ty in ("int", "any") else c(NIL)
        if ty == "int":
            return c(I(r.choice([0, 1, 2])))
        return c(r.choice([NIL, B(False), B(True), I(0), I(1), K("k"), K("a-b")]))

    def let_(self, ty, d, scope, tail):
        r = self.r
        bs, sc = [], list(scope)
        for _ in range(r.randint(1, 2)):
            t = r.choice(["int", "any", "any", "fn0"])
            n = self.name(sc)
            bs.append((n, self.expr(t, d - 1, sc)))
            sc = [(a, bt) for a, bt in sc if a != n] + [(n, t)]
        body = [self.expr("any", d - 1, sc) for _ in range(r.randint(0, 1))] + [self.expr(ty, d - 1, sc, tail)]
        return let(bs, *body)

    def primcall(self, ty, d, scope):
        r = self.r
        sub = lambda t: self.expr(t, d - 1, scope)  # noqa: E731
        if ty == "int":
            w = r.choice(["inc", "dec", "add", "identity"])
            if w == "add":
                return prim("add", sub("int"), sub("int"))
            return prim(w, sub("int"))
        w = r.choice(["vector", "vector", "lt", "eq", "not", "identity", "conj", "truep", "falsep", "anyp", "peek"])
        if w == "peek":
            return prim("peek", prim("vector", *[sub("any") for _ in range(r.randint(0, 2))]))
        if w == "vector":
            return prim("vector", *[sub("any") for _ in range(r.randint(0, 3))])
        if w == "lt":
            return prim("lt", sub("int"), sub("int"))
        if w == "eq":
            return prim("eq", sub("int"), sub("int"))
        if w == "conj":
            return prim("conj", vec(*[sub("any") for _ in range(r.randint(0, 2))]), sub("any"))
        return prim(w, sub("any"))

    def fncall(self, ty, d, scope):
        r = self.r
        f0 = [n for n, t in scope if t == "fn0"]
        if f0 and ty == "any" and r.random() < 0.4:
            return call(l(r.choice(f0)))
        n = r.randint(0, 2)
        ps = []
        sc = list(scope)
        for _ in range(n):
            p = self.name(sc)
            if p in ps:
                continue
            ps.append(p)
        sc = [(a, t) for a, t in sc if a not in ps] + [(p, "any") for p in ps]
        body = self.expr(ty, d - 1, sc)
        args = [self.expr("any", d - 1, scope) for _ in ps]
        return call(fn(ps, body), *args)

    def fn0(self, d, scope):
        r = self.r
        cands = [n for n, t in scope if t == "fn0"]
        if cands and r.random() < 0.3:
            return l(r.choice(cands))
        return fn([], self.expr("any", max(0, d - 1), scope))

    def vfn(self, d, scope):
        r = self.r
        w = r.random()
        if w < 0.45:
            return vec(*[self.fn0(d - 1, scope) for _ in range(r.randint(0, 3))])
        # closures collected by a loop: every closure must keep the bindings of its own iteration
        i, acc = self.name(scope), "acc"
        if i == acc:
            i = "i"
        n = r.randint(1, 3)
        sc = [(a, t) for a, t in scope if a not in (i, acc)] + [(i, "int")]
        if w < 0.75:
            made = fn([], self.expr("any", max(0, d - 2), sc))
            return loop([(i, c(I(0))), (acc, vec())],
                        if_(prim("lt", l(i), c(I(n))),
                            recur(prim("inc", l(i)), prim("conj", l(acc), made)),
                            l(acc)))
        j = self.name(sc)
        if j in (i, acc):
            j = "j"
        sc2 = sc + [(j, "int")]
        made = fn([], self.expr("any", max(0, d - 2), sc2))
        return loop([(i, c(I(0))), (acc, vec())],
                    if_(prim("lt", l(i), c(I(n))),
                        let([(j, prim("add", l(i), c(I(10))))],
                            recur(prim("inc", l(i)), prim("conj", l(acc), made))),
                        l(acc)))

    def capture_(self, d, scope):
        """closures that must keep the bindings in effect when they were created, in the places where a compiler
        that maps locals to mutable variables can get it wrong: a name bound twice in one let, a local shadowed
        by a nested let, a closure over a loop local that is called in a later recur argument / after the loop"""
        r = self.r
        x, f, n, b = r.sample(LOCALS, 4)
        sc = [(a, t) for a, t in scope if a not in (x, f, n, b)]
        e1 = self.expr("int", max(0, d - 2), sc)
        e2 = self.expr("int", max(0, d - 2), sc + [(x, "int")])
        k = r.randint(1, 3)
        w = r.randrange(6)
        if w == 0:      # (let [x e1 f (fn [] x) x e2] [(f) x])
            return let([(x, e1), (f, fn([], l(x))), (x, e2)], vec(call(l(f)), l(x)))
        if w == 1:      # shadowing by a nested let
            return let([(x, e1), (f, fn([], l(x)))], let([(x, e2)], vec(call(l(f)), l(x))))
        if w == 2:      # closure over a loop local called in a later recur argument
            return loop([(x, c(I(0))), (b, c(NIL)), (n, c(I(0)))],
                        let([(f, fn([], l(x)))],
                            if_(prim("lt", l(n), c(I(k))),
                                recur(prim("inc", l(x)), call(l(f)), prim("inc", l(n))),
                                vec(l(x), l(b)))))
        if w == 3:      # the same through letfn, collecting
            return loop([(x, c(I(1))), (b, vec()), (n, c(I(0)))],
                        letfn([(f, [], [l(x)])],
                              if_(prim("lt", l(n), c(I(k))),
                                  recur(prim("add", l(x), l(x)), prim("conj", l(b), call(l(f))), prim("inc", l(n))),
                                  l(b))))
        if w == 4:      # swap: both new values come from the old bindings
            return loop([(x, e1), (b, c(I(7))), (n, c(I(0)))],
                        if_(prim("lt", l(n), c(I(k))), recur(l(b), l(x), prim("inc", l(n))), vec(l(x), l(b))))
        # fn parameter rebound by recur while an earlier closure is still around
        return call(fn([x, b, n], let([(f, fn([], l(x)))],
                                      if_(prim("lt", l(n), c(I(k))),
                                          recur(prim("inc", l(x)), prim("conj", l(b), l(f)), prim("inc", l(n))),
                                          callall(l(b))))),
                    c(I(0)), vec(), c(I(0)))

    def target_(self, d, scope):
        """an expression that evaluates to the harness object o, plain or compound"""
        r = self.r
        w = r.randrange(6)
        if w <= 1 or d <= 0:
            return OBJ
        if w == 2:
            return m(self.marker(), OBJ)
        if w == 3:
            return do(m(self.marker()), OBJ)
        if w == 4:
            t = self.name(scope)
            return let([(t, OBJ)], l(t))
        return if_(self.expr("any", d - 1, scope), OBJ, OBJ)

    def interop_(self, d, scope):
        """host interop: property reads and method calls whose target and arguments may be compound forms"""
        r = self.r
        sub = lambda: self.expr("any", max(0, d - 1), scope)  # noqa: E731
        w = r.randrange(5)
        if w == 0:
            return if_(field(self.target_(d, scope), r.randint(0, 3)), sub(), sub())
        if w == 1:
            return prim("vector", sub(), field(self.target_(d, scope), r.randint(0, 3)), sub())
        if w == 2:
            return mcall(self.target_(d, scope), r.randint(0, 2), *[sub() for _ in range(r.randint(0, 3))])
        if w == 3:
            return prim("vector", m(self.marker()), mcall(self.target_(d, scope), r.randint(0, 2), sub(), sub()))
        return let([("x", field(self.target_(d, scope), r.randint(0, 3)))], vec(l("x"), l("x")))

    def loop_(self, ty, d, scope):
        r = self.r
        i = self.name(scope)
        a = self.name(scope)
        if a == i:
            a = "acc"
        n = r.randint(0, 3)
        sc = [(x, t) for x, t in scope if x not in (i, a)] + [(i, "int"), (a, ty)]
        # sub-expressions are generated in textual order: a global must be def'ed before it is read
        if r.random() < 0.5:
            # swap-style recur: both new values must be computed from the OLD bindings
            init = self.expr(ty, d - 2, scope)
            step = self.expr(ty, d - 2, sc)
            return loop([(i, c(I(0))), (a, init)],
                        if_(prim("lt", l(i), c(I(n))), recur(prim("inc", l(i)), step), l(a)))
        step = self.expr(ty, d - 2, sc)
        init = self.expr(ty, d - 2, scope)
        return call(fn([i, a], if_(prim("lt", l(i), c(I(n))), recur(prim("inc", l(i)), step), l(a))), c(I(0)), init)

    def try_(self, ty, d, scope):
        r = self.r
        body = [self.expr("any", d - 1, scope) for _ in range(r.randint(0, 1))] + [self.expr(ty, d - 1, scope)]
        cs = []
        for _ in range(r.randint(0, 2)):
            en = self.name(scope)
            sc = [(x, t) for x, t in scope if x != en]
            cs.append((r.choice(CATCH), en, [self.expr(ty, d - 1, sc)]))
        fin = [self.expr("any", d - 2, scope)] if r.random() < 0.6 or not cs else []
        return try_(body, cs, fin)

    def def_(self, d, scope):
        self.gn += 1
        n = "g%d" % self.gn
        e = self.expr("any", d - 1, scope)
        self.gl.append(n)
        return do(def_(n, e), g(n))

    def arity_(self, d, scope):
        """a fn of several arities (at most one variadic, whose fixed parameter count is not below any fixed
        arity's) called with 0 .. max+2 marked arguments: which arity runs, what its parameters and its rest
        parameter see, arity errors before any body code, recur inside an arity, self calls across arities"""
        r = self.r
        fixed = sorted(r.sample([0, 1, 2, 3], r.choice([0, 1, 1, 2, 2, 3])))
        variadic = r.random() < 0.7 or not fixed
        lo = max(fixed) if fixed else 0
        nv = r.randint(lo, max(lo, 3)) if variadic else None
        if r.random() < 0.4 and variadic and fixed and nv == lo:
            nv = lo + 1                       # the variadic arity has more fixed parameters than every fixed arity
        names = r.sample(["x", "y", "a-b", "x?", "class", "print", "n*", "G", "k"], 5)   # no two munge alike
        self_name = r.choice(["", "", "self", "f-n"])
        sc = [(a, t) for a, t in scope if a not in names and a != self_name]
        ars = []
        tag = 0
        for k in fixed + ([nv] if variadic else []):
            tag += 1
            isvar = variadic and len(ars) == len(fixed)
            ps = names[:k]
            rest = names[4] if isvar else ""
            seen = [l(p) for p in ps] + ([l(rest)] if isvar else [])
            result = vec(c(K("ar%d" % tag)), *seen)
            w = r.random()
            body = [m(self.marker())] if r.random() < 0.6 else []
            if w < 0.25 and k >= 1:
                # recur inside this arity: the first parameter counts up; the rest parameter is handed on or dropped
                last = [r.choice([l(rest), c(NIL)])] if isvar else []
                body.append(if_(prim("lt", l(ps[0]), c(I(r.randint(1, 3)))),
                                recur(prim("inc", l(ps[0])), *[l(p) for p in ps[1:]], *last), result))
            elif w < 0.4 and self_name:
                # a self call into whatever arity takes one more argument, only from the outermost activation
                # (terminates: a fixed arity calls one with more parameters, the variadic one only while its rest is nil)
                body.append(if_(prim("not", l(rest)) if isvar else c(B(True)),
                                call(l(self_name), *[l(p) for p in ps], c(I(9))), result))
            elif w < 0.55:
                body.append(vec(result, self.expr("any", max(0, d - 2), sc + [(p, "any") for p in ps])))
            else:
                body.append(result)
            ars.append((ps, rest, body))
        f = mfn(ars, self=self_name)
        if len(ars) == 1 and r.random() < 0.5:
            f["bare"] = False
        top = (nv if variadic else lo) + 2
        argc = r.randint(0, top)
        args = [m(self.marker(), c(I(10 + i))) if r.random() < 0.7 else c(I(10 + i)) for i in range(argc)]
        w = r.random()
        if w < 0.6:
            return call(f, *args)
        h = r.choice([x for x in LOCALS if x not in names])
        if w < 0.8:
            return let([(h, f)], call(l(h), *args))
        # two calls of the same function value with different argument counts
        return let([(h, f)], vec(call(l(h), *args), try_([call(l(h), *args[: max(0, argc - 1)])],
                                                         [("Exception", "e", [c(K("arity"))])], [])))

    def letfn_(self, ty, d, scope):
        r = self.r
        if r.random() < 0.4:
            # a letfn whose LAST body form is what matters (an effect, a throw, a def) -- in statement position
            # its value is unused but the form must still run
            f1 = r.choice(["ev?", "h", "a-b"])
            sc = [(x, t) for x, t in scope if x != f1]
            last = r.choice([call(l(f1), c(I(r.randint(0, 2)))), m(self.marker()), throw(r.choice(EXC)),
                             self.expr(ty, max(0, d - 2), sc)])
            pre = [m(self.marker())] if r.random() < 0.4 else []
            fbody = r.choice([[m(self.marker(), l("k"))], [throw(r.choice(EXC))], [prim("inc", c(K("k")))],
                              [m(self.marker()), if_(prim("lt", l("k"), c(I(1))), throw(r.choice(EXC)), l("k"))]])
            out = letfn([(f1, ["k"], fbody)], *pre, last)
            if r.random() < 0.5:
                out["star"] = True
            return out
        # mutually recursive pair counting down
        f1, f2 = "ev?", "od?"
        sc = [(x, t) for x, t in scope if x not in (f1, f2, "k")]
        return letfn([(f1, ["k"], [if_(prim("lt", l("k"), c(I(1))), self.expr(ty, d - 2, sc + [("k", "int")]),
                                       call(l(f2), prim("dec", l("k"))))]),
                      (f2, ["k"], [if_(prim("lt", l("k"), c(I(1))), self.expr(ty, d - 2, sc + [("k", "int")]),
                                       call(l(f1), prim("dec", l("k"))))])],
                     call(l(f1), c(I(r.randint(0, 3)))))


def capture_programs(rnd, n):
    """n programs from the capture family alone (every run of the corpus contains them)"""
    out = []
    for _ in range(n):
        gobj = Gen(rnd)
        out.append(gobj.capture_(3, []))
    return out


def arity_programs(rnd, n):
    out = []
    for _ in range(n):
        gobj = Gen(rnd)
        out.append(gobj.arity_(3, []))
    return out


def letfn_programs(rnd, n):
    out = []
    for _ in range(n):
        gobj = Gen(rnd)
        out.append(gobj.letfn_("any", 3, []))
    return out


def interop_programs(rnd, n):
    out = []
    for _ in range(n):
        gobj = Gen(rnd)
        out.append(gobj.interop_(3, []))
    return out


def random_program(rnd, depth):
    gobj = Gen(rnd)
    return gobj.expr("any", depth, [])


# ---- exhaustive small skeletons ---------------------------------------------------------------------
def small_programs(max_nodes):
    """All programs with at most max_nodes constructor applications from a reduced alphabet, each sub-
    expression optionally being an effect marker.  Enumerated by increasing size."""
    atoms = [c(NIL), c(B(False)), c(I(0)), c(I(1)), c(K("k"))]

    def marks():
        k = [0]

        def nxt():
            k[0] += 1
            return k[0]
        return nxt

    memo = {}

    def E(n):
        """expressions with exactly n nodes (markers get numbered afterwards)"""
        if n in memo:
            return memo[n]
        out = []
        if n == 1:
            out = list(atoms) + [{"t": "mark"}]
        else:
            # unary: marker wrap, throw-free prims, fn-call of 0 args, not
            for x in E(n - 1):
                out.append({"t": "markw", "e": x})
                out.append(prim("not", x))
                out.append(prim("truep", x))
                out.append(call(fn([], x)))
                out.append(vec(x))
                out.append(try_([x], [("Exception", "e", [c(K("h"))])], []))
            if n == 2:
                out.append(throw("ValueError"))
            # binary
            for i in range(1, n - 1):
                for x in E(i):
                    for y in E(n - 1 - i):
                        out.append(do(x, y))
                        out.append(prim("vector", x, y))
                        out.append(let([("x", x)], y))
                        out.append(try_([x], [], [y]))
            # let-use: (let [x X] x)
            for x in E(n - 2) if n >= 3 else []:
                out.append(let([("x", x)], l("x")))
                out.append(call(fn(["a-b"], l("a-b")), x))
            # ternary
            for i in range(1, n - 2):
                for j in range(1, n - 1 - i):
                    kk = n - 1 - i - j
                    if kk < 1:
                        continue
                    for x in E(i):
                        for y in E(j):
                            for z in E(kk):
                                out.append(if_(x, y, z))
                                out.append(prim("vector", x, y, z))
        memo[n] = out
        return out

    def number(e, nxt):
        if isinstance(e, dict):
            if e.get("t") == "mark":
                return m(nxt())
            if e.get("t") == "markw":
                inner = number(e["e"], nxt)
                return m(nxt(), inner)
            return {k: number(v, nxt) for k, v in e.items()}
        if isinstance(e, list):
            return [number(x, nxt) for x in e]
        return e

    for n in range(1, max_nodes + 1):
        for e in E(n):
            yield number(e, marks())
