#!/usr/bin/env python3
"""Summarize replay files of a property: tools/replays.py C01 [n]"""
import glob, json, sys
pid = sys.argv[1]; n = int(sys.argv[2]) if len(sys.argv) > 2 else 40
for p in sorted(glob.glob(f"/verif/replays/{pid}/*.json"))[:n]:
    b = json.load(open(p))
    c = b["case"]
    txt = c.get("text") if isinstance(c, dict) else None
    print(p.split("/")[-1], b["clause"], "finding=" + str(b.get("finding")))
    if txt: print("   text:", txt[:400], " opts:", c.get("opts"))
    print("   exp:", json.dumps(b["expected"])[:300]); print("   obs:", json.dumps(b["observed"])[:300])
