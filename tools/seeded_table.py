#!/usr/bin/env python3
"""Print the table 'which check catches which seeded change' from seeded/*/meta.json and last_run.txt."""
import json, os, sys
root = os.path.join(os.path.dirname(os.path.dirname(os.path.abspath(__file__))), "seeded")
rows = []
for sid in sorted(os.listdir(root)):
    d = os.path.join(root, sid)
    if not os.path.isdir(d):
        continue
    meta = json.load(open(os.path.join(d, "meta.json")))
    lr = os.path.join(d, "last_run.txt")
    status, clause = "not run", ""
    if os.path.exists(lr):
        lines = open(lr).read().splitlines()
        status = lines[0].split()[-1] if lines else "?"
        for ln in lines:
            if ln.startswith("  clause="):
                clause = ln.strip()[7:].split(" sig=")[0] + " / " + ln.split(" sig=")[1][:70]
                break
    summ = (meta.get("summary") or "").replace("\n", " ").replace("|", "/")
    rows.append((sid, meta["property"], status, summ[:150], clause.replace("|", "/")))
print("| Seeded change | Property | Quick check | What was changed | First clause / signature reported |")
print("|---|---|---|---|---|")
for r in rows:
    print("| %s | %s | %s | %s | %s |" % r)
det = sum(1 for r in rows if r[2] == "DETECTED")
print("\n%d seeded changes, %d detected by the quick tier of the property's check." % (len(rows), det))
