#!/usr/bin/env python3
"""Confirm candidate breaking changes written by independent sub-agents and file them under /verif/seeded/.

For each candidate directory (patch.diff, demo.py, notes.json):
  1. scratch worktree of /repo's HEAD (+ the built native extension),
  2. demo on the clean tree must exit 0,
  3. patch must apply; demo on the changed tree must exit non-zero,
  4. the repository's own suite must still pass on the changed tree (every test of the stable baseline),
  5. on success: copy to /verif/seeded/<id>/ with meta.json recording what was run.
usage: tools/confirm_seeded.py <candidate dir> [...]        (runs up to JOBS candidates in parallel)
"""
import concurrent.futures as cf
import json
import os
import shutil
import subprocess
import sys
import tempfile

VERIF = os.path.dirname(os.path.dirname(os.path.abspath(__file__)))
JOBS = int(os.environ.get("JOBS", "5"))


def sh(cmd, **kw):
    return subprocess.run(cmd, stdout=subprocess.PIPE, stderr=subprocess.STDOUT, text=True, **kw)


def confirm(cand):
    sid = os.path.basename(cand.rstrip("/"))
    notes = json.load(open(os.path.join(cand, "notes.json")))
    wt = tempfile.mkdtemp(prefix="wt_conf_", dir="/tmp")
    res = {"id": sid, "property": notes.get("property", sid.split("_")[0])}
    try:
        sh(["git", "-C", "/repo", "worktree", "add", "--detach", "-f", wt, "HEAD"])
        shutil.copy("/repo/src/basilisp/_lang.abi3.so", os.path.join(wt, "src/basilisp/_lang.abi3.so"))
        env = dict(os.environ, TREE=wt, PYTHONPATH=os.path.join(wt, "src"))
        env.pop("PYTHONDONTWRITEBYTECODE", None)
        demo = os.path.join(cand, "demo.py")
        r = sh(["/venv/bin/python", demo], env=env, cwd=wt, timeout=1800)
        res["demo_clean_rc"] = r.returncode
        res["demo_clean_tail"] = r.stdout[-300:]
        a = sh(["git", "-C", wt, "apply", "--3way", os.path.join(cand, "patch.diff")])
        if a.returncode != 0:
            a = sh(["git", "-C", wt, "apply", os.path.join(cand, "patch.diff")])
        res["patch_applies"] = a.returncode == 0
        if not res["patch_applies"]:
            res["why"] = a.stdout[-300:]
            return res
        r = sh(["/venv/bin/python", demo], env=env, cwd=wt, timeout=1800)
        res["demo_mutated_rc"] = r.returncode
        res["demo_mutated_tail"] = r.stdout[-300:]
        b = sh([os.path.join(VERIF, "tools", "baseline.py"), "--dir", wt], timeout=7200)
        res["suite_ok"] = b.returncode == 0
        res["suite_tail"] = b.stdout[-400:]
        ok = res["demo_clean_rc"] == 0 and res["demo_mutated_rc"] != 0 and res["suite_ok"]
        res["confirmed"] = ok
        if ok:
            dst = os.path.join(VERIF, "seeded", sid)
            os.makedirs(dst, exist_ok=True)
            for f in ("patch.diff", "demo.py"):
                shutil.copy(os.path.join(cand, f), os.path.join(dst, f))
            head = sh(["git", "-C", "/repo", "rev-parse", "--short", "HEAD"]).stdout.strip()
            meta = {"id": sid, "property": res["property"], "summary": notes.get("summary"),
                    "needs": notes.get("needs"), "author": "independent sub-agent (saw only the property text)",
                    "confirmed_on": head,
                    "ran": {"demo_on_clean_tree": "exit 0", "demo_on_changed_tree": "exit %d" % res["demo_mutated_rc"],
                            "repository_suite_on_changed_tree": res["suite_tail"].strip().splitlines()[-1]
                            if res["suite_tail"].strip() else ""},
                    "authors_tests": notes.get("tests_run")}
            json.dump(meta, open(os.path.join(dst, "meta.json"), "w"), indent=1)
        return res
    except Exception as e:  # noqa
        res["error"] = repr(e)
        return res
    finally:
        sh(["git", "-C", "/repo", "worktree", "remove", "--force", wt])
        shutil.rmtree(wt, ignore_errors=True)


if __name__ == "__main__":
    cands = sys.argv[1:]
    with cf.ThreadPoolExecutor(JOBS) as ex:
        for res in ex.map(confirm, cands):
            print(json.dumps({k: v for k, v in res.items() if not k.endswith("_tail")}), flush=True)
            if not res.get("confirmed"):
                print("   ", {k: v for k, v in res.items() if k.endswith("_tail") or k in ("why", "error")}, flush=True)
    sh(["git", "-C", "/repo", "worktree", "prune"])
