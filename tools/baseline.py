#!/venv/bin/python
"""Run the repository's own test suite (guard OFF) and compare with /root/.vp/BASELINE.json:
every test of the stable baseline must still pass.  Exit 0 iff so."""
import json
import os
import shutil
import subprocess
import sys
import tempfile
import xml.etree.ElementTree as ET

base = json.load(open("/root/.vp/BASELINE.json"))
stable = set(base["stable_pass"])
out = tempfile.mkdtemp(prefix="baseline_")
junit = os.path.join(out, "junit.xml")
env = dict(os.environ)
env.pop("BASILISP_VERIF", None)
cwd = "/repo"
args = sys.argv[1:]
wt = None
if args and args[0] == "--worktree":
    # run on a scratch worktree of /repo's HEAD (so /repo can be edited meanwhile); removed afterwards
    args = args[1:]
    wt = tempfile.mkdtemp(prefix="bl_", dir="/tmp")
    subprocess.run(["git", "-C", "/repo", "worktree", "add", "--detach", "-f", wt, "HEAD"], check=True,
                   stdout=subprocess.DEVNULL, stderr=subprocess.DEVNULL)
    so = os.environ.get("BASELINE_SO", "/repo/src/basilisp/_lang.abi3.so")
    shutil.copy(so, os.path.join(wt, "src/basilisp/_lang.abi3.so"))
    env["PYTHONPATH"] = os.path.join(wt, "src")
    env.pop("PYTHONDONTWRITEBYTECODE", None)
    cwd = wt
if args and args[0] == "--dir":
    # run in an existing checkout (e.g. a worktree holding candidate fix commits); it needs src/basilisp/_lang.abi3.so
    cwd = args[1]
    args = args[2:]
    env["PYTHONPATH"] = os.path.join(cwd, "src")
    env.pop("PYTHONDONTWRITEBYTECODE", None)
p = subprocess.run(["/venv/bin/python", "-m", "pytest", "-ra", "-q", "-p", "no:cacheprovider", "--timeout=900",
                    "--continue-on-collection-errors", "--junitxml=" + junit] + args, cwd=cwd, env=env,
                   stdout=subprocess.PIPE, stderr=subprocess.STDOUT, text=True)
print(p.stdout[-1500:])
passed = set()
for tc in ET.parse(junit).getroot().iter("testcase"):
    if not any(c.tag in ("failure", "error", "skipped") for c in tc):
        passed.add(tc.get("classname") + "::" + tc.get("name"))
missing = sorted(stable - passed)
print(f"stable baseline: {len(stable)}; passed now: {len(passed)}; baseline tests not passing: {len(missing)}")
for m in missing[:40]:
    print("  NOT PASSING:", m)
shutil.rmtree(out, ignore_errors=True)
if wt:
    subprocess.run(["git", "-C", "/repo", "worktree", "remove", "--force", wt], check=False)
    shutil.rmtree(wt, ignore_errors=True)
    subprocess.run(["git", "-C", "/repo", "worktree", "prune"], check=False)
sys.exit(1 if missing else 0)
