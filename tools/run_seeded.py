#!/usr/bin/env python3
"""Run the registered checks against the seeded breaking changes in /verif/seeded/<id>/.

For each seeded change (patch.diff + meta.json {"property": "Cxx", ...}) a scratch worktree of /repo's HEAD is
created under /tmp, the patch is applied there, `VERIF_REPO=<worktree> ./check <Cxx> --tier <tier>` is run
(the harness imports basilisp from that tree and rebuilds the native extension from it), and the worktree is
removed.  Expected: exit 1 with a VIOLATION line.  Evidence files are restored afterwards (a mutant run must not
leave its evidence behind).

usage: tools/run_seeded.py [--tier quick|thorough] [--in-repo] [id ...]
  --in-repo   apply to /repo itself instead (git -C /repo apply; git -C /repo checkout -- . afterwards)
"""
import json
import os
import shutil
import subprocess
import sys
import tempfile
import time

VERIF = os.path.dirname(os.path.dirname(os.path.abspath(__file__)))


def sh(cmd, **kw):
    return subprocess.run(cmd, stdout=subprocess.PIPE, stderr=subprocess.STDOUT, text=True, **kw)


def main():
    args = sys.argv[1:]
    tier = "quick"
    in_repo = False
    ids = []
    while args:
        a = args.pop(0)
        if a == "--tier":
            tier = args.pop(0)
        elif a == "--in-repo":
            in_repo = True
        else:
            ids.append(a)
    root = os.path.join(VERIF, "seeded")
    ids = ids or sorted(d for d in os.listdir(root) if os.path.isdir(os.path.join(root, d)))
    results = []
    for sid in ids:
        d = os.path.join(root, sid)
        meta = json.load(open(os.path.join(d, "meta.json")))
        props = meta.get("checks") or [meta["property"]]
        patch = os.path.join(d, "patch.diff")
        saved = {}
        for p in props:
            ev = os.path.join(VERIF, "evidence", p + ".json")
            if os.path.exists(ev):
                saved[ev] = open(ev).read()
        wt = None
        env = dict(os.environ)
        try:
            if in_repo:
                r = sh(["git", "-C", "/repo", "apply", patch])
                target = "/repo"
            else:
                wt = tempfile.mkdtemp(prefix="wt_seed_", dir="/tmp")
                sh(["git", "-C", "/repo", "worktree", "add", "--detach", "-f", wt, "HEAD"])
                r = sh(["git", "-C", wt, "apply", patch])
                env["VERIF_REPO"] = wt
                target = wt
            if r.returncode != 0:
                results.append((sid, props, "PATCH-DOES-NOT-APPLY", r.stdout[-300:]))
                continue
            for p in props:
                t0 = time.time()
                try:
                    c = sh([os.path.join(VERIF, "check"), p, "--tier", tier], env=env, cwd=VERIF, timeout=3600)
                except subprocess.TimeoutExpired as ex:
                    subprocess.run(["pkill", "-9", "-f", "check %s --tier" % p], check=False)
                    c = subprocess.CompletedProcess([], 3, stdout="TIMEOUT after 3600s\n" + (ex.stdout or ""))
                viol = [ln for ln in c.stdout.splitlines() if ln.startswith("VIOLATION")]
                status = "DETECTED" if c.returncode == 1 and viol else ("MISSED" if c.returncode == 0 else "EXIT-%d" % c.returncode)
                tail = [ln for ln in c.stdout.splitlines() if ln.startswith("  clause")][:2]
                results.append((sid, p, status, "%.0fs %s" % (time.time() - t0, " | ".join(t[:160] for t in tail))))
                print("%s %s %s %s" % results[-1], flush=True)
                open(os.path.join(d, "last_run.txt"), "w").write("%s %s %s\n%s\n" % (
                    p, tier, status, "\n".join(ln for ln in c.stdout.splitlines()
                                               if ln.startswith(("VIOLATION", "  clause", "[", "KNOWN", "MACHINERY")))[:3000]))
        finally:
            if in_repo:
                sh(["git", "-C", "/repo", "checkout", "--", "."])
            elif wt:
                sh(["git", "-C", "/repo", "worktree", "remove", "--force", wt])
                shutil.rmtree(wt, ignore_errors=True)
                sh(["git", "-C", "/repo", "worktree", "prune"])
            for ev, txt in saved.items():
                open(ev, "w").write(txt)
    w = max(len(r[0]) for r in results) if results else 10
    for sid, p, status, note in results:
        print("%-*s %-5s %-10s %s" % (w, sid, p if isinstance(p, str) else ",".join(p), status, note))
    return 0 if all(r[2] == "DETECTED" for r in results) else 1


if __name__ == "__main__":
    sys.exit(main())
