#!/usr/bin/env python3
"""Regenerate /verif/MANIFEST.json from the table below (keeps the file valid by construction).
Validate with:  python3-vt tools/mkmanifest.py --validate"""
import json
import os
import sys

HERE = os.path.dirname(os.path.dirname(os.path.abspath(__file__)))

# property id -> (spec modules, technique, level text, level note, DESIGN section)
LANG_NOTE = ("Trusted: TLC; the printer from abstract syntax to Lisp text and the projection of results (ints, nil, booleans, "
             "keywords, vectors; functions are opaque and are observed by calling them inside the program); the typed "
             "program generator only decides WHICH programs are tried. Known architectural deviations are classified by the "
             "as-built model (Gen.tla + PyIR.tla) inside TLC: a record counts as a known finding only when the as-built model "
             "with exactly the named deviations reproduces the observed value, exception class and effect log.")
CHECKS = {
    "C01": ("Lang, Lang_Trace, Gen, PyIR, LangValues",
            "TLA+ small-step semantics Lang.tla (CEK machine) checked and run by TLC on every recorded execution of the real "
            "compiler (trace validation of value / exception class); as-built compilation model Gen.tla+PyIR.tla classifies "
            "deviations",
            "Programs of the special-form fragment (all skeletons up to a size bound over a reduced alphabet plus seeded random "
            "typed programs with closures, loop/recur, letfn, try/catch/finally, throw, def) are wrapped in 6-10 syntactic "
            "contexts, printed to Lisp, read, compiled and run by the real basilisp under 2-8 code-generation option sets; TLC "
            "runs the specification's abstract machine on the same abstract syntax, evaluates its invariants (effect log and "
            "store are append-only: closures keep their bindings) on every machine state, and accepts the record iff value or "
            "exception class agree.",
            LANG_NOTE, "5/C01"),
    "C02": ("Lang, Lang_Trace, Gen, PyIR, LangValues",
            "same machinery as C01; the clause decided is the order and multiplicity of effects: the marker sequence recorded "
            "from the real execution must equal the log of the Lang.tla machine",
            "Every sub-expression of the generated programs may carry an effect marker (a real function interned in the scratch "
            "namespace); the recorded marker sequence of each real execution must equal the effect log that the TLA+ machine "
            "produces for the same program: function position then arguments left to right, collection elements left to right, "
            "let/loop initialisers in order, finally after body and handler, nothing on untaken branches, each marker once.",
            LANG_NOTE, "5/C02"),
    "C15": ("Opt, Opt_MC, Opt_Trace",
            "TLA+ relation Opt.tla (the allowed rewrites) model-checked for meaning preservation on a small Python-like "
            "language (Opt_MC); every (before, after) AST pair of the real optimizer validated by TLC (Opt_Trace); programs "
            "executed with the pass on and off",
            "TLC checks on a small language with effects, identity/equality and early exits that every pair related by the "
            "allowed rewrites has the same result, exception and effect order, and rejects the relation extended by the named "
            "deviations. The real PythonASTOptimizer is wrapped while the bundled namespaces are compiled from source: every "
            "changed module body is encoded structurally and TLC decides whether it is obtained by the allowed rewrites only "
            "(otherwise which named deviation explains it). The C01 corpus, every rewritten operator over operand shapes (constant, "
            "name, call, operator expression / subscript / attribute holding a call), forms in statement position and nested-def "
            "/ dead-code block programs are executed with the pass on and off and must agree; their AST pairs go to TLC too.",
            "Trusted: TLC; the structural encoding of Python ASTs (pyast_enc.py: statements structured, expressions abstracted "
            "to a hash where no operator call or native operator occurs below, `prior` = names declared global earlier in the "
            "same function). Purity of an `if` test is judged by the specification from the encoded structure.",
            "5/C15"),
    "C17": ("Order",
            "TLA+ spec Order.tla (order laws on all triples + stable-sort machine) checked by TLC; "
            "TLC-generated tables and sort behaviours replayed into real compare/=/sort/sort-by",
            "TLC proves antisymmetry, transitivity and zero-iff-equal of the specified order on every triple of "
            "six 13-element families and the invariants of a stable insertion-sort machine on every input up to "
            "the bound; every table entry and every sorted input is then executed on the real code (several "
            "concretisations, comparator styles and collection types) and must agree exactly.",
            "Trusted: TLC; the concretisation of abstract elements (ranks -> characters, n/d -> int/float/"
            "Fraction/Decimal). NaN, Decimal-vs-Fraction pairs and vectors with elements from different families are "
            "outside the property's 'mutually comparable' families and are not compared.",
            "5/C17"),
    "C12": ("Atom, AtomImpl, Atom_Trace",
            "TLA+ specs Atom.tla (linearizable cell) and AtomImpl.tla (mechanism as built) model-checked by TLC "
            "(simulation + termination); real executions under a deterministic thread scheduler validated by "
            "TLC trace validation (Atom_Trace)",
            "TLC checks that the as-built mechanism (read, compute, validate, lock, compare, set, notify as separate "
            "steps) simulates the linearizable specification for 2-3 threads and terminates under weak fairness, and "
            "that the same model without the lock or with comparison by equality only is rejected.  The real "
            "basilisp.core atom operations are then run on real threads under a deterministic scheduler through "
            "every schedule with at most 2 (thorough: 3) pre-emptions at line granularity; every distinct recorded "
            "history (call/return/watch events) must be accepted by TLC as a behaviour of Atom.tla; deadlock and "
            "non-termination are detected by the scheduler.",
            "Trusted: TLC; the deterministic scheduler (pre-emption only at Python line boundaries of atom.py/"
            "reference.py, at lock operations and inside harness update functions); the abstraction of values "
            "(ints, nil, one class of not-self-equal values realised as NaN, [NaN] and an object with a pathological "
            "__eq__). Pre-emption bound 2/3; scenarios whose schedule count exceeds the per-scenario budget are "
            "sampled (reported in the evidence).",
            "5/C12"),
}

CHECKS["C20"] = (
    "Arith, Arith_Trace, Limbs",
    "TLA+ spec Arith.tla (exact rational arithmetic, contagion table, quot/rem/mod; identities as invariants on all "
    "operand pairs) checked by TLC, its result table replayed into the real functions through five call paths; results "
    "for random operands up to 10^40 validated by TLC with limb arithmetic (Arith_Trace + Limbs.tla)",
    "TLC checks on every ordered pair of a 42-element universe (ints, ratios, exactly representable decimals and floats, "
    "zeros and signs) that x = y*quot + rem, the sign and size rules of rem and mod, that an exact result is an int iff it "
    "is integral and that result types depend only on operand types; every expected [type, value] is then compared with "
    "the real + - * / quot rem mod called directly, through apply, with inlining disabled, with var indirection and from "
    "literal source text. Random big integers and ratios go the other way: observed results are checked inside TLC with "
    "arbitrary-precision limb arithmetic.",
    "Trusted: TLC; Limbs.tla (its results are cross-checked by the identities themselves: a wrong limb product would "
    "reject correct results, i.e. raise a machinery-visible alarm, not hide a defect); concretisation of n/d to "
    "int/Fraction/Decimal/float. With a float or decimal operand only the result type is demanded exactly (the property "
    "claims exactness for integers and ratios); the value is compared with tolerance 1e-9. Zero divisors are excluded.",
    "5/C20")

CHECKS["C16"] = (
    "Reader, Reader_MC, Reader_Trace",
    "TLA+ pushdown automaton Reader.tla over character classes (verdict ok/eof/syntax, forms, spans, line/column under "
    "LF/CRLF/CR) checked by TLC; TLC-enumerated strings with their allowed outcomes replayed into the real reader, and "
    "prefixes/edits of real programs validated by Reader_Trace",
    "TLC runs two automata in lock step over both representatives of every character class and over the three line-ending "
    "conventions (verdicts, forms and spans must agree; every predicted span re-read alone gives the same form) and emits "
    "every string up to length 4 (thorough: 5-6) over the delimiter/dispatch alphabet with the set of outcomes the property "
    "allows; each is read by the real read_str (termination, exception class, line/col, only Lisp data, skeleton, spans, "
    "re-reading the cut-out span). Prefixes and single-character edits of generated programs and of the bundled .lpy "
    "sources go the other way through Reader_Trace.",
    "Trusted: TLC; the class->character concretisation. Strict EOF classification only for the constructs the property "
    "lists (unterminated collections/strings, end of input after quote, deref, unquote, metadata, tag); for syntax-quote, "
    "#', #_, #?, lone # and lone backslash the specification allows eof, syntax error or nothing.",
    "5/C16")
CHECKS["C03"] = (
    "PrintRead",
    "TLA+ spec PrintRead.tla (printing scheme incl. the string-escape transducer and the reader's escape automaton) checked "
    "by TLC for Read(Print(v)) = <<v>> and idempotence; TLC-emitted (value, print configuration) pairs replayed through the "
    "real pr-str / read-string / read_str",
    "TLC checks the design of the escape scheme and literal grammar on the value universe (strings over 19 escape-relevant "
    "character classes, numbers, names, collections, tagged literals, Python collections, metadata) under the print-control "
    "Vars, and rejects two wrong schemes (\\x escapes; greedy \\u reader without compensation). Every emitted case is "
    "concretised, printed by the real pr-str, read back by read-string and read_str and compared: exactly one form, equal by "
    "= and structurally (type tags, order, float bit pattern, NaN), metadata under *print-meta*, idempotence, determinism. "
    "Random boundary doubles and random Unicode strings are checked with a bit/value-equality oracle.",
    "Trusted: TLC; concretisation tables (two representatives per class, named doubles). The decimal digits of floats are "
    "outside what TLA+ can represent: floats are opaque atoms in the spec and the oracle is bit equality of the real objects.",
    "5/C03")
CHECKS["C19"] = (
    "Bencode, Bencode_Trace, PrintRead (codec views)",
    "TLA+ spec Bencode.tla (sender, network delivering arbitrary chunks, receiver buffer, DecodeAll) model-checked by TLC, "
    "every (buffer, chunk) edge replayed into the real encode/decode/decode-all and the nREPL accumulate-and-decode loop; "
    "random streams cut at every byte validated by Bencode_Trace; EDN/JSON round trips from the PrintRead universe",
    "TLC proves on all streams of up to 3 messages that the decoded messages are always a prefix of the sent ones, the buffer "
    "is exactly the undecoded suffix, and decode(encode(m)) = m, and rejects three wrong decoder models; every edge of the "
    "state graph (every cut sequence is a path over these edges) is replayed through the real bencode functions. Real "
    "streams cut at every byte position are validated by the trace specification. EDN and JSON: every value of the codec's "
    "domain from the PrintRead universe is written and read back through edn/read-string, the Lisp reader and json/read-str "
    "and compared with the specification (JSON up to the documented key/collection coercions, JsonNorm).",
    "Trusted: TLC; byte-class concretisation. Values the EDN writer rejects (decimals, ratios) and JSON keys outside the "
    "documented coercion (non keyword/symbol/string) are outside the codecs' domains.",
    "5/C19")
CHECKS["C06"] = (
    "LazySeq, LazySeqImpl, LazySeq_Trace, LazySeqImpl_Trace, LazySeqDemand",
    "TLA+ specs LazySeq.tla (required) and LazySeqImpl.tla (seq.rs mechanism: GIL, re-entrant mutex, four-state cell) "
    "model-checked by TLC in lock step (simulation, deadlock freedom, termination); TLC-generated scenarios replayed with "
    "real threads in child interpreters and the recorded traces validated by TLC; demand histories replayed on instrumented sources",
    "TLC checks for 2-3 threads x 2-3 cells that the mechanism (with try-lock + GIL release and generator restored on error) "
    "simulates the required behaviour: producer at most once, same elements for all consumers, nothing beyond demand, a "
    "throwing producer never leaves a done cell, no deadlock, termination under weak fairness; the two deviation models of "
    "the pinned code (lock under GIL; error leaves Computing) are rejected. TLC-generated scenarios (who calls what, when the "
    "producer parks / throws / re-enters) run with real threads on the real lazy-seq in watchdog-supervised child "
    "interpreters; the recorded call/return/producer events are validated by LazySeq_Trace. All single-consumer demand "
    "histories up to length 4 (thorough: 6) over 12 constructs are replayed on instrumented sources and the exact number of "
    "realized source elements is compared with the specification's Need table.",
    "Trusted: TLC; the child driver's event log (sequence numbers under one lock); the watchdog (a child counts as frozen "
    "only after 20 s without CPU use and without runnable threads). Steering towards TLC's interleaving uses timing, verdicts "
    "never do. The Rust memory model is not modelled: only the lock/GIL protocol.",
    "5/C06")

CHECKS["C13"] = (
    "Deferred, DeferredImpl, Deferred_Trace",
    "TLA+ specs Deferred.tla (delay / promise / future as call-Lin-return machines) and DeferredImpl.tla (mechanisms as "
    "built) model-checked by TLC (simulation, termination, negative configs); real executions under the deterministic "
    "scheduler validated by Deferred_Trace",
    "TLC checks that the mechanisms (guarded delay over an atom, promise as condition + flag, future wrapper) simulate the "
    "required machines for 2-3 threads: a delay body never runs again after a run returned and never concurrently, first "
    "deliver wins, a timed deref times out only while undelivered (expiry is a nondeterministic step), a future yields its "
    "body's outcome, realized? is monotone; four wrong mechanisms are rejected. 2-4 real threads racing on one real delay / "
    "promise / future (cooperative Condition and executor, virtual time) run through every schedule with at most 2 (3) "
    "pre-emptions; every distinct recorded history must be accepted by the trace specification.",
    "Trusted: TLC; the deterministic scheduler and its cooperative stand-ins for threading.Condition and the thread-pool "
    "executor (a future's body is a scheduled logical thread); pre-emption bound 2/3 with seeded sampling above the "
    "per-scenario budget.",
    "5/C13")
CHECKS["C11"] = (
    "Bindings, BindingsImpl, Bindings_Gen, Bindings_Trace",
    "TLA+ specs Bindings.tla (required) and BindingsImpl.tla (as built: per-Var stacks + per-thread frames, one Var pushed "
    "at a time in the map's iteration order, each push may fail) model-checked in lock step; TLC-generated histories "
    "replayed on real dynamic Vars and threads; recorded runs validated by Bindings_Trace",
    "TLC checks for 3 dynamic Vars, nesting depth 4, 1-3 threads and a failure injected at every step of establishing a "
    "multi-Var binding: on leaving a binding form by any path every Var has the value it had before, bindings are "
    "thread-local, conveyed children (future, bound-fn*, pmap) start with the parent's visible values, set! changes only the "
    "innermost binding; the model without rollback is rejected. Every history to depth 4 (plus simulated depth-10 ones) is "
    "executed with the real binding / with-bindings* / push- and pop-thread-bindings / set! / future / bound-fn* / pmap, and "
    "after every step every Var is read in every live thread and compared with the specification state.",
    "Trusted: TLC; the queue-stepped worker threads of the replayer; the real map's iteration order is read before a push so "
    "that 'fails at the k-th Var' means the same in model and code.",
    "5/C11")
CHECKS["C18"] = (
    "MultiFn, MultiFnImpl, MultiFn_Gen, MultiFn_Diag",
    "TLA+ specs MultiFn.tla (required resolution) and MultiFnImpl.tla (method table, preferences, dispatch cache with "
    "hierarchy snapshot, search over an arbitrary iteration order) model-checked by TLC; TLC-generated histories replayed "
    "on a real defmulti with every dispatch value called after every step",
    "TLC explores the full reachable state space of small universes (diamond of keywords, class inheritance, vectors): the "
    "cache is invisible (every call answers what a from-scratch resolution answers, for every iteration order), "
    "isa?/parents/ancestors/descendants stay mutually consistent under derive/underive; five wrong mechanisms are rejected. "
    "About 16 000 histories (exhaustive to length 4, simulated to 40) run on a real multimethod through defmethod, "
    "remove-method, remove-all-methods, prefer-method, derive, underive; after every step every dispatch value is called "
    "twice and the hierarchy functions are compared; keyword-name permutations (thorough: other hash seeds in child "
    "interpreters) realise different iteration orders.",
    "Trusted: TLC; the assignment of concrete keyword names/classes to abstract tags. Ambiguous-vs-no-method errors are not "
    "told apart by class; a cached answer surviving prefer-method without reset is not distinguishable under this spec.",
    "5/C18")
CHECKS["C04"] = (
    "Collections, Collections_MC",
    "TLA+ spec Collections.tla (heap of immutable versions of vector / map / set / list / queue + transients, every "
    "operation's result incl. errors and metadata) checked by TLC; the state graph is replayed prefix-shared into the real "
    "collections with every earlier value re-checked after every step",
    "TLC checks algebraic laws on every value any history produces and the action properties AppendOnly (no operation "
    "changes an earlier version) and TransientDiscipline. Each node of the history tree (depth 3-4 per type, keys with "
    "colliding hashes) is one real operation applied to the real object of its parent node; after each step the new object "
    "and EVERY object produced so far are compared with their model entries (count, seq, get/nth/contains? of every key, "
    "peek, meta, hash, = against all earlier versions). Simulated histories of length 60 reach 33+ elements (tail overflow, "
    "interior nodes).",
    "Trusted: TLC; the key universe concretisation. Where the property is silent (metadata after pop/merge/persistent!, "
    "negative vector indices) the model is nondeterministic.",
    "5/C04")
CHECKS["C05"] = (
    "EqHash, EqHashImpl",
    "TLA+ spec EqHash.tla (canonical form, Eq, lookup machine keyed by equivalence classes) checked by TLC on all triples; "
    "as-built model EqHashImpl.tla with named deviations; all ordered pairs and lookup histories replayed on real values",
    "TLC checks that Eq is reflexive (except NaN), symmetric and transitive on all triples of a 59-value universe of equal "
    "values in different representations, that equal values hash alike and are interchangeable keys, that sequential "
    "collections are equal by elements and booleans never equal numbers at any depth; three wrong models are rejected. "
    "Every ordered pair is compared with the real = and hash on fresh objects, and lookup histories (assoc/get/contains?/"
    "dissoc/conj/disj with keys of one representation probed with another) are replayed on real maps and sets.",
    "Trusted: TLC; construction of each representation (vector, list, cons, lazy seq, queue, map entry, range seq, record). "
    "Numbers are equal by value across int/float/ratio/decimal; NaN appears only at top level.",
    "5/C05")

CHECKS["C07"] = (
    "Xform",
    "TLA+ spec Xform.tla (every listed function as a declarative reference AND as a transducer step/flush machine; process "
    "Pull / StepThrough / Complete) model-checked by TLC; TLC-emitted cases (pipeline, input, expected output, minimal pulls) "
    "replayed through the application forms of the real code with a counting input and probe transducers",
    "TLC checks for all pipelines and inputs within the bounds that the machine output equals the composition of the "
    "references, completion happens exactly once after the last pull, nothing is pulled after reduced and no stage pulls more "
    "than it must; three wrong machines are rejected. Each emitted case (depth 1: all inputs up to length 4/5; depth 2: up to "
    "2/3; depth 3, long and infinite inputs sampled) is executed on the real code as lazy-seq arities, into, sequence, "
    "transduce, eduction and comp, over an instrumented input that counts pulls and with probe transducers that record "
    "init/step/complete calls.",
    "Trusted: TLC; the parameter vocabulary concretisation (predicates/mappers as real functions). Pull slack of one source "
    "element is allowed (the property demands that consumption stops, not that it is minimal). transduce/into on an EMPTY "
    "input may skip completion (documented behaviour; unobservable for the listed transducers).",
    "5/C07")
CHECKS["C08"] = (
    "Calls",
    "TLA+ spec Calls.tla (arity selection, binding of fixed and rest parameters, lazy tail pulling, arity error before body, "
    "recur) model-checked by TLC; its exhaustive case table replayed on real fns through every call shape",
    "TLC checks for every arity signature (fixed arities within 0..4, optional variadic) x call shape x argument count 0..8 "
    "that exactly one outcome exists, an arity error precedes any body code, the rest parameter is nil when empty, apply "
    "realizes at most what binding the fixed parameters and testing for more requires, and recur keeps depth constant; five "
    "wrong machines are rejected. All 18 786 cases run on real defn/fn objects called locally, through the Var, through "
    "apply with an instrumented lazy (or infinite) tail and through partial, under direct linking and var indirection; "
    "frame depth is sampled at iterations 1, 10, 10^3, 10^5 (10^6) of loop and fn recur.",
    "Trusted: TLC; generated function bodies return their bindings as a vector and log entry through a harness function. "
    "Arity errors are compared as 'error with no body entry' (TypeError or RuntimeException family), not by class name.",
    "5/C08")
CHECKS["C09"] = (
    "Destructure, SyntaxQuote",
    "TLA+ specs Destructure.tla (Bind defined only through Nth / NthNext / Get) and SyntaxQuote.tla (Expand and its "
    "evaluation over namespace states) checked by TLC; emitted pattern x value rows and templates replayed through the real "
    "let / fn / loop and the real reader; macroexpansion checked differentially",
    "TLC checks that Bind is total, :or applies exactly when Get reports absence, :as is the value itself, and for templates "
    "that evaluating Expand(t) equals the direct reading, gensyms are one symbol per template and fresh across templates, "
    "every non-special unqualified symbol is qualified (a Var referred under another name resolves to its own name), a "
    "template nested in an unquote has gensyms of its own; negative models are rejected. The nth/nthnext/get primitive table is "
    "re-validated against the real functions on every run. Every row runs through let, fn, loop (+recur), keyword-argument and "
    "rest-argument fns with several seq flavours; templates are read in really established namespace states and compared up "
    "to a gensym bijection, then evaluated; ~1000 forms over 40 macro contexts are evaluated directly, after macroexpand and "
    "after repeated macroexpand-1.",
    "Trusted: TLC; concretisation of patterns/values/templates to text. A seq given to a map pattern is read as keyword "
    "arguments (repo tests and Clojure agree); behaviour outside the documented pattern vocabulary is left unspecified.",
    "5/C09")
CHECKS["C10"] = (
    "Names, NamesImpl, Names_Gen, Names_Follow",
    "TLA+ specs Names.tla (required resolution of spellings to Vars and of reads to values) and NamesImpl.tla (module globals "
    "keyed by munged names + direct-link rule) model-checked by TLC over the full reachable state space per collision class; "
    "TLC-generated histories replayed as real forms under both linking modes",
    "TLC checks that the as-built model refines the required one when the deviations are off, that different names denote "
    "different Vars, all spellings of a name agree, locals shadow, private Vars are unreachable from elsewhere, and that "
    "def-only programs behave alike under direct linking and var indirection; with a deviation on TLC prints the minimal "
    "witness. Histories of def / redef / ns switch / alias / refer / alter-var-root (exhaustive to length 3-4 per collision "
    "class, simulated to 12 over the whole pool) are replayed in fresh namespace pairs; afterwards every spelling (bare, "
    "alias-qualified, fully qualified, shadowed by a local, var, binding, def-ed again while thread-bound) is compiled and evaluated and compared; a mismatch "
    "is classified by the smallest deviation set whose as-built outcome equals the observation.",
    "Trusted: TLC; the munge table supplied to the model is checked against the real munge at start-up. Where the property is "
    "silent (alias/name for a merely referred name, (var private), binding of a non-dynamic Var) nothing is compared.",
    "5/C10")
CHECKS["C14"] = (
    "Cache, CacheImpl, CacheImpl_MC",
    "TLA+ specs Cache.tla (loader: stat, read, decide, exec cached / recompile, non-atomic write with crash at any point, "
    "concurrent source edits) and CacheImpl.tla (keyword intern table) model-checked by TLC with refinement and liveness; "
    "every class of edge of the state graph replayed with real files and child interpreters",
    "TLC checks on the full state space (2 hash seeds, 3 source versions, 12 cache prefix classes) that a stale, truncated or "
    "foreign-magic cache is never executed, every load runs the current version, a successful load leaves a valid cache, a "
    "failed one leaves none that a later load would accept, and snapshots from cache equal snapshots from source for every "
    "pair of writer and reader seeds; eight wrong loaders are rejected. Child interpreters (own hash seed and cache directory, "
    "importer functions wrapped before the import) replay the edges: reference loads, every coarse class of StartLoad edge, "
    "crash injections for every prefix class, loads with the source edited mid-way; the file left behind must match the "
    "model. At the decoding layer every truncation length and header bit flip of real caches is fed to "
    "_get_basilisp_bytecode in-process (~100k calls).",
    "Trusted: TLC; the child driver's wrappers; byte-offset concretisation of prefix classes (exhaustive only at the "
    "decoding layer, sampled through child processes).",
    "5/C14")

NOT_APPLICABLE = []


def build():
    props = [json.loads(l)["id"] for l in open(os.path.join(HERE, "properties.jsonl"))]
    checks = []
    for pid in props:
        if pid not in CHECKS:
            continue
        mods, tech, text, note, ref = CHECKS[pid]
        checks.append({
            "property_id": pid,
            "quick_cmd": f"./check {pid} --tier quick",
            "thorough_cmd": f"./check {pid} --tier thorough",
            "evidence_file": f"/verif/evidence/{pid}.json",
            "replay_cmd_template": f"./check {pid} --replay {{path}}",
            "engine": "tlc+conformance",
            "level_claimed": {"category": "model_checking", "text": text, "design_ref": "DESIGN.md section " + ref},
            "level_note": note,
            "technique": tech,
        })
    na = list(NOT_APPLICABLE)
    claimed = {c["property_id"] for c in checks}
    listed = {n["property_id"] for n in na}
    for pid in props:
        if pid not in claimed and pid not in listed:
            na.append({"property_id": pid,
                       "reason": "not claimed yet: the TLA+ specification and conformance driver for this property "
                                 "are still being built (see DESIGN.md section 9, build order)"})
    return {
        "version": 1,
        "setup_cmd": "./setup.sh",
        "hooks": {
            "guard": "BASILISP_VERIF",
            "enable": "no source hooks exist: every observation goes through public API, harness-supplied callbacks "
                      "and monkey-patched threading primitives; checks export BASILISP_VERIF=1 for uniformity only",
            "baseline_off_cmd": "/verif/tools/baseline.py",
            "source_commits": [],
            "add_only": True,
        },
        "engines": [{
            "name": "tlc+conformance",
            "path": "/verif/check",
            "serves_properties": sorted(claimed),
            "kind_free_text": "explicit TLA+ specifications in /verif/specs checked with TLC 1.8; conformance in both "
                              "directions: TLC-generated behaviours/tables replayed into the real basilisp (working "
                              "tree of /repo), and traces recorded from the real code validated by TLC trace specs",
        }],
        "checks": checks,
        "not_applicable": na,
        "notes": "All checks rebuild from /repo's working tree: private bytecode cache keyed by a hash of the sources, "
                 "native extension rebuilt with cargo --offline. Exit 2 = machinery failure. Known findings: "
                 "/verif/KNOWN_FINDINGS.txt.",
    }


if __name__ == "__main__":
    m = build()
    if "--validate" in sys.argv:
        import jsonschema
        jsonschema.validate(m, json.load(open("/root/.vp/MANIFEST.schema.json")))
        es = json.load(open("/root/.vp/EVIDENCE.schema.json"))
        for c in m["checks"]:
            p = c["evidence_file"]
            if os.path.exists(p):
                jsonschema.validate(json.load(open(p)), es)
                print("evidence ok:", p)
        print("manifest valid;", len(m["checks"]), "checks;", len(m["not_applicable"]), "not applicable")
    else:
        with open(os.path.join(HERE, "MANIFEST.json"), "w") as f:
            json.dump(m, f, indent=1)
            f.write("\n")
        print("written", len(m["checks"]), "checks")
