#!/bin/sh
# run every registered quick (or $1) check in sequence; print one line per check
cd "$(dirname "$0")/.."
tier=${1:-quick}
for c in $(python3 -c "import json;print(' '.join(x['property_id'] for x in json.load(open('MANIFEST.json'))['checks']))"); do
  s=$(date +%s)
  ./check $c --tier $tier > .work/sweep_$c.log 2>&1
  rc=$?
  e=$(date +%s)
  echo "$c rc=$rc $((e-s))s $(tail -1 .work/sweep_$c.log | cut -c1-160)"
done
