CONSTANTS
  Alphabet <- AlphaD
  MaxLen = 6
  DetailLen = 4
  CRIsNewline = TRUE
SPECIFICATION Spec
INVARIANT Total
INVARIANT EofIffOwed
INVARIANT OkOnlyWhenNothingOwed
INVARIANT PosSane
CONSTRAINT Emit1
CHECK_DEADLOCK FALSE
