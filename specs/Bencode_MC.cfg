SPECIFICATION Spec
CONSTANTS MaxMsgs = 2  UniSize = 12  Dev = "none"
INVARIANT TypeOK
INVARIANT GotIsPrefix
INVARIANT BufIsRemainder
INVARIANT AllDelivered
INVARIANT NeverPartial
INVARIANT DecodeEncode
INVARIANT PrefixIncomplete
CHECK_DEADLOCK FALSE
