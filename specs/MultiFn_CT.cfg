CONSTANTS Tags <- TagsD  Classes <- ClassesT  Bases = {}  VecElems <- NoVecs  Dflt = "dflt"
          Edges <- EdgesT  PrefPairs <- PrefsT
          DevOrder = FALSE  DevClassAnc = FALSE  ResetOn <- AllOps  CheckHier = TRUE
INIT IInit
NEXT INext
INVARIANT CacheInvisible
INVARIANT CacheCoherent
CHECK_DEADLOCK FALSE
