CONSTANTS Tags <- TagsD  Classes = {}  Bases = {}  VecElems <- NoVecs  Dflt = "dflt"
          Edges <- EdgesD  PrefPairs <- PrefsD
          DevOrder = TRUE  DevClassAnc = FALSE  ResetOn <- AllOps  CheckHier = TRUE
INIT IInit
NEXT INextMut
VIEW HView
INVARIANT TypeOK
INVARIANT Acyclic
INVARIANT IsaOrder
INVARIANT HierConsistent
INVARIANT NoPreferConflict
INVARIANT ResolveSane
INVARIANT MapsExact
INVARIANT HierRefines
INVARIANT SearchSound
CHECK_DEADLOCK FALSE
