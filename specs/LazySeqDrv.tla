-------------------------------- MODULE LazySeqDrv --------------------------------
(* C06 -- the environment of a lazy sequence in the design checks: consumer programs     *)
(* (each thread walks from the head: an operation applies to the thread's current handle, *)
(* rest/next move the handle) and producer plans per cell:                                *)
(*   park   the producer parks (blocks outside the interpreter lock) until it is resumed   *)
(*   throw  the first attempt raises, later attempts return                                *)
(*   re     "-" or an operation the producer performs on its own cell before returning     *)
(* Only bookkeeping lives here; LazySeq_MC / LazySeqImpl_MC conjoin these operators with    *)
(* the actions of the specification they drive.                                            *)
EXTENDS Integers, Sequences, LazySeqVals

CONSTANTS Progs, Plans

VARIABLES prog0,  \* the programs as chosen initially (never changes)
          prog,   \* prog[t]: operations still to perform
          hnd,    \* hnd[t]: cell of the current handle (0: nil / empty -- nothing left to ask)
          att,    \* att[c]: producer attempts started on cell c
          pp,     \* pp[t]: phase of the producer thread t is in: none, body, parked, awake, nested, fin
          plan    \* plan[c]: [park, throw, re]
dvars == <<prog0, prog, hnd, att, pp, plan>>

P(park, throw, re) == [park |-> park, throw |-> throw, re |-> re]

DInit == /\ prog \in [Threads -> Progs] /\ prog0 = prog /\ hnd = [t \in Threads |-> 1]
         /\ att = [c \in 1..N |-> 0] /\ pp = [t \in Threads |-> "none"] /\ plan \in Plans

(* the handle after op(c) returned res at top level; an exception leaves the handle alone *)
NewHandle(op, c, res) == CASE res.ty \in {"cell", "seq"} -> res.i
                           [] res.ty = "empty" -> 0
                           [] res.ty = "nil" /\ op \in {"next", "seq"} -> 0
                           [] OTHER -> c

DCall(t, op, c) == /\ pp[t] = "none" /\ prog[t] # <<>> /\ hnd[t] # 0
                   /\ op = Head(prog[t]) /\ c = hnd[t]
                   /\ prog' = [prog EXCEPT ![t] = Tail(@)]
                   /\ UNCHANGED <<prog0, hnd, att, pp, plan>>
DRetOuter(t, op, c, res) == /\ pp[t] = "none"
                            /\ hnd' = [hnd EXCEPT ![t] = NewHandle(op, c, res)]
                            /\ UNCHANGED <<prog0, prog, att, pp, plan>>
DStart(t, k) == /\ pp[t] = "none"
                /\ att' = [att EXCEPT ![k] = @ + 1] /\ pp' = [pp EXCEPT ![t] = "body"]
                /\ UNCHANGED <<prog0, prog, hnd, plan>>
DPark(t, k) == /\ pp[t] = "body" /\ plan[k].park
               /\ pp' = [pp EXCEPT ![t] = "parked"] /\ UNCHANGED <<prog0, prog, hnd, att, plan>>
DResume(t) == /\ pp[t] = "parked"
              /\ pp' = [pp EXCEPT ![t] = "awake"] /\ UNCHANGED <<prog0, prog, hnd, att, plan>>
Ready(t, k) == (pp[t] = "body" /\ ~plan[k].park) \/ pp[t] = "awake"
DNest(t, k, op) == /\ Ready(t, k) /\ plan[k].re # "-" /\ op = plan[k].re
                   /\ pp' = [pp EXCEPT ![t] = "nested"] /\ UNCHANGED <<prog0, prog, hnd, att, plan>>
DNestRet(t) == /\ pp[t] = "nested"
               /\ pp' = [pp EXCEPT ![t] = "fin"] /\ UNCHANGED <<prog0, prog, hnd, att, plan>>
DEnd(t, k, ok) == /\ (pp[t] = "fin" \/ (Ready(t, k) /\ plan[k].re = "-"))
                  /\ ok = ~(plan[k].throw /\ att[k] = 1)
                  /\ pp' = [pp EXCEPT ![t] = "none"] /\ UNCHANGED <<prog0, prog, hnd, att, plan>>
DDone(t) == pp[t] = "none" /\ (prog[t] = <<>> \/ hnd[t] = 0)

(* ---- sets of programs and plans used by the configurations ---------------------------------- *)
T1 == {1}
T2 == {1, 2}
T3 == {1, 2, 3}
PlanSet(n, S) == [1..n -> S]
Basic == {P(FALSE, FALSE, "-"), P(TRUE, FALSE, "-"), P(FALSE, TRUE, "-"), P(TRUE, TRUE, "-"),
          P(FALSE, FALSE, "first"), P(TRUE, FALSE, "count")}
Few == {P(FALSE, FALSE, "-"), P(TRUE, TRUE, "-"), P(TRUE, FALSE, "first")}
Blocky == {P(TRUE, FALSE, "-"), P(TRUE, TRUE, "-"), P(TRUE, FALSE, "first"), P(FALSE, FALSE, "-")}
Tiny == {P(TRUE, FALSE, "-"), P(TRUE, TRUE, "-")}
PlansB2 == PlanSet(2, Basic)
PlansF2 == PlanSet(2, Few)
PlansF3 == PlanSet(3, Few)
PlansK2 == PlanSet(2, Blocky)
PlansK3 == PlanSet(3, Blocky)
PlansT3 == PlanSet(3, Tiny)
ProgsA == {<<"first">>, <<"next">>, <<"count">>, <<"rest", "first">>, <<"first", "first">>, <<"seq", "next">>,
           <<"first", "count">>}
ProgsG == {<<"first">>, <<"count">>, <<"next", "first">>, <<"first", "first">>, <<"rest", "seq">>}
ProgsQ == {<<"first">>, <<"count">>, <<"next", "first">>, <<"first", "first">>}
ProgsS == {<<"first">>, <<"count">>, <<"next", "first">>}
ProgsW == {<<"first", "next">>, <<"count">>, <<"rest", "first", "rest">>}
Progs1 == {<<"first", "first">>, <<"first", "count">>, <<"next", "next">>, <<"rest", "first", "first">>,
           <<"seq", "seq", "rest">>, <<"count", "count">>, <<"first", "next", "count">>}
===================================================================================
