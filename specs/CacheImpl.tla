-------------------------------- MODULE CacheImpl --------------------------------
(* C14 -- the loader AS BUILT: Cache.tla plus the keyword intern table of the loading      *)
(* process (basilisp/lang/keyword.py: a map from HASH to keyword object).                  *)
(*                                                                                        *)
(* Generated code creates its keyword constants with keyword_from_hash(h, name) where h    *)
(* was computed when the code was COMPILED (generator.py _kw_to_py_ast).  The hash of a    *)
(* keyword name depends on the string-hash seed of the process: Key(seed, name).           *)
(*   intern   the keys present in the table of the loading process (one object per key)    *)
(*   nsKw     the key under which the keyword held by the loaded namespace was interned     *)
(* Code compiled in the loading process itself (the caller taking the snapshot) interns    *)
(* under Key(proc.seed, name).  The two objects are identical iff the keys are equal.       *)
(*                                                                                        *)
(* DevInternByForeignHash = TRUE is the pinned tree: cached code interns under the hash     *)
(* computed by the WRITER of the cache.  FALSE is the required mechanism (the reader        *)
(* computes the hash itself): then CacheImpl refines Cache (SafetySpec) and SnapshotEqual   *)
(* holds for every pair of writer and reader seeds.                                        *)
EXTENDS Cache

CONSTANT DevInternByForeignHash
VARIABLES intern, nsKw
ivars == <<hist, cache, proc, ran, snap, intern, nsKw>>
kvars == <<intern, nsKw>>

Key(seed, name) == <<seed, name>>
NoKey == <<0, "none">>

IStartLoad(s, w) == StartLoad(s, w) /\ intern' = {} /\ nsKw' = NoKey
IExecCached == /\ ExecCached
               /\ LET k == Key(IF DevInternByForeignHash THEN proc.got.writerSeed ELSE proc.seed, "a") IN
                    intern' = intern \cup {k} /\ nsKw' = k
IRecompile == /\ Recompile
              /\ LET k == Key(proc.seed, "a") IN intern' = intern \cup {k} /\ nsKw' = k
(* the caller is compiled from source in the loading process, then looks at the namespace *)
ISnapshot == /\ Snapshot(nsKw = Key(proc.seed, "a"))
             /\ intern' = intern \cup {Key(proc.seed, "a")} /\ UNCHANGED nsKw
IExit == Exit /\ intern' = {} /\ nsKw' = NoKey
ICrash == Crash /\ intern' = {} /\ nsKw' = NoKey

IProcStep == \/ (ReadCache \/ Decide \/ WriteBegin \/ WriteBytes \/ WriteEnd) /\ UNCHANGED kvars
             \/ IExecCached \/ IRecompile \/ ISnapshot \/ IExit
IInit == Init /\ intern = {} /\ nsKw = NoKey
INext == (\E s \in Seeds, w \in BOOLEAN : IStartLoad(s, w)) \/ IProcStep \/ ICrash \/ (Env /\ UNCHANGED kvars)
ISpec == IInit /\ [][INext]_ivars /\ WF_ivars(IProcStep)

(* one object per key, and the namespace's keyword is in the table *)
InternOK == (nsKw # NoKey => nsKw \in intern) /\ (proc = NoProc => intern = {})
==================================================================================
