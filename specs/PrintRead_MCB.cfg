CONSTANTS
  StrLen = 2
  Depth = 1
  Dev = {"GreedyHex", "EscHexAfterU"}
SPECIFICATION Spec
INVARIANT RoundTrip
INVARIANT Idempotent
CHECK_DEADLOCK FALSE
