CONSTANTS Threads <- T3  N = 2  FailPolicy = "retry"  Progs <- ProgsS  Plans <- PlansK2
          LockUnderGIL = FALSE  ErrLeavesComputing = FALSE  Record = TRUE  Steer = TRUE
SPECIFICATION Spec
INVARIANT Simulates
CONSTRAINT Emit
