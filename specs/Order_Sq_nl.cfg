CONSTANTS MaxLen = 3  SubLen = 4  NoNsFirst = FALSE
INIT InitS
NEXT NextS
INVARIANT Ordered
INVARIANT Stable
INVARIANT Permutation
CONSTRAINT EmitS
CHECK_DEADLOCK FALSE
