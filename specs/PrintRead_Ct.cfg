CONSTANTS
  StrLen = 3
  Depth = 2
  Dev = {}
SPECIFICATION Spec
INVARIANT EdnRoundTrip
INVARIANT JsonNormIdempotent
CONSTRAINT EmitC
CHECK_DEADLOCK FALSE
