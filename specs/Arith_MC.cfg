SPECIFICATION Spec
INVARIANT DivisionIdentity
INVARIANT RemSign
INVARIANT ModSign
INVARIANT RemSmall
INVARIANT ModSmall
INVARIANT ModCongruent
INVARIANT IntegralIsInt
INVARIANT TypeCommutes
INVARIANT TypeByTypesOnly
CONSTRAINT Emit
CHECK_DEADLOCK FALSE
