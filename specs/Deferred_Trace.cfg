SPECIFICATION Spec
INVARIANT DelayOnce
PROPERTY RealizedMonotone
PROPERTY ValueStable
CONSTRAINT Accept
CHECK_DEADLOCK FALSE
