CONSTANTS MaxLen = 6  Modes = {"L2", "L3", "inf"}
SPECIFICATION Spec
INVARIANT DemMonotone
INVARIANT DemBounded
INVARIANT ResultsDemanded
INVARIANT CellAfterDemand
CONSTRAINT Emit
CHECK_DEADLOCK FALSE
