-------------------------------- MODULE PrintRead --------------------------------
(* C03 -- readable printing round-trips through the reader.                                  *)
(*                                                                                           *)
(* Values are tagged records [ty, ns, n, cs, xs]; text is a sequence of tokens (strings).     *)
(* Pr(v, cfg, d) is the readable printing scheme, Read(ts) a recursive-descent reader of the  *)
(* printed language, ReadStr / PrintStr the string escape transducer and its inverse over     *)
(* character CLASSES (a specification may only depend on the class).                          *)
(* TLC checks, for every value of the universe and every print configuration that claims      *)
(* readability:   Read(Pr(v)) = <<v>>   and   Pr(Read(Pr(v))) = Pr(v).             *)
(*                                                                                           *)
(* Dev is the set of named deviations of the as-built code that are switched on:              *)
(*   "XEscape"    the printer writes control / Latin-1 characters as \xNN (Python's           *)
(*                unicode_escape codec); the reader knows no \x escape                        *)
(*   "GreedyHex"  the reader of \uXXXX consumes hex digits greedily instead of exactly 4       *)
(*   "EscHexAfterU" (printer option) a hex-digit character directly after a \u escape is      *)
(*                written as \uXXXX too: {"GreedyHex", "EscHexAfterU"} is the second scheme    *)
(*                that round-trips (PrintRead_MCB.cfg) -- the greedy reader can be kept        *)
(* With Dev = {} (the required scheme) the round trip holds; with either deviation TLC finds   *)
(* the minimal witnesses (<<"lat1">>, <<"bmp", "hexalpha">>).  The generation job emits every  *)
(* (value, configuration) together with the outcome each deviation alone would produce, so     *)
(* that the driver can name the deviation that explains an observed failure.                  *)
EXTENDS Integers, Sequences, FiniteSets, TLC, Json

CONSTANTS StrLen,     \* strings are all sequences of <= StrLen character classes
          Depth,      \* nesting depth of collections (1 or 2)
          Dev         \* deviations enabled in Print / Read (design check: {} ; negative jobs: one each)

(* ------------------------------- values ------------------------------------------------- *)
V(ty, ns, n, cs, xs) == [ty |-> ty, ns |-> ns, n |-> n, cs |-> cs, xs |-> xs]
Atom(ty, n) == V(ty, "", n, <<>>, <<>>)
Str(cs) == V("str", "", "", cs, <<>>)
Named(ty, ns, n) == V(ty, ns, n, <<>>, <<>>)
Coll(ty, xs) == V(ty, "", "", <<>>, xs)
Meta(m, x) == V("meta", "", "", <<>>, <<m, x>>)        \* m: a map value, x: a value that can carry metadata

StrClasses == <<"hexalpha", "alpha", "digit", "dq", "bs", "nl", "tab", "cr", "bsp", "ff", "bel", "vt",
                "nul", "ctl", "del", "lat1", "bmp", "astral", "sp">>
NamedEsc == {"dq", "bs", "nl", "tab", "cr", "bsp", "ff", "bel", "vt"}      \* \" \\ \n \t \r \b \f \a \v
CtlClasses == {"nul", "ctl", "del"}                    \* no named escape: must be written \uXXXX
XClasses == {"bsp", "ff", "bel", "vt", "nul", "ctl", "del", "lat1"}        \* what unicode_escape writes as \xNN
HexRaw == {"hexalpha", "digit"}                        \* raw characters that are also hex digits

IntAtoms == {"zero", "small", "neg", "huge", "neghuge"}
FloatAtoms == {"1.5", "-0.0", "0.1", "100.0", "1e16", "1e22", "1e23", "5e-324", "1.401298464324817e-45",
               "1e-7", "1.2345678901234568e17", "-2.5e-10", "inf", "-inf", "nan"}
RatioAtoms == {"1/3", "-7/2", "huge/3"}
DecAtoms == {"1.5M", "1M", "-0.0M", "1E+3M", "1E-7M", "hugeM"}
ImagAtoms == {"2J", "-2J", "1.5J", "-0.5J"}
UuidAtoms == {"uuid1"}
InstAtoms == {"inst-utc", "inst-naive-micro", "inst-offset"}
RegexAtoms == {"re-plain", "re-backslash", "re-dq", "re-nonascii", "re-newline"}
BytesAtoms == {"b-empty", "b-ascii", "b-high", "b-dq", "b-sq", "b-both", "b-bs"}
Names == {"a", "b", "x-y?", "+"}
Nss == {"", "n", "n.m"}

ScalarAtoms ==
  {Atom("nil", ""), Atom("bool", "true"), Atom("bool", "false")}
  \cup {Atom("int", a) : a \in IntAtoms} \cup {Atom("float", a) : a \in FloatAtoms}
  \cup {Atom("ratio", a) : a \in RatioAtoms} \cup {Atom("dec", a) : a \in DecAtoms}
  \cup {Atom("imag", a) : a \in ImagAtoms} \cup {Atom("uuid", a) : a \in UuidAtoms}
  \cup {Atom("inst", a) : a \in InstAtoms} \cup {Atom("regex", a) : a \in RegexAtoms}
  \cup {Atom("bytes", a) : a \in BytesAtoms}
  \cup {Named("kw", ns, n) : ns \in Nss, n \in Names} \cup {Named("sym", ns, n) : ns \in Nss, n \in Names}

SeqsUpTo(S, k) == UNION {[1..j -> S] : j \in 0..k}
Strings == {Str(cs) : cs \in SeqsUpTo({StrClasses[i] : i \in 1..Len(StrClasses)}, StrLen)}

(* a small sequence of representative elements for collections *)
Elems == << Atom("nil", ""), Atom("bool", "true"), Atom("int", "small"), Atom("float", "1.5"),
            Atom("ratio", "1/3"), Atom("dec", "1.5M"), Str(<<"alpha">>), Str(<<"dq", "nl">>),
            Named("kw", "", "a"), Named("kw", "n", "b"), Named("sym", "", "a"), Named("sym", "n.m", "x-y?") >>
ElemSet == {Elems[i] : i \in 1..Len(Elems)}
SeqTypes == {"list", "vec", "set", "queue", "pylist", "pytuple", "pyset"}
MapTypes == {"map", "pydict"}
Hashable(x) == x.ty \notin {"pylist", "pydict", "pyset"}
Distinct(xs) == \A i, j \in 1..Len(xs) : i # j => xs[i] # xs[j]
KeysOf(xs) == [i \in 1..(Len(xs) \div 2) |-> xs[2 * i - 1]]

CollsOver(E) ==
  {Coll(t, xs) : t \in SeqTypes, xs \in SeqsUpTo(E, 2)}
  \cup {Coll(t, <<k, v>>) : t \in MapTypes, k \in E, v \in E}
  \cup {Coll(t, <<>>) : t \in MapTypes}
WellFormed(c) ==
  /\ c.ty \in {"set", "pyset"} => Distinct(c.xs) /\ \A i \in 1..Len(c.xs) : Hashable(c.xs[i])
  /\ c.ty \in MapTypes => Distinct(KeysOf(c.xs)) /\ \A i \in 1..Len(KeysOf(c.xs)) : Hashable(KeysOf(c.xs)[i])
Colls1 == {c \in CollsOver(ElemSet) : WellFormed(c)}
(* maps whose keys share / do not share a namespace (for print-namespace-maps) *)
NsMaps == { Coll("map", <<Named("kw", "n", "a"), Atom("int", "small"), Named("kw", "n", "b"), Atom("nil", "")>>),
            Coll("map", <<Named("kw", "n", "a"), Atom("int", "small"), Named("kw", "", "b"), Atom("nil", "")>>),
            Coll("map", <<Named("kw", "n", "a"), Atom("int", "small"), Named("sym", "n", "b"), Atom("nil", "")>>),
            Coll("map", <<Named("sym", "n.m", "a"), Atom("int", "small")>>),
            Coll("map", <<Named("kw", "n", "a"), Coll("map", <<Named("kw", "n.m", "b"), Atom("int", "zero")>>)>>),
            Coll("map", <<Named("kw", "n", "a"), Atom("int", "small"), Atom("int", "zero"), Atom("nil", "")>>) }
CanMeta(x) == x.ty \in {"sym", "list", "vec", "map", "set", "queue"}
MetaMaps == { Coll("map", <<Named("kw", "", "a"), Atom("bool", "true")>>),
              Coll("map", <<Named("kw", "n", "b"), Str(<<"dq">>), Named("kw", "", "a"), Atom("int", "small")>>) }
Metas == {Meta(m, x) : m \in MetaMaps,
                       x \in {Named("sym", "", "a"), Named("sym", "n", "b"), Coll("list", <<>>),
                              Coll("list", <<Atom("int", "small")>>), Coll("vec", <<Named("sym", "", "a")>>),
                              Coll("map", <<Named("kw", "", "a"), Atom("nil", "")>>), Coll("set", <<Atom("int", "zero")>>),
                              Coll("queue", <<Atom("int", "small")>>)}}
Inner2 == { Coll("vec", <<Atom("int", "small"), Str(<<"bs">>)>>), Coll("list", <<>>), Coll("map", <<Named("kw", "", "a"), Atom("float", "1.5")>>),
            Coll("set", <<Atom("nil", "")>>), Coll("queue", <<Atom("bool", "false")>>), Coll("pylist", <<Atom("int", "zero")>>),
            Coll("pytuple", <<>>), Coll("pydict", <<Str(<<"alpha">>), Atom("int", "small")>>),
            Meta(Coll("map", <<Named("kw", "", "a"), Atom("bool", "true")>>), Coll("vec", <<Atom("int", "small")>>)),
            Named("kw", "n", "a"), Atom("dec", "1M"), Str(<<"lat1", "hexalpha">>) }
Colls2 == {c \in CollsOver(Inner2) : WellFormed(c)}

Universe == ScalarAtoms \cup Strings \cup Colls1 \cup NsMaps \cup Metas \cup (IF Depth >= 2 THEN Colls2 ELSE {})

Cfgs == [dup : BOOLEAN, meta : BOOLEAN, nsmaps : BOOLEAN]
NoDup == [dup |-> FALSE, meta |-> FALSE, nsmaps |-> FALSE]

(* ------------------------------- printing ------------------------------------------------ *)
(* tokens are tuples: <<"t", x>> punctuation / white space, <<"c", class>> a raw character inside a   *)
(* string, <<"L", x>> the letter after a backslash, <<"H", class>> one hex digit of the code of a    *)
(* character of that class, <<"X", class>> one digit of a \xNN escape, <<"A", ty, name>> an atomic   *)
(* literal, <<"N", name>> a name                                                                     *)
T(x) == <<"t", x>>
SP == T("sp")
Rep(n, x) == [i \in 1..n |-> x]
EscTok(c, d) ==
  IF c \in XClasses /\ "XEscape" \in d THEN <<T("bs"), <<"L", "x">>, <<"X", c>>, <<"X", c>>>>
  ELSE IF c \in NamedEsc THEN <<T("bs"), <<"L", c>>>>
  ELSE IF c \in CtlClasses \cup {"lat1", "bmp"} THEN <<T("bs"), <<"L", "u">>>> \o Rep(4, <<"H", c>>)
  ELSE IF c = "astral" THEN <<T("bs"), <<"L", "U">>>> \o Rep(8, <<"H", c>>)
  ELSE << <<"c", c>> >>
IsUniEsc(c, d) == ~(c \in XClasses /\ "XEscape" \in d) /\ c \in CtlClasses \cup {"lat1", "bmp", "astral"}
(* "EscHexAfterU": a raw hex-digit character directly after a \u escape is itself written as \uXXXX  *)
(* (the scheme that keeps a greedy \u reader readable)                                               *)
RECURSIVE PrintStrBody(_, _, _)
PrintStrBody(cs, d, after) ==
  IF cs = <<>> THEN <<>>
  ELSE LET c == Head(cs) IN
       IF "EscHexAfterU" \in d /\ after /\ c \in HexRaw
       THEN <<T("bs"), <<"L", "u">>>> \o Rep(4, <<"H", c>>) \o PrintStrBody(Tail(cs), d, TRUE)
       ELSE EscTok(c, d) \o PrintStrBody(Tail(cs), d, IsUniEsc(c, d))
PrintStr(cs, d) == <<T("dq")>> \o PrintStrBody(cs, d, FALSE) \o <<T("dq")>>

Open == [list |-> <<T("(")>>, vec |-> <<T("[")>>, set |-> <<T("#{")>>, queue |-> <<T("#queue"), SP, T("(")>>,
         pylist |-> <<T("#py"), SP, T("[")>>, pytuple |-> <<T("#py"), SP, T("(")>>,
         pyset |-> <<T("#py"), SP, T("#{")>>, map |-> <<T("{")>>, pydict |-> <<T("#py"), SP, T("{")>>]
Close == [list |-> T(")"), vec |-> T("]"), set |-> T("}"), queue |-> T(")"), pylist |-> T("]"), pytuple |-> T(")"),
          pyset |-> T("}"), map |-> T("}"), pydict |-> T("}")]

SharedNs(c) ==   \* the namespace all keys share ("" when they do not, or when a key is not a name)
  LET ks == KeysOf(c.xs) IN
  IF ks # <<>> /\ \A i \in 1..Len(ks) : ks[i].ty \in {"kw", "sym"} /\ ks[i].ns # "" /\ ks[i].ns = ks[1].ns
  THEN ks[1].ns ELSE ""

RECURSIVE Pr(_, _, _), PrintSeq(_, _, _, _), PrintKVs(_, _, _, _)
Pr(x, cfg, d) ==
  CASE x.ty \in {"nil", "bool", "int", "float", "ratio", "imag", "uuid", "inst", "regex", "bytes"} -> << <<"A", x.ty, x.n>> >>
    [] x.ty = "dec" -> IF cfg.dup THEN << <<"A", "dec", x.n>> >> ELSE << <<"A", "decnodup", x.n>> >>
    [] x.ty = "str" -> PrintStr(x.cs, d)
    [] x.ty = "kw" -> IF x.ns = "" THEN <<T(":"), <<"N", x.n>>>> ELSE <<T(":"), <<"N", x.ns>>, T("/"), <<"N", x.n>>>>
    [] x.ty = "sym" -> IF x.ns = "" THEN << <<"N", x.n>> >> ELSE << <<"N", x.ns>>, T("/"), <<"N", x.n>> >>
    [] x.ty = "meta" -> IF cfg.meta THEN <<T("^")>> \o Pr(x.xs[1], cfg, d) \o <<SP>> \o Pr(x.xs[2], cfg, d)
                        ELSE Pr(x.xs[2], cfg, d)
    [] x.ty \in SeqTypes -> Open[x.ty] \o PrintSeq(x.xs, cfg, TRUE, d) \o <<Close[x.ty]>>
    [] x.ty \in MapTypes ->
         LET ns == IF cfg.nsmaps THEN SharedNs(x) ELSE "" IN
         (IF ns = "" THEN Open[x.ty]
          ELSE (IF x.ty = "pydict" THEN <<T("#py"), SP>> ELSE <<>>) \o <<T("#:"), <<"N", ns>>, T("{")>>)
         \o PrintKVs(x.xs, cfg, ns, d) \o <<T("}")>>
PrintSeq(xs, cfg, first, d) ==
  IF xs = <<>> THEN <<>>
  ELSE (IF first THEN <<>> ELSE <<SP>>) \o Pr(Head(xs), cfg, d) \o PrintSeq(Tail(xs), cfg, FALSE, d)
PrintKVs(xs, cfg, ns, d) ==
  IF xs = <<>> THEN <<>>
  ELSE LET k == IF ns = "" THEN xs[1] ELSE [xs[1] EXCEPT !.ns = ""] IN
       Pr(k, cfg, d) \o <<SP>> \o Pr(xs[2], cfg, d)
       \o (IF Len(xs) > 2 THEN <<T(","), SP>> \o PrintKVs(SubSeq(xs, 3, Len(xs)), cfg, ns, d) ELSE <<>>)

(* ------------------------------- reading -------------------------------------------------- *)
Unreadable == Atom("nil", "unreadable")
Fail == [ok |-> FALSE, v |-> Unreadable, i |-> 0]
Got(x, i) == [ok |-> TRUE, v |-> x, i |-> i]
IsHexTok(t) == t[1] = "H"
HexLike(t) == t[1] = "H" \/ (t[1] = "c" /\ t[2] \in HexRaw)

(* the string body reader: ts[i] is the first token after the opening quote *)
RECURSIVE CountHex(_, _)
CountHex(ts, i) == IF i <= Len(ts) /\ HexLike(ts[i]) THEN 1 + CountHex(ts, i + 1) ELSE 0
UniChar(ts, i, n) ==       \* the character denoted by n hex digits starting at ts[i]; "?" = some other character
  IF \A j \in i..(i + n - 1) : ts[j] = ts[i] /\ IsHexTok(ts[j]) THEN ts[i][2] ELSE "?"
RECURSIVE ReadStrBody(_, _, _, _)
ReadStrBody(ts, i, acc, d) ==
  IF i > Len(ts) THEN Fail
  ELSE LET t == ts[i] IN
    IF t = T("dq") THEN Got(Str(acc), i + 1)
    ELSE IF t = T("bs") THEN
      (IF i + 1 > Len(ts) \/ ts[i + 1][1] # "L" THEN Fail
       ELSE LET l == ts[i + 1][2] IN
         IF l \in NamedEsc THEN ReadStrBody(ts, i + 2, Append(acc, l), d)
         ELSE IF l \in {"u", "U"} THEN
           LET want == IF l = "u" THEN 4 ELSE 8
               have == CountHex(ts, i + 2)
               n == IF "GreedyHex" \in d THEN have ELSE want
           IN IF "GreedyHex" \in d /\ have \notin {4, 8} THEN Fail
              ELSE IF have < n THEN Fail
              ELSE ReadStrBody(ts, i + 2 + n, Append(acc, UniChar(ts, i + 2, n)), d)
         ELSE Fail)                                   \* unknown escape (\x ...)
    ELSE IF t[1] = "c" THEN ReadStrBody(ts, i + 1, Append(acc, t[2]), d)
    ELSE Fail

AtomOf(t) == IF t[2] = "decnodup" THEN Atom("float", t[3]) ELSE Atom(t[2], t[3])
IsWs(t) == t = SP \/ t = T(",")
RECURSIVE SkipWs(_, _)
SkipWs(ts, i) == IF i <= Len(ts) /\ IsWs(ts[i]) THEN SkipWs(ts, i + 1) ELSE i
IsName(t) == t[1] = "N"

RECURSIVE ReadForm(_, _, _), ReadItems(_, _, _, _, _)
ReadName(ts, i, ty) ==
  IF i > Len(ts) \/ ~IsName(ts[i]) THEN Fail
  ELSE IF i + 2 <= Len(ts) /\ ts[i + 1] = T("/") /\ IsName(ts[i + 2])
       THEN Got(Named(ty, ts[i][2], ts[i + 2][2]), i + 3)
       ELSE Got(Named(ty, "", ts[i][2]), i + 1)
ApplyNs(xs, ns) == [j \in 1..Len(xs) |->
                      IF j % 2 = 1 /\ xs[j].ty \in {"kw", "sym"} /\ xs[j].ns = "" THEN [xs[j] EXCEPT !.ns = ns] ELSE xs[j]]
PyOf(c) == CASE c.ty = "vec" -> [c EXCEPT !.ty = "pylist"] [] c.ty = "list" -> [c EXCEPT !.ty = "pytuple"]
             [] c.ty = "set" -> [c EXCEPT !.ty = "pyset"] [] c.ty = "map" -> [c EXCEPT !.ty = "pydict"]
             [] OTHER -> Unreadable
ReadForm(ts, i0, d) ==
  LET i == SkipWs(ts, i0) IN
  IF i > Len(ts) THEN Fail
  ELSE LET t == ts[i] IN
    CASE t[1] = "A" -> Got(AtomOf(t), i + 1)
      [] t = T("dq") -> ReadStrBody(ts, i + 1, <<>>, d)
      [] t = T(":") -> ReadName(ts, i + 1, "kw")
      [] t[1] = "N" -> ReadName(ts, i, "sym")
      [] t = T("(") -> ReadItems(ts, i + 1, T(")"), "list", d)
      [] t = T("[") -> ReadItems(ts, i + 1, T("]"), "vec", d)
      [] t = T("#{") -> ReadItems(ts, i + 1, T("}"), "set", d)
      [] t = T("{") -> ReadItems(ts, i + 1, T("}"), "map", d)
      [] t = T("#queue") -> LET r == ReadForm(ts, i + 1, d) IN
                            IF r.ok /\ r.v.ty \in {"list", "vec"} THEN Got([r.v EXCEPT !.ty = "queue"], r.i) ELSE Fail
      [] t = T("#py") -> LET r == ReadForm(ts, i + 1, d) IN
                         IF r.ok /\ r.v.ty \in {"list", "vec", "set", "map"} THEN Got(PyOf(r.v), r.i) ELSE Fail
      [] t = T("#:") -> IF i + 2 <= Len(ts) /\ IsName(ts[i + 1]) /\ ts[i + 2] = T("{")
                        THEN LET r == ReadItems(ts, i + 3, T("}"), "map", d) IN
                             IF r.ok THEN Got([r.v EXCEPT !.xs = ApplyNs(@, ts[i + 1][2])], r.i) ELSE Fail
                        ELSE Fail
      [] t = T("^") -> LET m == ReadForm(ts, i + 1, d) IN
                       IF ~m.ok \/ m.v.ty # "map" THEN Fail
                       ELSE LET x == ReadForm(ts, m.i, d) IN
                            IF x.ok /\ CanMeta(x.v) THEN Got(Meta(m.v, x.v), x.i) ELSE Fail
      [] OTHER -> Fail
ReadItems(ts, i0, closer, ty, d) ==
  LET i == SkipWs(ts, i0) IN
  IF i > Len(ts) THEN Fail
  ELSE IF ts[i] = closer THEN Got(Coll(ty, <<>>), i + 1)
  ELSE LET x == ReadForm(ts, i, d) IN
       IF ~x.ok THEN Fail
       ELSE LET r == ReadItems(ts, x.i, closer, ty, d) IN
            IF ~r.ok THEN Fail ELSE Got([r.v EXCEPT !.xs = <<x.v>> \o @], r.i)

(* all forms of a text; the last element is Unreadable when an error occurred *)
RECURSIVE ReadAll(_, _, _)
ReadAll(ts, i, d) ==
  IF SkipWs(ts, i) > Len(ts) THEN <<>>
  ELSE LET r == ReadForm(ts, i, d) IN
       IF ~r.ok THEN << Unreadable >> ELSE <<r.v>> \o ReadAll(ts, r.i, d)
Read(ts, d) == ReadAll(ts, 1, d)

(* ------------------------------- what must hold ------------------------------------------ *)
RECURSIVE HasDec(_), StripMeta(_)
HasDec(x) == x.ty = "dec" \/ \E i \in 1..Len(x.xs) : HasDec(x.xs[i])
StripMeta(x) == IF x.ty = "meta" THEN StripMeta(x.xs[2]) ELSE [x EXCEPT !.xs = [i \in 1..Len(x.xs) |-> StripMeta(x.xs[i])]]
(* the configurations under which the printed text claims to be readable as the same value *)
Claims(x, c) == HasDec(x) => c.dup
Expected(x, c) == IF c.meta THEN x ELSE StripMeta(x)

Outcome(x, c, d) ==
  LET back == Read(Pr(x, c, d), d) IN
  IF back = <<Expected(x, c)>> THEN "same"
  ELSE IF back # <<>> /\ back[Len(back)] = Unreadable THEN "unreadable"
  ELSE IF Len(back) # 1 THEN "forms"
  ELSE "differs"

(* only the print-control Vars that can influence the text of x are varied (plus all of them on) *)
RECURSIVE HasTy(_, _)
HasTy(x, tys) == x.ty \in tys \/ \E i \in 1..Len(x.xs) : HasTy(x.xs[i], tys)
CfgsFor(x) == {c \in Cfgs : (c.dup /\ c.meta /\ c.nsmaps)
                             \/ ((c.dup => HasDec(x)) /\ (c.meta => HasTy(x, {"meta"}))
                                 /\ (c.nsmaps => HasTy(x, MapTypes)))}

(* the universe in parts, so that TLC's workers share the enumeration *)
CollTypes == <<"list", "vec", "set", "queue", "pylist", "pytuple", "pyset", "map", "pydict">>
NParts == 1 + Len(StrClasses) + Len(CollTypes)
Part(i) ==
  IF i = 1 THEN ScalarAtoms \cup NsMaps \cup Metas \cup {Str(<<>>)}
  ELSE IF i <= 1 + Len(StrClasses) THEN {x \in Strings : x.cs # <<>> /\ x.cs[1] = StrClasses[i - 1]}
  ELSE {x \in Colls1 \cup (IF Depth >= 2 THEN Colls2 ELSE {}) : x.ty = CollTypes[i - 1 - Len(StrClasses)]}

VARIABLES v, cfg, part
vars == <<v, cfg, part>>
None == Atom("nil", "none")
Init == v = None /\ cfg = NoDup /\ part = 0
Next == \/ part = 0 /\ part' \in 1..NParts /\ UNCHANGED <<v, cfg>>
        \/ part > 0 /\ v = None /\ v' \in Part(part) /\ cfg' \in CfgsFor(v') /\ UNCHANGED part
Spec == Init /\ [][Next]_vars

RoundTrip == (v # None /\ Claims(v, cfg)) => Outcome(v, cfg, Dev) = "same"
Idempotent == (v # None /\ Claims(v, cfg) /\ Outcome(v, cfg, Dev) = "same") =>
                 Pr(Read(Pr(v, cfg, Dev), Dev)[1], cfg, Dev) = Pr(Expected(v, cfg), cfg, Dev)
(* anti-vacuity: the decimal clause really needs *print-dup* *)
ASSUME \E a \in DecAtoms : Read(Pr(Atom("dec", a), NoDup, {}), {}) # <<Atom("dec", a)>>

(* ------------------------------- generation ----------------------------------------------- *)
(* one line per (value, configuration) that claims readability: the required outcome is "same";   *)
(* x / g / xg = the outcome if the printer wrote \xNN escapes / the reader read hex digits        *)
(* greedily / both (the pinned tree)                                                              *)
EmitV == (v # None /\ Claims(v, cfg)) =>
           PrintT(<<"BEH", ToJson([v |-> v, cfg |-> cfg, x |-> Outcome(v, cfg, {"XEscape"}),
                                    g |-> Outcome(v, cfg, {"GreedyHex"}),
                                    xg |-> Outcome(v, cfg, {"XEscape", "GreedyHex"})])>>)
(* ------------------------------- codec views (C19) ---------------------------------------- *)
(* EDN: the part of the universe that is EDN data (what the EDN writer is specified for); the      *)
(* round trip through the EDN reader and through the Lisp reader must be the identity on it.       *)
RECURSIVE InEdn(_)
InEdn(x) == /\ x.ty \in {"nil", "bool", "int", "float", "str", "kw", "sym", "uuid", "inst", "list", "vec", "map", "set"}
            /\ \A i \in 1..Len(x.xs) : InEdn(x.xs[i])
(* JSON: maps (keys: keywords, symbols, strings), sequential collections and sets, strings, numbers, *)
(* booleans, nil; keywords and symbols as values.  JsonNorm is the documented coercion:             *)
(*   map keys      -> (name k): the name as a string, the namespace is dropped                       *)
(*   kw / sym      -> the string "ns/name"                                                           *)
(*   list vec set  -> vector (a set in unspecified order)                                            *)
IsJsonKey(k) == k.ty \in {"kw", "sym", "str"}
KeyName(k) == IF k.ty = "str" THEN k ELSE V("namestr", "", k.n, <<>>, <<>>)
RECURSIVE InJson(_)
InJson(x) ==
  /\ x.ty \in {"nil", "bool", "int", "float", "str", "kw", "sym", "list", "vec", "set", "map"}
  /\ (x.ty = "float" => x.n \notin {"inf", "-inf", "nan"})
  /\ (x.ty = "map" => /\ \A i \in 1..Len(KeysOf(x.xs)) : IsJsonKey(KeysOf(x.xs)[i])
                       /\ Distinct([j \in 1..Len(KeysOf(x.xs)) |-> KeyName(KeysOf(x.xs)[j])]))
  /\ \A m \in 1..Len(x.xs) : (x.ty = "map" /\ m % 2 = 1) \/ InJson(x.xs[m])
RECURSIVE JsonNorm(_)
JsonNorm(x) ==
  CASE x.ty \in {"kw", "sym"} -> V("namestr", x.ns, x.n, <<>>, <<>>)
    [] x.ty \in {"list", "vec"} -> Coll("vec", [i \in 1..Len(x.xs) |-> JsonNorm(x.xs[i])])
    [] x.ty = "set" -> Coll("vec-unordered", [i \in 1..Len(x.xs) |-> JsonNorm(x.xs[i])])
    [] x.ty = "map" -> Coll("map", [i \in 1..Len(x.xs) |-> IF i % 2 = 1 THEN KeyName(x.xs[i]) ELSE JsonNorm(x.xs[i])])
    [] OTHER -> x
JsonNormIdempotent == (v # None /\ InJson(v)) => JsonNorm(JsonNorm(v)) = JsonNorm(v)
(* the EDN view of the round trip: EDN text is the printed language without print-control Vars *)
EdnRoundTrip == (v # None /\ InEdn(v)) => Outcome(v, NoDup, Dev) = "same"
EmitC == (v # None /\ cfg = NoDup /\ (InEdn(v) \/ InJson(v))) =>
           PrintT(<<"COD", ToJson([v |-> v, edn |-> InEdn(v), json |-> InJson(v),
                                    jn |-> IF InJson(v) THEN JsonNorm(v) ELSE None])>>)
===================================================================================
