------------------------------ MODULE Collections_MC ------------------------------
(* C04: universes of the Collections jobs (a .cfg cannot express sequences) *)
EXTENDS Collections
(* exhaustive: nil + three hash-colliding integers *)
Keys4 == <<0, 1, 2, 3>>
(* random histories: the same plus the integers 0..35 (codes 10..45): enough for 33+ element *)
(* collections, i.e. interior trie nodes, tail overflow, and 5-bit bucket collisions (32..35) *)
KeysBig == <<0, 1, 2, 3>> \o [i \in 1..36 |-> 9 + i]
ElemsBig == {KeysBig[i] : i \in 1..Len(KeysBig)}
ElemsSeqBig == {0, 1, 2, 10, 11, 12, 13, 14, 15}
===================================================================================
