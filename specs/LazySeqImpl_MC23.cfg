CONSTANTS Threads <- T2  N = 3  FailPolicy = "retry"  Progs <- ProgsA  Plans <- PlansF3
          LockUnderGIL = FALSE  ErrLeavesComputing = FALSE  Record = FALSE  Steer = FALSE
SPECIFICATION Spec
INVARIANT Simulates
INVARIANT SameShape
INVARIANT MutexSane
INVARIANT UnderMutex
INVARIANT RunsAtMostOnce
INVARIANT ThrowKeepsCell
INVARIANT DemandBound
PROPERTY Termination
