--------------------------------- MODULE BindingsImpl ---------------------------------
(* C11 -- the binding mechanism as built, one primitive per step, in lock step with the required  *)
(* specification (Bindings.tla): the same program is run by both; at rest every thread must see    *)
(* the same values and be able to set! the same Vars (ImplAgrees).                                  *)
(* NoRollback = TRUE is the pinned tree: push_thread_bindings has no rollback when a later Var of    *)
(* the map fails (Dev_NoRollbackOnPartialPush) -- TLC then produces the minimal leaking history.     *)
EXTENDS Bindings, BindingsOps

CONSTANTS NoRollback

VARIABLES its,     \* per thread: [stack, frames] as built
          idone,   \* per thread: the local set `bindings` of a push_thread_bindings call under way
          onpool,  \* per thread: it runs on a worker thread of the futures executor
          ipool    \* what idle worker threads of the executor still hold (thread-locals outlive a future)
vars == <<ord, st, stack, frames, push, chk, waitfor, last, its, idone, onpool, ipool>>
NoTs == [stack |-> Empty, frames |-> << >>]

Init == /\ BInit /\ its = [t \in Threads |-> NoTs] /\ idone = [t \in Threads |-> {}]
        /\ onpool = [t \in Threads |-> FALSE] /\ ipool = {}
Same == UNCHANGED <<onpool, ipool>>

IBegin(t) == \E m \in Maps : BeginPush(t, m) /\ idone' = [idone EXCEPT ![t] = {}] /\ UNCHANGED its /\ Same
IPushOne(t) == /\ PushOne(t)
               /\ LET v == Head(push[t].todo) IN
                    /\ its' = [its EXCEPT ![t].stack = CellPush(@, v, push[t].m[v])]
                    /\ idone' = [idone EXCEPT ![t] = @ \cup {v}]
               /\ Same
(* the call raises: nothing else happens *)
IPushFail(t) == PushFail(t) /\ UNCHANGED <<its, idone>> /\ Same
(* Dev_NoRollbackOnPartialPush: the step at which the required specification rolls back is empty as built *)
IRollback(t) == /\ Rollback(t)
                /\ its' = IF NoRollback THEN its ELSE [its EXCEPT ![t].stack = PopAll(@, idone[t])]
                /\ idone' = [idone EXCEPT ![t] = {}] /\ Same
ICommit(t) == /\ CommitFrame(t)
              /\ its' = [its EXCEPT ![t].frames = Append(@, idone[t])]
              /\ idone' = [idone EXCEPT ![t] = {}] /\ Same
ISet(t) == \E v \in DynVars, x \in Vals : SetBang(t, v, x) /\ its' = [its EXCEPT ![t] = SetTop(@, v, x).ts] /\ UNCHANGED idone /\ Same
IPop(t) == Pop(t) /\ its' = [its EXCEPT ![t] = PopFrame(@)] /\ UNCHANGED idone /\ Same
IThrow(t) == \E n \in 1..MaxDepth : Throw(t, n) /\ its' = [its EXCEPT ![t] = OPopFrames(@, n)] /\ UNCHANGED idone /\ Same
(* future / pmap: the child runs on a new worker thread or on an idle one (with whatever that one still holds) *)
ISpawn(t) == \E c \in Threads, kind \in SpawnKinds :
               /\ Spawn(t, c, kind)
               /\ \E base \in (IF OnPool(kind) THEN ipool \cup {NoTs} ELSE {NoTs}) :
                    its' = [its EXCEPT ![c] = ChildOn(base, its[t], Conveys(kind), RootVal)]
               /\ onpool' = [onpool EXCEPT ![c] = OnPool(kind)]
               /\ UNCHANGED <<idone, ipool>>
(* the child's function returns: with-bindings* pops the conveyed frame; a worker thread becomes idle *)
IFinish(t) == /\ Finish(t)
              /\ its' = [its EXCEPT ![t] = NoTs]
              /\ ipool' = IF onpool[t] THEN (ipool \cup {PopFrame(its[t])}) \ {NoTs} ELSE ipool
              /\ onpool' = [onpool EXCEPT ![t] = FALSE]
              /\ UNCHANGED idone

Next == \E t \in Threads : \/ IBegin(t) \/ IPushOne(t) \/ IPushFail(t) \/ IRollback(t) \/ ICommit(t)
                           \/ ISet(t) \/ IPop(t) \/ IThrow(t) \/ ISpawn(t) \/ IFinish(t)
Spec == Init /\ [][Next]_vars

(* ---- what TLC checks ----------------------------------------------------------------------------- *)
AtRest(t) == st[t] \in {"live", "blocked"} /\ ~push[t].active
ImplAgrees == \A t \in Threads : AtRest(t) =>
                 /\ \A v \in DynVars : OVisible(its[t], v, RootVal) = Visible(t, v)
                 /\ OBound(its[t]) = Bound(t)
                 /\ Len(its[t].frames) = Len(frames[t])
Isolation == [][IsolationAct /\ \A u \in Threads : (u # last'.t /\ ~(last'.c = u /\ last'.act = "spawn")) => its'[u] = its[u]]_vars
Conveyance == [][ConveyanceAct]_vars
SetInnermost == [][SetInnermostAct]_vars
=======================================================================================
