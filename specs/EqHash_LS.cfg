CONSTANTS U <- UQ  DevBoolSeq = FALSE  DevBoolKey = FALSE  DevHashByRep = FALSE  KeySeq <- KeysQ  MaxDepth = 12
INIT InitL
NEXT NextLS
INVARIANT LookupRespectsEq
CONSTRAINT EmitL
CHECK_DEADLOCK FALSE
