---------------------------------- MODULE Bindings ----------------------------------
(* C11 -- required behaviour of dynamic Var bindings.                                         *)
(*                                                                                          *)
(* Every thread has, per dynamic Var, a stack of binding cells (the top is the visible value,  *)
(* an empty stack shows the root) and a stack of frames (which Vars each binding form bound).   *)
(* A thread runs a well-nested program:                                                        *)
(*   BeginPush(t, m) ; PushOne(t)* ; (CommitFrame(t) | PushFail(t) ; Rollback(t))              *)
(*       establish the binding form for the map m, ONE VAR AT A TIME in the iteration order     *)
(*       `ord` (arbitrary, chosen initially); pushing a Var fails when it is not dynamic or     *)
(*       when its validator rejects the value (Bad); a failed establishment is rolled back;     *)
(*   SetBang(t, v, x)   set! -- replaces the innermost binding cell of v in t (an error and no  *)
(*                      change when v has no binding in t);                                     *)
(*   Pop(t)             the innermost form is left normally;                                     *)
(*   Throw(t, n)        an exception leaves the n innermost forms;                               *)
(*   Spawn(t, c, kind)  t starts the thread c: future / bound-fn / pmap convey t's visible      *)
(*                      bindings (c starts with one frame holding them), a raw thread starts     *)
(*                      with nothing; pmap blocks t until c has finished;                         *)
(*   Finish(c)          c's function returns (all its own forms left).                            *)
(*                                                                                          *)
(* The property's clauses:                                                                     *)
(*   RestoredOnExit  on leaving a form by any path (Pop, Throw, failed establishment) every      *)
(*                   Var's stack of cells in that thread is the one it had before the form was   *)
(*                   entered (`saved`, a history component of each frame; set! on a cell that    *)
(*                   existed before the form was entered is, by definition, a change to that     *)
(*                   enclosing binding and is recorded in the snapshot);                          *)
(*   Isolation       a step of one thread changes no other thread's stacks or frames;             *)
(*   Conveyance      a conveyed child starts seeing exactly what its parent saw, a raw thread     *)
(*                   sees the roots;                                                              *)
(*   SetInnermost    set! changes exactly the top cell of that Var in the current thread.          *)
EXTENDS Integers, Sequences, FiniteSets, TLC

CONSTANTS Threads,     \* 1..n; thread 1 is alive initially
          DynVars,     \* the dynamic Vars
          NonDyn,      \* a Var that is not dynamic (may occur in a map: establishing fails there)
          Vals,        \* values a validator accepts
          Bad,         \* a value every validator rejects
          Maps,        \* the binding maps programs may use: functions from subsets of DynVars \cup {NonDyn}
          Orders,      \* iteration orders (sequences over DynVars \cup {NonDyn}) a map may have
          SpawnKinds,  \* subset of {"future", "boundfn", "pmap", "raw"}
          MaxDepth     \* forms nested per thread

RootVal == 0
AllVars == DynVars \cup {NonDyn}
NoPush == [m |-> << >>, todo |-> << >>, done |-> << >>, failed |-> FALSE, active |-> FALSE]
Empty == [v \in DynVars |-> << >>]
NoChk == [on |-> FALSE, stack |-> Empty]

VARIABLES ord,      \* the iteration order of maps in this behaviour
          st,       \* per thread: "unborn" | "live" | "blocked" | "done"
          stack,    \* per thread, per dynamic Var: sequence of binding cells
          frames,   \* per thread: sequence of [vars, saved, base]
          push,     \* per thread: the establishment in progress
          chk,      \* per thread: what the stacks must be right after the last exit from a form
          waitfor,  \* per thread: the child a pmap is waiting for (0: none)
          last      \* the last step: [t, act, c, v, conveyed] (for the action properties)
bvars == <<ord, st, stack, frames, push, chk, waitfor, last>>

Front(s) == SubSeq(s, 1, Len(s) - 1)
Last(s) == s[Len(s)]
Visible(t, v) == IF stack[t][v] = << >> THEN RootVal ELSE Last(stack[t][v])
Bound(t) == {v \in DynVars : stack[t][v] # << >>}
Range(s) == {s[i] : i \in 1..Len(s)}
OwnDepth(t) == Cardinality({i \in 1..Len(frames[t]) : ~frames[t][i].base})
Ready(t) == st[t] = "live" /\ ~push[t].active
Step(t, act, c, v) == last' = [t |-> t, act |-> act, c |-> c, v |-> v, kind |-> "-"]

BInit == /\ ord \in Orders
         /\ st = [t \in Threads |-> IF t = 1 THEN "live" ELSE "unborn"]
         /\ stack = [t \in Threads |-> Empty]
         /\ frames = [t \in Threads |-> << >>]
         /\ push = [t \in Threads |-> NoPush]
         /\ chk = [t \in Threads |-> NoChk]
         /\ waitfor = [t \in Threads |-> 0]
         /\ last = [t |-> 0, act |-> "init", c |-> 0, v |-> NonDyn, kind |-> "-"]

(* ---- establishing a binding form ------------------------------------------------------------- *)
BeginPush(t, m) ==
  /\ Ready(t) /\ OwnDepth(t) < MaxDepth
  /\ push' = [push EXCEPT ![t] = [m |-> m, todo |-> SelectSeq(ord, LAMBDA v : v \in DOMAIN m), done |-> << >>,
                                   failed |-> FALSE, active |-> TRUE]]
  /\ frames' = [frames EXCEPT ![t] = Append(@, [vars |-> {}, saved |-> stack[t], base |-> FALSE, open |-> TRUE])]
  /\ chk' = [chk EXCEPT ![t] = NoChk]
  /\ Step(t, "begin", 0, NonDyn)
  /\ UNCHANGED <<ord, st, stack, waitfor>>

Fails(m, v) == v = NonDyn \/ m[v] = Bad
PushOne(t) ==
  /\ st[t] = "live" /\ push[t].active /\ ~push[t].failed /\ push[t].todo # << >>
  /\ LET v == Head(push[t].todo) IN
       /\ ~Fails(push[t].m, v)
       /\ stack' = [stack EXCEPT ![t][v] = Append(@, push[t].m[v])]
       /\ push' = [push EXCEPT ![t] = [@ EXCEPT !.todo = Tail(@), !.done = Append(@, v)]]
       /\ Step(t, "pushone", 0, v)
  /\ UNCHANGED <<ord, st, frames, chk, waitfor>>

PushFail(t) ==
  /\ st[t] = "live" /\ push[t].active /\ ~push[t].failed /\ push[t].todo # << >>
  /\ Fails(push[t].m, Head(push[t].todo))
  /\ push' = [push EXCEPT ![t] = [@ EXCEPT !.failed = TRUE]]
  /\ Step(t, "pushfail", 0, Head(push[t].todo))
  /\ UNCHANGED <<ord, st, stack, frames, chk, waitfor>>

(* required: everything pushed so far is taken back, the form counts as left *)
Rollback(t) ==
  /\ st[t] = "live" /\ push[t].active /\ push[t].failed
  /\ stack' = [stack EXCEPT ![t] = [v \in DynVars |-> IF v \in Range(push[t].done) THEN Front(@[v]) ELSE @[v]]]
  /\ chk' = [chk EXCEPT ![t] = [on |-> TRUE, stack |-> Last(frames[t]).saved]]
  /\ frames' = [frames EXCEPT ![t] = Front(@)]
  /\ push' = [push EXCEPT ![t] = NoPush]
  /\ Step(t, "rollback", 0, NonDyn)
  /\ UNCHANGED <<ord, st, waitfor>>

CommitFrame(t) ==
  /\ st[t] = "live" /\ push[t].active /\ ~push[t].failed /\ push[t].todo = << >>
  /\ frames' = [frames EXCEPT ![t][Len(frames[t])] = [@ EXCEPT !.vars = Range(push[t].done), !.open = FALSE]]
  /\ push' = [push EXCEPT ![t] = NoPush]
  /\ Step(t, "commit", 0, NonDyn)
  /\ UNCHANGED <<ord, st, stack, chk, waitfor>>

(* ---- set! ----------------------------------------------------------------------------------------- *)
(* the cell that is replaced existed before every form entered after it was pushed: their snapshots follow *)
SetBang(t, v, x) ==
  /\ Ready(t) /\ v \in DynVars
  /\ IF stack[t][v] = << >>
       THEN UNCHANGED <<stack, frames>>                        \* not thread-bound: an error, nothing changes
       ELSE LET n == Len(stack[t][v]) IN
              /\ stack' = [stack EXCEPT ![t][v][n] = x]
              /\ frames' = [frames EXCEPT ![t] = [i \in 1..Len(@) |->
                               IF Len(@[i].saved[v]) >= n THEN [@[i] EXCEPT !.saved[v][n] = x] ELSE @[i]]]
  /\ chk' = [chk EXCEPT ![t] = NoChk]
  /\ Step(t, "set", 0, v)
  /\ UNCHANGED <<ord, st, push, waitfor>>

(* ---- leaving forms -------------------------------------------------------------------------------- *)
PopFrames(t, n) ==
  LET k == Len(frames[t])
      gone == {i \in (k - n + 1)..k : TRUE}
      cnt(v) == Cardinality({i \in gone : v \in frames[t][i].vars})
  IN /\ stack' = [stack EXCEPT ![t] = [v \in DynVars |-> SubSeq(@[v], 1, Len(@[v]) - cnt(v))]]
     /\ chk' = [chk EXCEPT ![t] = [on |-> TRUE, stack |-> frames[t][k - n + 1].saved]]
     /\ frames' = [frames EXCEPT ![t] = SubSeq(@, 1, k - n)]

Pop(t) == /\ Ready(t) /\ OwnDepth(t) >= 1
          /\ PopFrames(t, 1)
          /\ Step(t, "pop", 0, NonDyn)
          /\ UNCHANGED <<ord, st, push, waitfor>>

Throw(t, n) == /\ Ready(t) /\ n >= 1 /\ OwnDepth(t) >= n
               /\ PopFrames(t, n)
               /\ Step(t, "throw", n, NonDyn)
               /\ UNCHANGED <<ord, st, push, waitfor>>

(* ---- threads ---------------------------------------------------------------------------------------- *)
Conveys(kind) == kind # "raw"
Spawn(t, c, kind) ==
  /\ Ready(t) /\ st[c] = "unborn" /\ \A d \in Threads : d < c => st[d] # "unborn"
  /\ kind \in SpawnKinds
  /\ st' = [st EXCEPT ![c] = "live", ![t] = IF kind = "pmap" THEN "blocked" ELSE @]
  /\ waitfor' = [waitfor EXCEPT ![t] = IF kind = "pmap" THEN c ELSE @]
  /\ stack' = [stack EXCEPT ![c] = IF Conveys(kind)
                                     THEN [v \in DynVars |-> IF v \in Bound(t) THEN <<Visible(t, v)>> ELSE << >>]
                                     ELSE Empty]
  /\ frames' = [frames EXCEPT ![c] = IF Conveys(kind)
                                       THEN <<[vars |-> Bound(t), saved |-> Empty, base |-> TRUE, open |-> FALSE]>>
                                       ELSE << >>]
  /\ chk' = [chk EXCEPT ![t] = NoChk]
  /\ last' = [t |-> t, act |-> "spawn", c |-> c, v |-> NonDyn, kind |-> kind]
  /\ UNCHANGED <<ord, push>>

Finish(c) ==
  /\ Ready(c) /\ c # 1 /\ OwnDepth(c) = 0
  /\ st' = [t \in Threads |-> IF t = c THEN "done" ELSE IF waitfor[t] = c THEN "live" ELSE st[t]]
  /\ waitfor' = [t \in Threads |-> IF waitfor[t] = c THEN 0 ELSE waitfor[t]]
  /\ stack' = [stack EXCEPT ![c] = Empty]
  /\ frames' = [frames EXCEPT ![c] = << >>]
  /\ chk' = [chk EXCEPT ![c] = NoChk]
  /\ Step(c, "finish", 0, NonDyn)
  /\ UNCHANGED <<ord, push>>

TNext(t) == \/ \E m \in Maps : BeginPush(t, m)
            \/ PushOne(t) \/ PushFail(t) \/ Rollback(t) \/ CommitFrame(t)
            \/ \E v \in DynVars, x \in Vals : SetBang(t, v, x)
            \/ Pop(t)
            \/ \E n \in 1..MaxDepth : Throw(t, n)
            \/ \E c \in Threads, kind \in SpawnKinds : Spawn(t, c, kind)
            \/ Finish(t)
BNext == \E t \in Threads : TNext(t)

(* ---- the property ---------------------------------------------------------------------------------- *)
RestoredOnExit == \A t \in Threads : chk[t].on => stack[t] = chk[t].stack
(* frames and cells stay consistent: each Var has exactly one cell per committed frame that names it (+ pushes under way) *)
WellFormed == \A t \in Threads : \A v \in DynVars :
                 Len(stack[t][v]) = Cardinality({i \in 1..Len(frames[t]) : v \in frames[t][i].vars})
                                    + (IF push[t].active /\ v \in Range(push[t].done) THEN 1 ELSE 0)
IsolationAct == \A u \in Threads :
                  (u # last'.t /\ ~(last'.c = u /\ last'.act = "spawn"))
                     => (stack'[u] = stack[u] /\ frames'[u] = frames[u])
ConveyanceAct == \A c \in Threads :
                   (st[c] = "unborn" /\ st'[c] = "live") =>
                      \A v \in DynVars : Visible(c, v)' = IF last'.kind = "raw" THEN RootVal ELSE Visible(last'.t, v)
SetInnermostAct == last'.act = "set" /\ last' # last =>
                     LET t == last'.t  v == last'.v IN
                       /\ \A w \in DynVars \ {v} : stack'[t][w] = stack[t][w]
                       /\ Len(stack'[t][v]) = Len(stack[t][v])
                       /\ (stack[t][v] # << >> => Front(stack'[t][v]) = Front(stack[t][v]))
=====================================================================================
