----------------------------------- MODULE PyIR -----------------------------------
(* Operational semantics (big-step, recursive operators) of the Python subset that the  *)
(* code generator emits.  Part of the AS-BUILT model of C01/C02/C15.                    *)
(*                                                                                    *)
(* Expressions (field k): const(v) name(n) gname(n) prim(n) call(f,args) vec(xs)        *)
(*                        varref(n) mkexc(c) tramp(args) callall(e) attr(e,n) mcall(e,n,args) *)
(* Statements  (field s): assign(n,e) massign(ns,es) gassign(n,e) expr(e) if(t,a,b)     *)
(*                        while(body) break continue return(e) raise(e)                 *)
(*                        def(n,ps,body) try(body,hs,fin)                               *)
(*                        mdef(n,ars) with ars[i] = [def, nfix, var]: a function of several *)
(*                        arities = one def per arity + dispatch on the argument count      *)
(* State st: [fr: frames, gl: module globals set by def, log: effect markers]           *)
(*   frame = [vars: sequence of [n, v], parent: frame id or 0, fn: id of its function]  *)
(* Names are looked up through the parent chain AT THE TIME OF THE READ: closures       *)
(* capture variables by reference (Python's late binding).                              *)
(*                                                                                    *)
(* Deviation switch D.late:                                                            *)
(*   TRUE  (as built)  a `while` body runs in the function's own frame, loop variables  *)
(*                     are re-assigned in place, `except .. as n` deletes n afterwards  *)
(*   FALSE (ideal)     every iteration of a `while` runs in a fresh block frame and the *)
(*                     re-assignment of loop variables creates the next block frame;    *)
(*                     the handler's name survives -- i.e. one variable per binding     *)
EXTENDS LangValues

Deleted == [ty |-> "deleted"]
Unbound == [ty |-> "unbound"]      \* the value of a Var that has no root yet
NoName == [ty |-> "noname"]         \* lookup of a Python name that is not bound in any enclosing frame

RECURSIVE FindVar(_, _, _)
FindVar(fr, fid, nm) ==
  LET vs == fr[fid].vars
      hit == {i \in 1..Len(vs) : vs[i].n = nm}
  IN IF hit # {} THEN vs[CHOOSE i \in hit : TRUE].v
     ELSE IF fr[fid].parent = 0 THEN NoName ELSE FindVar(fr, fr[fid].parent, nm)

HasVar(fr, fid, nm) == \E i \in 1..Len(fr[fid].vars) : fr[fid].vars[i].n = nm
SetIn(fr, fid, nm, v) ==
  LET vs == fr[fid].vars
      hit == {i \in 1..Len(vs) : vs[i].n = nm}
      nvs == IF hit # {} THEN [i \in 1..Len(vs) |-> IF i \in hit THEN [n |-> nm, v |-> v] ELSE vs[i]]
             ELSE Append(vs, [n |-> nm, v |-> v])
  IN [fr EXCEPT ![fid].vars = nvs]
(* assignment: to the frame of the current function that already holds the name, else the innermost frame *)
RECURSIVE OwnerOf(_, _, _, _)
OwnerOf(fr, fid, nm, dflt) ==
  IF HasVar(fr, fid, nm) THEN fid
  ELSE IF fr[fid].parent # 0 /\ fr[fr[fid].parent].fn = fr[fid].fn THEN OwnerOf(fr, fr[fid].parent, nm, dflt)
  ELSE dflt
SetVar(fr, fid, nm, v) == SetIn(fr, OwnerOf(fr, fid, nm, fid), nm, v)
RECURSIVE SetAll(_, _, _, _, _)
SetAll(fr, fid, ns, vs, i) == IF i > Len(ns) THEN fr ELSE SetAll(SetVar(fr, fid, ns[i], vs[i]), fid, ns, vs, i + 1)
GLook(gl, nm) == LET hit == {i \in 1..Len(gl) : gl[i][1] = nm} IN
                   IF hit = {} THEN Unbound ELSE gl[CHOOSE i \in hit : \A j \in hit : j <= i][2]

EOk(v, st) == [v |-> v, st |-> st, ok |-> TRUE]
EErr(x, st) == [v |-> x, st |-> st, ok |-> FALSE]
XNext(st) == [ctl |-> "next", v |-> NilV, st |-> st]

RECURSIVE EvalE(_, _, _, _), EvalList(_, _, _, _), Exec(_, _, _, _), CallV(_, _, _, _), CallAll(_, _, _, _),
          Tramp(_, _, _, _), ExecWhile(_, _, _, _, _), ExecWhileCont(_, _, _, _, _)

EvalList(es, st, fid, D) ==
  IF es = <<>> THEN [vs |-> <<>>, st |-> st, ok |-> TRUE, x |-> NilV]
  ELSE LET h == EvalE(Head(es), st, fid, D) IN
         IF ~h.ok THEN [vs |-> <<>>, st |-> h.st, ok |-> FALSE, x |-> h.v]
         ELSE LET r == EvalList(Tail(es), h.st, fid, D)
              IN [vs |-> <<h.v>> \o r.vs, st |-> r.st, ok |-> r.ok, x |-> r.x]

CallAll(fs, st, acc, D) ==
  IF fs = <<>> THEN EOk(VecV(acc), st)
  ELSE LET r == CallV(Head(fs), <<>>, st, D) IN
         IF ~r.ok THEN r ELSE CallAll(Tail(fs), r.st, Append(acc, r.v), D)

(* a function whose body may `recur` is wrapped by the trampoline: re-invoke with the new arguments *)
Tramp(f, args, st, D) ==
  IF Len(args) # Len(f.def.ps) THEN EErr(ExcV("TypeError"), st)
  ELSE LET nf == [vars |-> [i \in 1..Len(f.def.ps) |-> [n |-> f.def.ps[i], v |-> args[i]]],
                  parent |-> f.frame, fn |-> Len(st.fr) + 1]
           st2 == [st EXCEPT !.fr = Append(@, nf)]
           r == Exec(f.def.body, st2, Len(st2.fr), D)
       IN IF r.ctl = "raise" THEN EErr(r.v, r.st)
          ELSE IF r.ctl = "return" /\ r.v.ty = "tramp" THEN Tramp(f, r.v.args, r.st, D)
          ELSE EOk(r.v, r.st)

CallV(f, args, st, D) ==
  CASE f.ty = "bi" -> LET r == Prim(f.n, args) IN
                        IF r.ok THEN EOk(r.v, IF r.mark # 0 THEN [st EXCEPT !.log = Append(@, r.mark)] ELSE st)
                        ELSE EErr(r.v, st)
    [] f.ty = "pyfn" -> Tramp(f, args, st, D)
    [] f.ty = "pymfn" ->     \* the dispatch function: exact fixed arity, else the variadic one, else an arity error
         LET fx == {i \in 1..Len(f.ars) : ~f.ars[i].var /\ f.ars[i].nfix = Len(args)}
             vr == {i \in 1..Len(f.ars) : f.ars[i].var /\ f.ars[i].nfix <= Len(args)}
             i == IF fx # {} THEN CHOOSE j \in fx : TRUE ELSE IF vr # {} THEN CHOOSE j \in vr : TRUE ELSE 0
         IN IF i = 0 THEN EErr(ArityError(Len(f.ars)), st)
            ELSE Tramp([ty |-> "pyfn", def |-> f.ars[i].def, frame |-> f.frame],
                       PackArgs(f.ars[i].nfix, f.ars[i].var, args), st, D)
    [] OTHER -> EErr(ExcV("TypeError"), st)

EvalE(e, st, fid, D) ==
  CASE e.k = "const" -> EOk(e.v, st)
    [] e.k = "name" -> LET v == FindVar(st.fr, fid, e.n) IN
                         IF v.ty \in {"deleted", "noname"} THEN EErr(ExcV("NameError"), st) ELSE EOk(v, st)
    [] e.k = "gname" -> EOk(GLook(st.gl, e.n), st)
    [] e.k = "prim" -> EOk([ty |-> "bi", n |-> e.n], st)
    [] e.k = "varref" -> EOk([ty |-> "var", n |-> e.n], st)
    [] e.k = "mkexc" -> EOk(ExcV(e.c), st)
    [] e.k = "vec" -> LET r == EvalList(e.xs, st, fid, D) IN IF r.ok THEN EOk(VecV(r.vs), r.st) ELSE EErr(r.x, r.st)
    [] e.k = "tramp" -> LET r == EvalList(e.args, st, fid, D) IN
                          IF r.ok THEN EOk([ty |-> "tramp", args |-> r.vs], r.st) ELSE EErr(r.x, r.st)
    [] e.k = "call" -> LET f == EvalE(e.f, st, fid, D) IN
                         IF ~f.ok THEN f
                         ELSE LET a == EvalList(e.args, f.st, fid, D) IN
                                IF ~a.ok THEN EErr(a.x, a.st) ELSE CallV(f.v, a.vs, a.st, D)
    [] e.k = "attr" -> LET r == EvalE(e.e, st, fid, D) IN
                         IF ~r.ok THEN r
                         ELSE IF r.v.ty # "obj" THEN EErr(ExcV("AttributeError"), r.st)
                         ELSE EOk(IF e.n = 0 THEN NilV ELSE IntV(e.n), [r.st EXCEPT !.log = Append(@, 100 + e.n)])
    [] e.k = "mcall" -> LET t == EvalE(e.e, st, fid, D) IN
                          IF ~t.ok THEN t
                          ELSE LET a == EvalList(e.args, t.st, fid, D) IN
                                 IF ~a.ok THEN EErr(a.x, a.st)
                                 ELSE IF t.v.ty # "obj" THEN EErr(ExcV("AttributeError"), a.st)
                                 ELSE EOk(VecV(a.vs), [a.st EXCEPT !.log = Append(@, 200 + e.n)])
    [] e.k = "callall" -> LET r == EvalE(e.e, st, fid, D) IN
                            IF ~r.ok THEN r
                            ELSE IF r.v.ty # "vec" THEN EErr(ExcV("TypeError"), r.st)
                            ELSE CallAll(r.v.xs, r.st, <<>>, D)

FirstH(hs, c) == LET ok == {i \in 1..Len(hs) : Handles(hs[i].c, c)} IN
                   IF ok = {} THEN 0 ELSE CHOOSE i \in ok : \A j \in ok : i <= j

(* `while True:`; in ideal mode each iteration owns a block frame, `pend` is the frame made by massign *)
ExecWhile(s, rest, st, fid, D) ==
  LET bf == IF D.late THEN fid ELSE Len(st.fr) + 1
      st1 == IF D.late THEN st
             ELSE [st EXCEPT !.fr = Append(@, [vars |-> <<>>, parent |-> fid, fn |-> st.fr[fid].fn])]
      r == Exec(s.body, st1, bf, D)
  IN CASE r.ctl = "break" -> Exec(rest, r.st, fid, D)
       [] r.ctl = "continue" -> IF D.late THEN ExecWhile(s, rest, r.st, fid, D)
                                ELSE \* the next iteration runs in the frame that massign prepared
                                     LET r2 == Exec(s.body, r.st, r.v.i, D) IN
                                       ExecWhileCont(s, rest, r2, fid, D)
       [] r.ctl = "next" -> ExecWhile(s, rest, r.st, fid, D)
       [] OTHER -> r

ExecWhileCont(s, rest, r, fid, D) ==
  CASE r.ctl = "break" -> Exec(rest, r.st, fid, D)
    [] r.ctl = "continue" -> ExecWhileCont(s, rest, Exec(s.body, r.st, r.v.i, D), fid, D)
    [] r.ctl = "next" -> ExecWhile(s, rest, r.st, fid, D)
    [] OTHER -> r

Exec(ss, st, fid, D) ==
  IF ss = <<>> THEN XNext(st)
  ELSE LET s == Head(ss) rest == Tail(ss) IN
    CASE s.s = "assign" -> LET r == EvalE(s.e, st, fid, D) IN
                             IF ~r.ok THEN [ctl |-> "raise", v |-> r.v, st |-> r.st]
                             ELSE Exec(rest, [r.st EXCEPT !.fr = SetVar(@, fid, s.n, r.v)], fid, D)
      [] s.s = "gassign" -> LET r == EvalE(s.e, st, fid, D) IN
                              IF ~r.ok THEN [ctl |-> "raise", v |-> r.v, st |-> r.st]
                              ELSE Exec(rest, [r.st EXCEPT !.gl = Append(@, <<s.n, r.v>>)], fid, D)
      [] s.s = "massign" ->
           LET r == EvalList(s.es, st, fid, D) IN
             IF ~r.ok THEN [ctl |-> "raise", v |-> r.x, st |-> r.st]
             ELSE IF D.late THEN Exec(rest, [r.st EXCEPT !.fr = SetAll(@, fid, s.ns, r.vs, 1)], fid, D)
             ELSE \* ideal: the new values live in a fresh block frame, a sibling of this iteration's frame
                  LET nf == [vars |-> [i \in 1..Len(s.ns) |-> [n |-> s.ns[i], v |-> r.vs[i]]],
                             parent |-> st.fr[fid].parent, fn |-> st.fr[fid].fn]
                      st2 == [r.st EXCEPT !.fr = Append(@, nf)]
                  IN [ctl |-> "continue", v |-> IntV(Len(st2.fr)), st |-> st2]
      [] s.s = "expr" -> LET r == EvalE(s.e, st, fid, D) IN
                           IF ~r.ok THEN [ctl |-> "raise", v |-> r.v, st |-> r.st] ELSE Exec(rest, r.st, fid, D)
      [] s.s = "def" -> Exec(rest, [st EXCEPT !.fr = SetVar(@, fid, s.n, [ty |-> "pyfn", def |-> s, frame |-> fid])], fid, D)
      [] s.s = "mdef" -> Exec(rest, [st EXCEPT !.fr = SetVar(@, fid, s.n, [ty |-> "pymfn", ars |-> s.ars, frame |-> fid])], fid, D)
      [] s.s = "return" -> LET r == EvalE(s.e, st, fid, D) IN
                             IF ~r.ok THEN [ctl |-> "raise", v |-> r.v, st |-> r.st]
                             ELSE [ctl |-> "return", v |-> r.v, st |-> r.st]
      [] s.s = "raise" -> LET r == EvalE(s.e, st, fid, D) IN
                            [ctl |-> "raise", v |-> IF r.ok /\ r.v.ty # "exc" THEN ExcV("TypeError") ELSE r.v, st |-> r.st]
      [] s.s = "break" -> [ctl |-> "break", v |-> NilV, st |-> st]
      [] s.s = "continue" -> [ctl |-> "continue", v |-> IntV(fid), st |-> st]
      [] s.s = "if" -> LET tv == FindVar(st.fr, fid, s.t)
                           r == Exec(IF Truthy(tv) THEN s.a ELSE s.b, st, fid, D)
                       IN IF r.ctl = "next" THEN Exec(rest, r.st, fid, D) ELSE r
      [] s.s = "while" -> ExecWhile(s, rest, st, fid, D)
      [] s.s = "try" ->
           LET r1 == Exec(s.body, st, fid, D)
               h == IF r1.ctl = "raise" THEN FirstH(s.hs, r1.v.c) ELSE 0
               r2 == IF h = 0 THEN r1
                     ELSE LET stb == [r1.st EXCEPT !.fr = SetVar(@, fid, s.hs[h].n, r1.v)]
                              rh == Exec(s.hs[h].body, stb, fid, D)
                          IN IF D.late THEN [rh EXCEPT !.st.fr = SetVar(@, fid, s.hs[h].n, Deleted)] ELSE rh
               rf == IF s.fin = <<>> THEN XNext(r2.st) ELSE Exec(s.fin, r2.st, fid, D)
           IN IF rf.ctl # "next" THEN rf                     \* the finally block itself left abruptly
              ELSE IF r2.ctl = "next" THEN Exec(rest, rf.st, fid, D)
              ELSE [r2 EXCEPT !.st = rf.st]
===================================================================================
