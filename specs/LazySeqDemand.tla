------------------------------ MODULE LazySeqDemand ------------------------------
(* C06, "nothing is computed beyond what some consumer has demanded", single consumer.   *)
(*                                                                                    *)
(* Part 1 -- the history machine.  A lazy sequence of L elements is the chain of cells   *)
(* 1..L+1 (cell L+1: the end).  The consumer holds a handle on cell p and performs first  *)
(* / rest / next / seq / count / nth1 (= (nth h 1)) on it, steps a Python iterator        *)
(* (iter: created on the handle held at its first use) or goes back to the head.  The     *)
(* machine gives, after every operation, the result and `dem`, the highest cell any       *)
(* operation so far has needed to look at:                                                *)
(*   first, seq, rest need the cell of the handle (rest must know whether there is a rest) *)
(*   next needs that cell and the following one (it answers nil when nothing follows)      *)
(*   count needs every cell; nth1 the cell of the handle and the next; an iterator step    *)
(*   the cell the iterator stands on.                                                     *)
(* Cells 1..dem are exactly what may be realized; L = Inf: the sequence never ends.        *)
(*                                                                                    *)
(* Part 2 -- the constructs.  Need(con, d): how many steps of each instrumented source      *)
(* (cells of a source lazy sequence, calls of f / pred, __next__ calls of a Python          *)
(* iterator) are needed to know output cells 1..d -- derived from what the function means:  *)
(*   lazy     the sequence itself                                  cells: d                *)
(*   map      (map f src), |src| = 3        out k = f(src k)        src: d, f: min(d, 3)    *)
(*   filter   (filter pred src), |src| = 5, pred keeps 2, 3, 5: out k = k-th kept; the end   *)
(*            is known only after the whole source                  src: 2, 3, 5, 6          *)
(*   concat   (concat a b), |a| = 2, |b| = 1: out 3 needs the end of a and the head of b      *)
(*   take     (take 2 src), |src| = 3: the end of the output needs nothing more of src        *)
(*   drop     (drop 1 src), |src| = 4: out k = src k+1                                        *)
(*   iterate  (iterate f x): out 1 = x needs no call of f, out k needs k-1 calls              *)
(*   pyseq    seq over a Python iterable of 3 items: out k needs k calls of __next__ (the      *)
(*            end: the call that raises StopIteration); `dem0` = 1 when creating the seq       *)
(*            itself already looks at the first item (`(seq obj)`)                             *)
EXTENDS Integers, Sequences, FiniteSets, TLC, Json

CONSTANTS MaxLen, Modes       \* history length; subset of {"L2", "L3", "inf"}

Inf == 99
LOf(m) == CASE m = "L2" -> 2 [] m = "L3" -> 3 [] OTHER -> Inf
NilV     == [ty |-> "nil",   i |-> 0]
IntV(i)  == [ty |-> "int",   i |-> i]
CellV(c) == [ty |-> "cell",  i |-> c]
SeqV(c)  == [ty |-> "seq",   i |-> c]
EmptyV   == [ty |-> "empty", i |-> 0]
StopV    == [ty |-> "stop",  i |-> 0]      \* StopIteration
IndexV   == [ty |-> "exc",   i |-> 2]      \* IndexError of nth
NoneV    == [ty |-> "none",  i |-> 0]      \* no result (head)
Max(a, b) == IF a > b THEN a ELSE b
Min(a, b) == IF a < b THEN a ELSE b

VARIABLES mode, hist, p, live, dem, ip
vars == <<mode, hist, p, live, dem, ip>>
L == LOf(mode)

Init == mode \in Modes /\ hist = <<>> /\ p = 1 /\ live = TRUE /\ dem = 0 /\ ip = 0

Rec(op, res, d) == hist' = Append(hist, [op |-> op, res |-> res, dem |-> d])
Keep == UNCHANGED <<mode>>

First == /\ live /\ Rec("first", IF p > L THEN NilV ELSE IntV(p), Max(dem, p))
         /\ dem' = Max(dem, p) /\ UNCHANGED <<p, live, ip>> /\ Keep
SeqOp == /\ live /\ Rec("seq", IF p > L THEN NilV ELSE SeqV(p), Max(dem, p))
         /\ dem' = Max(dem, p) /\ live' = (p <= L) /\ UNCHANGED <<p, ip>> /\ Keep
Rest == /\ live /\ Rec("rest", IF p > L THEN EmptyV ELSE CellV(p + 1), Max(dem, p))
        /\ dem' = Max(dem, p) /\ p' = (IF p > L THEN p ELSE p + 1) /\ UNCHANGED <<live, ip>> /\ Keep
NextOp == /\ live
          /\ LET d == IF p > L THEN Max(dem, p) ELSE Max(dem, p + 1)
                 more == p <= L /\ p + 1 <= L IN
               /\ Rec("next", IF more THEN SeqV(p + 1) ELSE NilV, d)
               /\ dem' = d /\ live' = more /\ p' = (IF more THEN p + 1 ELSE p)
          /\ UNCHANGED ip /\ Keep
Count == /\ live /\ L # Inf
         /\ Rec("count", IntV(L + 1 - p), L + 1)
         /\ dem' = L + 1 /\ UNCHANGED <<p, live, ip>> /\ Keep
Nth1 == /\ live
        /\ LET d == IF p > L THEN Max(dem, p) ELSE Max(dem, p + 1) IN
             /\ Rec("nth1", IF p + 1 <= L THEN IntV(p + 1) ELSE IndexV, d)
             /\ dem' = d
        /\ UNCHANGED <<p, live, ip>> /\ Keep
Iter == /\ (live \/ ip # 0)
        /\ LET q == IF ip = 0 THEN p ELSE ip IN
             /\ Rec("iter", IF q > L THEN StopV ELSE IntV(q), Max(dem, q))
             /\ dem' = Max(dem, q) /\ ip' = (IF q > L THEN q ELSE q + 1)
        /\ UNCHANGED <<p, live>> /\ Keep
GoHead == /\ (p # 1 \/ ~live)
        /\ Rec("head", NoneV, dem) /\ p' = 1 /\ live' = TRUE /\ UNCHANGED <<dem, ip>> /\ Keep

Next == Len(hist) < MaxLen /\ (First \/ SeqOp \/ Rest \/ NextOp \/ Count \/ Nth1 \/ Iter \/ GoHead)
Spec == Init /\ [][Next]_vars

(* ---- what the machine itself must satisfy -------------------------------------------------- *)
DemMonotone == \A i \in 1..(Len(hist) - 1) : hist[i].dem <= hist[i + 1].dem
DemBounded == dem <= (IF L = Inf THEN 2 * MaxLen + 1 ELSE L + 1) /\ p <= L + 1
(* a result that names an element or a cell is about a cell that has been demanded *)
ResultsDemanded == \A i \in 1..Len(hist) : hist[i].res.ty \in {"int", "seq"} /\ hist[i].op # "count" => hist[i].res.i <= hist[i].dem
CellAfterDemand == \A i \in 1..Len(hist) : hist[i].res.ty = "cell" => hist[i].res.i = hist[i].dem + 1 \/ hist[i].res.i <= hist[i].dem

(* ---- Part 2 ------------------------------------------------------------------------------- *)
KeepSet == {2, 3, 5}
RECURSIVE KthKept(_, _)
KthKept(k, from) == IF from \in KeepSet THEN (IF k = 1 THEN from ELSE KthKept(k - 1, from + 1)) ELSE KthKept(k, from + 1)
Cons == [lazy    |-> [mode |-> "L3",  dem0 |-> 0],
         map     |-> [mode |-> "L3",  dem0 |-> 0],
         filter  |-> [mode |-> "L3",  dem0 |-> 0],
         concat  |-> [mode |-> "L3",  dem0 |-> 0],
         take    |-> [mode |-> "L2",  dem0 |-> 0],
         map2    |-> [mode |-> "L2",  dem0 |-> 0],      \* (map f short long): 2-element src, longer lazy b
         drop    |-> [mode |-> "L3",  dem0 |-> 0],
         iterate |-> [mode |-> "inf", dem0 |-> 0],
         pyseq   |-> [mode |-> "L3",  dem0 |-> 0],
         pyseq1  |-> [mode |-> "L3",  dem0 |-> 1]]
Need(con, d) ==
  CASE con = "lazy"    -> [src |-> d]
    [] con = "map"     -> [src |-> d, f |-> Min(d, 3)]
    [] con = "filter"  -> [src |-> IF d = 0 THEN 0 ELSE IF d <= 3 THEN KthKept(d, 1) ELSE 6,
                           f |-> IF d = 0 THEN 0 ELSE IF d <= 3 THEN KthKept(d, 1) ELSE 5]
    [] con = "concat"  -> [src |-> Min(d, 3), b |-> Max(0, d - 2)]
    [] con = "take"    -> [src |-> Min(d, 2)]
    \* the shorter first collection ends the result: once it is exhausted the longer one is not asked again
    [] con = "map2"    -> [src |-> Min(d, 3), b |-> Min(d, 2), f |-> Min(d, 2)]
    [] con = "drop"    -> [src |-> IF d = 0 THEN 0 ELSE d + 1]
    [] con = "iterate" -> [f |-> Max(0, d - 1)]
    [] con \in {"pyseq", "pyseq1"} -> [src |-> d]
MaxD(m) == IF LOf(m) = Inf THEN 2 * MaxLen + 1 ELSE LOf(m) + 1
(* demand is monotone in every counter, and knowing nothing costs nothing *)
NeedSane == \A con \in DOMAIN Cons : LET m == Cons[con].mode IN
              /\ \A k \in DOMAIN Need(con, 0) : Need(con, 0)[k] = 0
              /\ \A d \in 0..(MaxD(m) - 1) : \A k \in DOMAIN Need(con, d) : Need(con, d)[k] <= Need(con, d + 1)[k]
ASSUME NeedSane

EmitTab == (hist = <<>>) =>
   \A con \in {c \in DOMAIN Cons : Cons[c].mode = mode} :
      PrintT(<<"TAB", ToJson([con |-> con, mode |-> mode, dem0 |-> Cons[con].dem0,
                              need |-> [d \in 0..MaxD(mode) |-> Need(con, d)]])>>)
(* a history leaves TLC as one integer per step: op * 100000 + result type * 10000 + result.i * 100 + dem *)
OpIdx(op) == CASE op = "first" -> 0 [] op = "seq" -> 1 [] op = "rest" -> 2 [] op = "next" -> 3 [] op = "count" -> 4
               [] op = "nth1" -> 5 [] op = "iter" -> 6 [] op = "head" -> 7
TyIdx(ty) == CASE ty = "nil" -> 0 [] ty = "int" -> 1 [] ty = "cell" -> 2 [] ty = "seq" -> 3 [] ty = "empty" -> 4
               [] ty = "stop" -> 5 [] ty = "exc" -> 6 [] ty = "none" -> 7
Code(st) == OpIdx(st.op) * 100000 + TyIdx(st.res.ty) * 10000 + st.res.i * 100 + st.dem
EmitBeh == (Len(hist) = MaxLen) => PrintT(<<"BEH", ToJson([m |-> mode, h |-> [i \in 1..Len(hist) |-> Code(hist[i])]])>>)
Emit == EmitTab /\ EmitBeh
===================================================================================
