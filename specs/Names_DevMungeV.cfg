\* negative job: MungeCollision on -- shortest history after which a read yields another name's value
CONSTANTS
  NameSeq <- ClassSeq
  Munge <- MungeAll
  Ambient <- AmbientCls
  Flags <- FlagsAll
  Toggle = TRUE
  AllowAlter = TRUE
  Definers = {"A", "B"}
  MaxLen = 4
SPECIFICATION GSpec
INVARIANT WitnessMungeValue
CHECK_DEADLOCK FALSE
