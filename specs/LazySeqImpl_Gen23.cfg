CONSTANTS Threads <- T2  N = 3  FailPolicy = "retry"  Progs <- ProgsW  Plans <- PlansK3
          LockUnderGIL = FALSE  ErrLeavesComputing = FALSE  Record = TRUE  Steer = TRUE
SPECIFICATION Spec
INVARIANT Simulates
CONSTRAINT Emit
