----------------------------- MODULE LazySeqImpl_Trace -----------------------------
(* Classification of an execution that LazySeq.tla rejects (or that froze): is it exactly   *)
(* what the as-built model LazySeqImpl.tla does with the named deviations switched on in     *)
(* the trace file?  Events as in LazySeq_Trace (park/resume are steps of the model here);     *)
(* every other step of the mechanism is silent.                                              *)
(*   ACC  every event consumed, no call pending                                              *)
(*   HNG  (trace of a frozen interpreter) every event consumed and the model is in the state  *)
(*        in which nothing can ever move: a thread sits in lock() holding the interpreter     *)
(*        lock while the mutex belongs to another thread                                     *)
EXTENDS Integers, Sequences, FiniteSets, TLC, Json, IOUtils

Traces == JsonDeserialize(IOEnv.TRACE_FILE)
Threads == 1..3
N == Traces[1].n
LockUnderGIL == Traces[1].devlock
ErrLeavesComputing == Traces[1].deverr
VARIABLES tid, l, gil, mown, mcnt, lst, fr
INSTANCE LazySeqImpl
vars == <<tid, l, gil, mown, mcnt, lst, fr>>

Tr == Traces[tid].ev
Ev == Tr[l]
Init == tid \in 1..Len(Traces) /\ l = 1 /\ IInit
Consume == l' = l + 1 /\ UNCHANGED tid
Is(k) == l <= Len(Tr) /\ Ev.k = k

TCall   == Is("call") /\ ICall(Ev.t, Ev.op, Ev.c) /\ Consume
TStart  == Is("pstart") /\ IPStart(Ev.t, Ev.c) /\ Consume
TPark   == Is("park") /\ IPark(Ev.t) /\ Consume
TResume == Is("resume") /\ IResume(Ev.t) /\ Consume
TEnd    == Is("pend") /\ IPEnd(Ev.t, Ev.c, Ev.ok) /\ Consume
TRet    == Is("ret") /\ IRet(Ev.t, Ev.res) /\ Consume
TSilent(t) == Internal(t) /\ UNCHANGED <<tid, l>>

Next == TCall \/ TStart \/ TPark \/ TResume \/ TEnd \/ TRet \/ \E t \in Threads : TSilent(t)
Spec == Init /\ [][Next]_vars

Frozen == \E b \in Threads : gil = b /\ AtPc(b, "blocked") /\ mown[ITop(b).cur] \notin {0, b}
Accept == /\ (l = Len(Tr) + 1 /\ ~Traces[tid].hang /\ \A t \in Threads : fr[t] = <<>>) => PrintT(<<"ACC", Traces[tid].id>>)
          /\ (l = Len(Tr) + 1 /\ Traces[tid].hang /\ Frozen) => PrintT(<<"HNG", Traces[tid].id>>)
====================================================================================
