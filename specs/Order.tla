---------------------------------- MODULE Order ----------------------------------
(* C17 -- compare is a consistent total order on each family of mutually comparable   *)
(* values, and sort / sort-by return the ordered, stable permutation of their input.  *)
(*                                                                                    *)
(* Two machines share this module:                                                    *)
(*   T  (InitT/NextT)  one state per (family, a, b, c): the order laws are invariants *)
(*   S  (InitS/NextS)  a stable insertion sort as a state machine; its final state is *)
(*                     the specification of sort / sort-by on that input              *)
(* Values are tagged records; texts are sequences of code-point ranks; numbers are    *)
(* exact rationals n/d with a representation tag (int, float, ratio, dec).            *)
EXTENDS Integers, Sequences, FiniteSets, TLC, Json

CONSTANTS MaxLen,      \* sort machine: inputs of length 0..MaxLen over the whole family
          SubLen,      \* ... and of length 0..SubLen over the first 6 elements of a family
          NoNsFirst    \* the property orders namespaced names "by namespace and then name" and is silent on
                       \* where names WITHOUT a namespace go: TRUE = before all namespaced ones (Clojure, and the
                       \* implementation), FALSE = after them (what the docstring of compare says).  TLC checks the
                       \* order laws for both; the driver uses the convention the implementation exhibits.

Nil == [ty |-> "nil"]
Num(k, n, d) == [ty |-> "num", k |-> k, n |-> n, d |-> d]
Str(cs) == [ty |-> "str", cs |-> cs]
Kw(ns, nm) == [ty |-> "kw", ns |-> ns, nm |-> nm]      \* ns = <<>> : no namespace
Sym(ns, nm) == [ty |-> "sym", ns |-> ns, nm |-> nm]
Vec(xs) == [ty |-> "vec", xs |-> xs]
I(n) == Num("int", n, 1)

(* ------------------------------ the universes ------------------------------------ *)
(* every family is a sequence so that an element is named by its index                *)
A == <<1>>  B == <<2>>  AB == <<1, 2>>  NONE == <<>>
U == [
  num    |-> << I(0), I(1), I(-2), Num("float", 1, 1), Num("float", 3, 2), Num("ratio", 3, 2),
               Num("ratio", 1, 3), Num("float", -1, 2), Num("dec", 1, 1), Num("dec", 5, 2),
               I(100000), Num("float", 0, 1), Nil >>,
  str    |-> << Str(<<>>), Str(<<2>>), Str(<<1>>), Str(<<2, 3>>), Str(<<3>>), Str(<<2, 2>>),
               Str(<<4>>), Str(<<5>>), Str(<<6>>), Str(<<2, 5>>), Str(<<2, 4>>), Str(<<3, 1>>), Nil >>,
  kw     |-> << Kw(NONE, A), Kw(NONE, B), Kw(A, A), Kw(A, B), Kw(B, A), Kw(B, B), Kw(AB, A),
               Kw(A, AB), Kw(NONE, AB), Kw(B, AB), Kw(AB, B), Kw(AB, AB), Nil >>,
  sym    |-> << Sym(NONE, A), Sym(NONE, B), Sym(A, A), Sym(A, B), Sym(B, A), Sym(B, B), Sym(AB, A),
               Sym(A, AB), Sym(NONE, AB), Sym(B, AB), Sym(AB, B), Sym(AB, AB), Nil >>,
  vecnum |-> << Vec(<<>>), Vec(<<I(1)>>), Vec(<<I(2)>>), Vec(<<I(1), I(2)>>), Vec(<<I(2), I(1)>>),
               Vec(<<I(1), I(1)>>), Vec(<<Num("float", 1, 1), I(2)>>), Vec(<<I(1), I(2), I(0)>>),
               Vec(<<I(0), I(0), I(0)>>), Vec(<<Num("ratio", 3, 2)>>), Vec(<<I(2), I(2)>>),
               Vec(<<I(-2)>>), Nil >>,
  veckw  |-> << Vec(<<>>), Vec(<<Kw(NONE, A)>>), Vec(<<Kw(B, A)>>), Vec(<<Kw(A, B)>>),
               Vec(<<Kw(A, B), Kw(NONE, A)>>), Vec(<<Kw(B, A), Kw(NONE, A)>>),
               Vec(<<Vec(<<Kw(B, A)>>)>>), Vec(<<Vec(<<Kw(A, B)>>)>>), Vec(<<Kw(NONE, B)>>),
               Vec(<<Kw(A, AB)>>), Vec(<<Kw(AB, A)>>), Vec(<<Kw(A, A), Kw(B, B)>>), Nil >>
]
Fams == DOMAIN U

(* pairs the property does not call mutually comparable: Python has no order between   *)
(* Decimal and Fraction, so (compare 1.5M 3/2) is left unspecified; vectors of equal    *)
(* length are comparable only when their elements are, position by position             *)
RECURSIVE Comparable(_, _)
Comparable(x, y) ==
  IF x.ty = "nil" \/ y.ty = "nil" THEN TRUE
  ELSE IF x.ty # y.ty THEN FALSE
  ELSE CASE x.ty = "num" -> {x.k, y.k} # {"dec", "ratio"}
         [] x.ty = "vec" -> Len(x.xs) # Len(y.xs)
                            \/ \A i \in 1..Len(x.xs) : x.xs[i].ty # "nil" /\ y.xs[i].ty # "nil"
                                                       /\ Comparable(x.xs[i], y.xs[i])
         [] OTHER -> TRUE

(* ------------------------------ the order ---------------------------------------- *)
Sign(i) == IF i < 0 THEN -1 ELSE IF i > 0 THEN 1 ELSE 0

RECURSIVE LexCmp(_, _)
LexCmp(s, t) == IF s = <<>> THEN (IF t = <<>> THEN 0 ELSE -1)
                ELSE IF t = <<>> THEN 1
                ELSE IF Head(s) # Head(t) THEN Sign(Head(s) - Head(t))
                ELSE LexCmp(Tail(s), Tail(t))

CmpNum(x, y) == Sign(x.n * y.d - y.n * x.d)

CmpName(x, y) == IF x.ns = <<>> /\ y.ns = <<>> THEN LexCmp(x.nm, y.nm)
                 ELSE IF x.ns = <<>> THEN (IF NoNsFirst THEN -1 ELSE 1)
                 ELSE IF y.ns = <<>> THEN (IF NoNsFirst THEN 1 ELSE -1)
                 ELSE IF LexCmp(x.ns, y.ns) # 0 THEN LexCmp(x.ns, y.ns)
                 ELSE LexCmp(x.nm, y.nm)

RECURSIVE Cmp(_, _), CmpElems(_, _)
Cmp(x, y) ==
  IF x.ty = "nil" THEN (IF y.ty = "nil" THEN 0 ELSE -1)
  ELSE IF y.ty = "nil" THEN 1
  ELSE CASE x.ty = "num" -> CmpNum(x, y)
         [] x.ty = "str" -> LexCmp(x.cs, y.cs)
         [] x.ty \in {"kw", "sym"} -> CmpName(x, y)
         [] x.ty = "vec" -> IF Len(x.xs) # Len(y.xs) THEN Sign(Len(x.xs) - Len(y.xs))
                            ELSE CmpElems(x.xs, y.xs)
CmpElems(s, t) == IF s = <<>> THEN 0
                  ELSE IF Cmp(Head(s), Head(t)) # 0 THEN Cmp(Head(s), Head(t))
                  ELSE CmpElems(Tail(s), Tail(t))

(* equality as the language defines it: numbers by value, everything else structurally *)
RECURSIVE Eq(_, _)
Eq(x, y) == IF x.ty # y.ty THEN FALSE
            ELSE CASE x.ty = "num" -> x.n * y.d = y.n * x.d
                   [] x.ty = "vec" -> Len(x.xs) = Len(y.xs) /\ \A i \in 1..Len(x.xs) : Eq(x.xs[i], y.xs[i])
                   [] OTHER -> x = y

VARIABLES fam, a, b, c,          \* machine T
          inp, todo, done, dir   \* machine S: input keys (indices), positions left, sorted positions
vars == <<fam, a, b, c, inp, todo, done, dir>>

El(i) == U[fam][i]
N == Len(U[fam])

(* ------------------------------ machine T ---------------------------------------- *)
InitT == /\ fam \in Fams /\ a \in 1..Len(U[fam]) /\ b \in 1..Len(U[fam]) /\ c \in 1..Len(U[fam])
         /\ inp = <<>> /\ todo = <<>> /\ done = <<>> /\ dir = 1
NextT == UNCHANGED vars

Antisymmetric == Comparable(El(a), El(b)) => Cmp(El(a), El(b)) = -Cmp(El(b), El(a))
Transitive == (Comparable(El(a), El(b)) /\ Comparable(El(b), El(c)) /\ Comparable(El(a), El(c))
               /\ Cmp(El(a), El(b)) <= 0 /\ Cmp(El(b), El(c)) <= 0) => Cmp(El(a), El(c)) <= 0
ZeroIffEqual == Comparable(El(a), El(b)) => ((Cmp(El(a), El(b)) = 0) <=> Eq(El(a), El(b)))
EqTransitive == (Eq(El(a), El(b)) /\ Eq(El(b), El(c))) => Eq(El(a), El(c))
(* anti-vacuity: the namespace-then-name clause really orders something the naive rule  *)
(* "ns < ns' or name < name'" orders differently                                        *)
NsThenNameMatters == \E x, y \in 1..Len(U["kw"]) :
      LET p == U["kw"][x]  q == U["kw"][y] IN
        p.ty = "kw" /\ q.ty = "kw" /\ p.ns # <<>> /\ q.ns # <<>>
        /\ Cmp(p, q) = 1 /\ LexCmp(p.nm, q.nm) = -1
ASSUME NsThenNameMatters

(* table rows leave TLC once per (fam, a): printed from the state with b = c = 1 *)
Row == [j \in 1..N |-> IF Comparable(El(a), El(j)) THEN Cmp(El(a), El(j)) ELSE 9]
EqRow == [j \in 1..N |-> IF Eq(El(a), El(j)) THEN 1 ELSE 0]
EmitT == (b = 1 /\ c = 1) =>
            PrintT(<<"TAB", ToJson([fam |-> fam, i |-> a, el |-> El(a), cmp |-> Row, eq |-> EqRow])>>)

(* ------------------------------ machine S ---------------------------------------- *)
SeqsUpTo(S, n) == UNION {[1..k -> S] : k \in 0..n}
Inputs(f) == SeqsUpTo(1..Len(U[f]), MaxLen) \cup SeqsUpTo(1..6, SubLen)
SortableInput(f, s) == \A i, j \in 1..Len(s) : Comparable(U[f][s[i]], U[f][s[j]])

InitS == /\ fam \in Fams /\ dir \in {1, -1}
         /\ inp \in {s \in Inputs(fam) : SortableInput(fam, s)}
         /\ todo = [i \in 1..Len(inp) |-> i] /\ done = <<>>
         /\ a = 1 /\ b = 1 /\ c = 1

Key(p) == El(inp[p])
After(p, q) == dir * Cmp(Key(p), Key(q)) > 0       \* p must come after q

(* stable insertion: the next position goes in front of the first one that must follow it *)
Insert == /\ todo # <<>>
          /\ LET p == Head(todo)
                 later == {k \in 1..Len(done) : After(done[k], p)}
                 at == IF later = {} THEN Len(done) + 1 ELSE CHOOSE k \in later : \A m \in later : k <= m
             IN done' = SubSeq(done, 1, at - 1) \o <<p>> \o SubSeq(done, at, Len(done))
          /\ todo' = Tail(todo)
          /\ UNCHANGED <<fam, a, b, c, inp, dir>>
NextS == Insert

Ordered == \A k \in 1..(Len(done) - 1) : ~After(done[k], done[k + 1])
Stable == \A k \in 1..(Len(done) - 1) :
             (dir * Cmp(Key(done[k]), Key(done[k + 1])) = 0) => done[k] < done[k + 1]
Permutation == (todo = <<>>) => (Len(done) = Len(inp) /\ {done[k] : k \in 1..Len(done)} = 1..Len(inp))
EmitS == (todo = <<>>) =>
            PrintT(<<"BEH", ToJson([fam |-> fam, dir |-> dir, inp |-> inp, out |-> done])>>)

SpecT == InitT /\ [][NextT]_vars
SpecS == InitS /\ [][NextS]_vars
===================================================================================
