CONSTANTS Size = 3  DevIsBecomesEq = FALSE  DevContainsSwaps = FALSE  DevDelitemAsExpr = FALSE
SPECIFICATION Spec
INVARIANT RewritePreserves
CHECK_DEADLOCK FALSE
