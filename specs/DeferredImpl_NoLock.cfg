CONSTANTS Threads <- T2  Configs <- OnlyPromise  Devs <- NoDevs
          DelayGuarded = TRUE  DeliverChecks = TRUE  UseLock = FALSE  FutureSwallows = FALSE
SPECIFICATION Spec
INVARIANT DelayOnce
INVARIANT DelaySameValue
INVARIANT PromiseValue
INVARIANT FutureOutcome
INVARIANT TimedDeref
INVARIANT LinOrder
INVARIANT FirstDeliverWins
INVARIANT CellAgrees
PROPERTY RealizedMonotone
PROPERTY Termination
INVARIANT DelayOnceStrict
