CONSTANTS
  Alphabet <- AlphaM
  MaxLen = 4
  DetailLen = 0
  CRIsNewline = TRUE
SPECIFICATION SpecMC
INVARIANT ClassIndependent
INVARIANT SpanReread
INVARIANT PosSaneMC
INVARIANT Total
INVARIANT EofIffOwed
CHECK_DEADLOCK FALSE
