-------------------------------- MODULE Atom_Trace --------------------------------
(* Batch trace validation for C12: every recorded execution of the real atom (under the *)
(* deterministic scheduler) must be a behaviour of Atom.tla.  Events: call, ret, watch;  *)
(* the linearization step is silent and placed by TLC.                                   *)
EXTENDS Integers, Sequences, FiniteSets, TLC, Json, IOUtils

Traces == JsonDeserialize(IOEnv.TRACE_FILE)
Threads == 1..4
VARIABLES tid, l, val, pend
INSTANCE Atom
vars == <<tid, l, val, pend>>

Tr == Traces[tid].ev
Cfg == Traces[tid].init

Init == /\ tid \in 1..Len(Traces)
        /\ l = 1
        /\ AInit(Traces[tid].init.val)

Ev == Tr[l]
Consume == l' = l + 1 /\ UNCHANGED tid

TCall == /\ l <= Len(Tr) /\ Ev.k = "call"
         /\ ACall(Ev.t, [op |-> Ev.op, f |-> Ev.f, a |-> Ev.a, b |-> Ev.b], Cfg.watch)
         /\ Consume
TLin(t) == ALin(t, Cfg.validator) /\ UNCHANGED <<tid, l>>
TWatch == /\ l <= Len(Tr) /\ Ev.k = "watch"
          /\ AWatch(Ev.t, Ev.a, Ev.b)
          /\ Consume
TRet == /\ l <= Len(Tr) /\ Ev.k = "ret"
        /\ ARet(Ev.t, Ev.res)
        /\ Consume

Next == TCall \/ TWatch \/ TRet \/ \E t \in Threads : TLin(t)
Spec == Init /\ [][Next]_vars

(* the invariants of the required specification, evaluated on every state of every matched prefix *)
ValidAlways == Valid(Cfg.validator, val) \/ val = Cfg.val
NoDebtAtRest == \A t \in Threads : pend[t] = None \/ pend[t].op # "none"

(* acceptance: all events consumed, nobody pending, final value as observed *)
Accept == (l = Len(Tr) + 1 /\ val = Traces[tid].final /\ \A t \in Threads : pend[t] = None)
             => PrintT(<<"ACC", tid>>)
(* diagnosis of rejected traces: every position reached (the driver takes the maximum) *)
Prefix == PrintT(<<"PFX", tid * 10000 + l>>)
===================================================================================
