SPECIFICATION Spec
INVARIANT MutexSane
CONSTRAINT Accept
CHECK_DEADLOCK FALSE
