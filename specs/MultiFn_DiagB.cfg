CONSTANTS Tags <- TagsB  Classes <- ClassesB  Bases <- BasesB  VecElems <- VecsB  Dflt = "dflt"
          Edges <- EdgesB  PrefPairs <- PrefsB
          DevOrder = TRUE  DevClassAnc = TRUE  ResetOn = {}  CheckHier = TRUE
INIT DInit
NEXT DNext
INVARIANT MapsExact
INVARIANT DiagSane
CONSTRAINT Emit
CHECK_DEADLOCK FALSE
