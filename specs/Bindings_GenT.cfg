CONSTANTS Threads <- T2  DynVars <- GDyn  NonDyn = "n"  Vals <- GVals  Bad <- GBad  Maps <- GMapsSmall  Orders <- GOrders
          SpawnKinds <- AllKinds  MaxDepth = 3  D = 4
SPECIFICATION GSpec
INVARIANT RestoredOnExit
CONSTRAINT Bound_
CONSTRAINT Emit
CHECK_DEADLOCK FALSE
