--------------------------------- MODULE Names_MC ---------------------------------
(* Instantiation data for Names.tla / NamesImpl.tla and the design-check job.          *)
(* The collision class is chosen by the environment variable NAMES_CLASS               *)
(*   ab  {a-b, a_b}      xq  {x?, x__Q__}     print  {print, print_}                   *)
(*   class  {class, class_}     v  {v}        pool  all nine names (simulation only)   *)
(* e.g.  NAMES_CLASS=ab java ... tlc2.TLC -config Names_MC.cfg Names_MC.tla            *)
EXTENDS NamesImpl, IOUtils, Json

Classes == [ab    |-> <<"a-b", "a_b">>,
            xq    |-> <<"x?", "x__Q__">>,
            print |-> <<"print", "print_">>,
            class |-> <<"class", "class_">>,
            v     |-> <<"v">>,
            pool  |-> <<"a-b", "a_b", "x?", "x__Q__", "print", "print_", "class", "class_", "v">>]
ClassSeq == Classes[IOEnv.NAMES_CLASS]

(* basilisp.lang.util.munge on the pool (the driver compares this table with the real function) *)
MungeAll == ("a-b" :> "a_b") @@ ("a_b" :> "a_b") @@ ("x?" :> "x__Q__") @@ ("x__Q__" :> "x__Q__")
            @@ ("print" :> "print_") @@ ("print_" :> "print_") @@ ("class" :> "class_") @@ ("class_" :> "class_")
            @@ ("v" :> "v")
(* names of the pool that every namespace refers from basilisp.core (checked by the driver) *)
AmbientAll == {"print", "class"}
AmbientCls == AmbientAll \cap Names

FlagsAll == {"plain", "priv", "dyn", "redef"}
FlagsSmall == {"plain", "priv", "dyn"}
FlagsPlain == {"plain"}
FlagsPriv == {"plain", "priv"}

ASSUME PrintT(<<"MUNGE", ToJson([munge |-> MungeAll, ambient |-> AmbientAll, names |-> ClassSeq])>>)
====================================================================================
