-------------------------------- MODULE SyntaxQuote --------------------------------
(* C09 (first half) -- syntax-quote is hygienic.                                         *)
(*                                                                                       *)
(* A template is the text after a backquote.  Expand gives the FORM the reader must      *)
(* produce for it in a namespace state; EvalForm gives the data that form evaluates to.  *)
(*   - every unqualified symbol is resolved in the namespace where the template is       *)
(*     written: to the Var it denotes there (interned before referred) or, when it       *)
(*     denotes none, it is qualified with that namespace; special forms stay as they are; *)
(*     an alias qualifier is replaced by the full namespace name; other qualified         *)
(*     symbols stay as they are (docs/reader.rst "Syntax Quoting")                        *)
(*   - x# is one symbol within a template and fresh across templates / reads: the        *)
(*     gensym environment is created per template, identifiers come from a counter        *)
(*   - ~e inserts exactly the value of e, ~@e the elements of the value of e; the        *)
(*     enclosing collection type is preserved                                             *)
(* The shape of the form (how the reader spells "build a list from these segments") is   *)
(* not fixed by the property: a form is abstract here -- quote / const / expr / build     *)
(* with segments one(form) | many(expr) -- and the driver recognises the reader's idiom.  *)
(*                                                                                       *)
(* Namespace state: the current namespace CUR interns lv and lfn, refers all of CORE      *)
(* (map, first, ...); three switches vary it: shadow (CUR interns its own `first`),       *)
(* alias (o is an alias of LIB), refer (LIB's ov is referred into CUR).                   *)
EXTENDS Integers, Sequences, FiniteSets, TLC, Json

CONSTANTS MaxDepth,     \* 1..3
          SharedEnv,    \* mutant: the gensym environment is not reset between templates
          NoEnv,        \* mutant: every occurrence of x# gets a new symbol
          QualSpecial,  \* mutant: special forms are qualified like any other unknown symbol
          NestShares    \* mutant: a template nested in an unquote uses the gensym environment of the enclosing one

(* ------------------------------- data ---------------------------------------------- *)
Nil == [ty |-> "nil"]
I(i) == [ty |-> "int", i |-> i]
K(n) == [ty |-> "kw", n |-> n]
Y(q, n) == [ty |-> "sym", q |-> q, n |-> n]           \* q = "" : no namespace
G(id) == [ty |-> "gsym", id |-> id]                    \* a generated symbol, known up to a bijection on ids
VecV(xs) == [ty |-> "vec", xs |-> xs]
ListV(xs) == [ty |-> "list", xs |-> xs]                \* a seq (list?-ness is not fixed: the reader builds a seq)
SetV(xs) == [ty |-> "set", xs |-> xs]
MapV(ks, vs) == [ty |-> "map", ks |-> ks, vs |-> vs]
NilOrEmpty == [ty |-> "nilorempty"]                    \* a non-empty list template all of whose splices are empty:
                                                       \* nil (Clojure) or () -- not fixed

(* ------------------------------- namespace state ----------------------------------- *)
Special == {"if", "do", "let*", "fn*", "quote", "recur", "var", "def", "throw", "try", "loop*"}
CoreVars == {"map", "first", "inc"}
\* rename: LIB's ofn is referred into CUR under the name rfn ((refer 'LIB :rename '{ofn rfn})): the symbol rfn then
\* denotes the Var LIB/ofn -- the Var's own name, not the name it was written with
NsStates == [shadow : BOOLEAN, alias : BOOLEAN, refer : BOOLEAN, rename : BOOLEAN]
Plain == [shadow |-> FALSE, alias |-> FALSE, refer |-> FALSE, rename |-> FALSE]
Interns(ns) == {"lv", "lfn"} \cup (IF ns.shadow THEN {"first"} ELSE {})
ReferredFrom(ns, n) == IF n \in CoreVars THEN "CORE" ELSE IF ns.refer /\ n = "ov" THEN "LIB" ELSE ""

Resolve(s, ns) ==          \* s = [q, n]
  IF s.q = "" /\ s.n \in Special /\ ~QualSpecial THEN s
  ELSE IF s.q # "" THEN (IF ns.alias /\ s.q = "o" THEN [q |-> "LIB", n |-> s.n] ELSE s)
  ELSE IF s.n \in Interns(ns) THEN [q |-> "CUR", n |-> s.n]
  ELSE IF ReferredFrom(ns, s.n) # "" THEN [q |-> ReferredFrom(ns, s.n), n |-> s.n]
  ELSE IF ns.rename /\ s.n = "rfn" THEN [q |-> "LIB", n |-> "ofn"]
  ELSE [q |-> "CUR", n |-> s.n]
(* does the resolved symbol name an existing Var (for the hygiene evaluation)? *)
DenotesVar(s, ns) == LET r == Resolve(s, ns) IN
  \/ r.q = "CUR" /\ r.n \in Interns(ns)
  \/ r.q = "CORE" /\ r.n \in CoreVars
  \/ r.q = "LIB" /\ r.n \in {"ov", "ofn"}

(* ------------------------------- unquoted expressions ------------------------------ *)
(* txt is evaluated in CUR by the driver, which first checks that it really has value v *)
Exprs == [
  eint  |-> [txt |-> "(inc 1)", v |-> I(2)],
  esym  |-> [txt |-> "(quote x)", v |-> Y("", "x")],
  evar  |-> [txt |-> "lv", v |-> I(10)],
  enil  |-> [txt |-> "nil", v |-> Nil],
  evec  |-> [txt |-> "[1 (quote a)]", v |-> VecV(<<I(1), Y("", "a")>>)],
  elist |-> [txt |-> "(list :p :q)", v |-> ListV(<<K("p"), K("q")>>)],
  eemp  |-> [txt |-> "[]", v |-> VecV(<<>>)],
  eqlst |-> [txt |-> "(quote (b if))", v |-> ListV(<<Y("", "b"), Y("", "if")>>)],
  eset  |-> [txt |-> "#{3}", v |-> SetV(<<I(3)>>)],
  emap  |-> [txt |-> "{:k 1}", v |-> MapV(<<K("k")>>, <<I(1)>>)]
]
ExprVal(e) == Exprs[e].v
SpliceElems(v) ==
  CASE v.ty = "nil" -> <<>>
    [] v.ty \in {"vec", "list", "set"} -> v.xs
    [] v.ty = "map" -> [j \in 1..Len(v.ks) |-> VecV(<<v.ks[j], v.vs[j]>>)]

(* ------------------------------- templates ----------------------------------------- *)
TSym(q, n) == [t |-> "sym", q |-> q, n |-> n]
TGs(n) == [t |-> "gs", n |-> n]                        \* n#
TK(v) == [t |-> "k", v |-> v]
TUnq(e) == [t |-> "unq", e |-> e]
TSpl(e) == [t |-> "spl", e |-> e]
TColl(c, xs) == [t |-> "coll", c |-> c, xs |-> xs]     \* c in list vec set map (map: xs = k1 v1 k2 v2 ..)
\* ~`inner : an unquote whose expression is itself a syntax-quoted template (the shape of macros that build clauses
\* with ~@(map (fn [c] `(...)) clauses)).  It is a template of its own: its x# is NOT the x# of the enclosing one.
\* In the enumerated family it is the last element of the outermost collection and inner has no unquote, so that
\* identifiers are allocated outer-first and Denote can number them without threading a counter.
TNest(inner) == [t |-> "nest", inner |-> inner]

(* ------------------------------- forms --------------------------------------------- *)
FQ(s) == [f |-> "quote", s |-> s]
FG(id) == [f |-> "gquote", id |-> id]
FC(v) == [f |-> "const", v |-> v]
FE(e) == [f |-> "expr", e |-> e]
FB(c, segs) == [f |-> "build", c |-> c, segs |-> segs]
FN(g) == [f |-> "nest", g |-> g]                       \* the form of the nested template, inserted as an expression
One(f) == [k |-> "one", f |-> f]
Many(e) == [k |-> "many", e |-> e]

(* gensym state: env = sequence of [n, id], nxt = next identifier *)
GLookup(env, n) == IF \E j \in 1..Len(env) : env[j].n = n
                   THEN env[CHOOSE j \in 1..Len(env) : env[j].n = n].id ELSE 0
RECURSIVE Exp(_, _, _), ExpSegs(_, _, _)
Exp(t, ns, st) ==
  CASE t.t = "sym" -> [f |-> FQ(Resolve([q |-> t.q, n |-> t.n], ns)), st |-> st]
    [] t.t = "gs" -> IF GLookup(st.env, t.n) # 0 /\ ~NoEnv THEN [f |-> FG(GLookup(st.env, t.n)), st |-> st]
                     ELSE [f |-> FG(st.nxt), st |-> [env |-> Append(st.env, [n |-> t.n, id |-> st.nxt]), nxt |-> st.nxt + 1]]
    [] t.t = "k" -> [f |-> FC(t.v), st |-> st]
    [] t.t = "unq" -> [f |-> FE(t.e), st |-> st]
    [] t.t = "nest" -> LET a == Exp(t.inner, ns, [env |-> IF NestShares THEN st.env ELSE <<>>, nxt |-> st.nxt])
                       IN [f |-> FN(a.f), st |-> [env |-> st.env, nxt |-> a.st.nxt]]
    [] t.t = "coll" -> LET r == ExpSegs(t.xs, ns, st) IN [f |-> FB(t.c, r.segs), st |-> r.st]
ExpSegs(xs, ns, st) ==
  IF xs = <<>> THEN [segs |-> <<>>, st |-> st]
  ELSE LET h == Head(xs) IN
       IF h.t = "spl" THEN LET r == ExpSegs(Tail(xs), ns, st) IN [segs |-> <<Many(h.e)>> \o r.segs, st |-> r.st]
       ELSE LET a == Exp(h, ns, st)  r == ExpSegs(Tail(xs), ns, a.st) IN [segs |-> <<One(a.f)>> \o r.segs, st |-> r.st]

(* a program = several templates read one after the other: a fresh environment for each, one counter *)
RECURSIVE ExpProg(_, _, _)
ExpProg(ts, ns, st) ==
  IF ts = <<>> THEN <<>>
  ELSE LET a == Exp(Head(ts), ns, IF SharedEnv THEN st ELSE [env |-> <<>>, nxt |-> st.nxt])
       IN <<a.f>> \o ExpProg(Tail(ts), ns, a.st)
Expand(ts, ns) == ExpProg(ts, ns, [env |-> <<>>, nxt |-> 1])

(* ------------------------------- evaluation of a form ------------------------------ *)
RECURSIVE FromPairs(_, _, _), Flat(_), Dedup(_)
Flat(ss) == IF ss = <<>> THEN <<>> ELSE Head(ss) \o Flat(Tail(ss))
FromPairs(xs, ks, vs) ==
  IF Len(xs) < 2 THEN MapV(ks, vs)
  ELSE LET k == xs[1]  v == xs[2]  rest == SubSeq(xs, 3, Len(xs)) IN
       IF \E j \in 1..Len(ks) : ks[j] = k
         THEN LET j == CHOOSE j \in 1..Len(ks) : ks[j] = k IN FromPairs(rest, ks, [vs EXCEPT ![j] = v])
         ELSE FromPairs(rest, Append(ks, k), Append(vs, v))
Dedup(xs) == IF xs = <<>> THEN <<>>
             ELSE LET r == Dedup(Tail(xs)) IN IF \E j \in 1..Len(r) : r[j] = Head(xs) THEN r ELSE <<Head(xs)>> \o r
Build(c, xs, literallyEmpty) ==
  CASE c = "list" -> IF xs # <<>> \/ literallyEmpty THEN ListV(xs) ELSE NilOrEmpty
    [] c = "vec" -> VecV(xs)
    [] c = "set" -> SetV(Dedup(xs))
    [] c = "map" -> FromPairs(xs, <<>>, <<>>)
RECURSIVE EvalForm(_)
EvalForm(F) ==
  CASE F.f = "quote" -> Y(F.s.q, F.s.n)
    [] F.f = "gquote" -> G(F.id)
    [] F.f = "const" -> F.v
    [] F.f = "expr" -> ExprVal(F.e)
    [] F.f = "nest" -> EvalForm(F.g)
    [] F.f = "build" ->
         Build(F.c, Flat([j \in 1..Len(F.segs) |->
                            IF F.segs[j].k = "one" THEN <<EvalForm(F.segs[j].f)>> ELSE SpliceElems(ExprVal(F.segs[j].e))]),
               F.segs = <<>>)

(* ------------------------------- the direct reading -------------------------------- *)
(* gensym names of a template in order of first occurrence *)
RECURSIVE GsOf(_), GsOfSeq(_)
GsOf(t) == CASE t.t = "gs" -> <<t.n>> [] t.t = "coll" -> GsOfSeq(t.xs) [] OTHER -> <<>>
GsOfSeq(xs) == IF xs = <<>> THEN <<>> ELSE GsOf(Head(xs)) \o GsOfSeq(Tail(xs))     \* every occurrence, in order
(* Dedup keeps the LAST occurrence; first-occurrence order is obtained by reversing around it *)
Rev(s) == [j \in 1..Len(s) |-> s[Len(s) + 1 - j]]
FirstOcc(t) == Rev(Dedup(Rev(GsOf(t))))
IdOf(names, base, n) == base + (CHOOSE j \in 1..Len(names) : names[j] = n)
RECURSIVE Denote(_, _, _, _)
Denote(t, ns, names, base) ==
  CASE t.t = "sym" -> LET r == Resolve([q |-> t.q, n |-> t.n], ns) IN Y(r.q, r.n)
    [] t.t = "gs" -> G(IdOf(names, base, t.n))
    [] t.t = "k" -> t.v
    [] t.t = "unq" -> ExprVal(t.e)
    [] t.t = "nest" -> Denote(t.inner, ns, FirstOcc(t.inner), base + Len(names))     \* its own symbols, after the outer ones
    [] t.t = "coll" ->
         Build(t.c, Flat([j \in 1..Len(t.xs) |->
                            IF t.xs[j].t = "spl" THEN SpliceElems(ExprVal(t.xs[j].e))
                            ELSE <<Denote(t.xs[j], ns, names, base)>>]),
               t.xs = <<>>)

RECURSIVE HasUnq(_), SymsOf(_), Depth(_)
HasUnq(t) == t.t \in {"unq", "spl", "nest"} \/ (t.t = "coll" /\ \E j \in 1..Len(t.xs) : HasUnq(t.xs[j]))
SymsOf(t) == CASE t.t = "sym" -> {[q |-> t.q, n |-> t.n]}
               [] t.t = "coll" -> UNION {SymsOf(t.xs[j]) : j \in 1..Len(t.xs)}
               [] t.t = "nest" -> SymsOf(t.inner)
               [] OTHER -> {}
Depth(t) == IF t.t # "coll" THEN 0
            ELSE 1 + (IF t.xs = <<>> THEN 0 ELSE CHOOSE m \in 0..3 : /\ \E j \in 1..Len(t.xs) : Depth(t.xs[j]) = m
                                                                     /\ \A j \in 1..Len(t.xs) : Depth(t.xs[j]) <= m)
(* the quoted, fully qualified data of an unquote-free template: the template itself with Resolve applied *)
RECURSIVE QData(_, _, _, _)
QData(t, ns, names, base) ==
  CASE t.t = "sym" -> LET r == Resolve([q |-> t.q, n |-> t.n], ns) IN [ty |-> "sym", q |-> r.q, n |-> r.n]
    [] t.t = "gs" -> G(IdOf(names, base, t.n))
    [] t.t = "k" -> t.v
    [] t.t = "coll" -> LET ys == [j \in 1..Len(t.xs) |-> QData(t.xs[j], ns, names, base)] IN
                       CASE t.c = "list" -> ListV(ys) [] t.c = "vec" -> VecV(ys) [] t.c = "set" -> SetV(Dedup(ys))
                         [] t.c = "map" -> FromPairs(ys, <<>>, <<>>)

(* ------------------------------- the enumerated templates -------------------------- *)
SymLeaves == {TSym("", "rfn"), TSym("", "map"), TSym("", "first"), TSym("", "if"), TSym("", "let*"), TSym("", "recur"),
              TSym("", "lv"), TSym("", "lfn"), TSym("", "ov"), TSym("", "nope"),
              TSym("o", "ov"), TSym("o", "nope"), TSym("LIB", "ov"), TSym("un.known", "z"), TSym("CORE", "map")}
Leaves == SymLeaves \cup {TGs("x"), TGs("y"), TK(K("c")), TK(I(7)), TK(Nil)}
          \cup {TUnq(e) : e \in {"eint", "esym", "evar", "enil", "evec", "emap"}}
Splices == {TSpl(e) : e \in {"evec", "elist", "enil", "eemp", "eqlst", "eset", "emap"}}
L2 == {TSym("", "rfn"), TSym("", "map"), TSym("", "if"), TSym("", "lv"), TSym("o", "ov"), TSym("", "nope"), TGs("x"), TGs("y"),
       TK(K("c")), TUnq("eint"), TUnq("esym"), TSpl("evec"), TSpl("enil"), TSpl("eqlst")}
L3 == {TGs("x"), TSym("", "first"), TSpl("elist"), TUnq("evar")}
SeqKinds == {"list", "vec", "set"}
MapKeys == {TK(K("c")), TSym("", "lv"), TGs("x")}
MapKeys2 == {TK(K("d")), TSym("", "nope"), TGs("y")}
IsSplice(t) == t.t = "spl"
C1 == {TColl(c, <<>>) : c \in SeqKinds \cup {"map"}}
      \cup {TColl(c, <<a>>) : c \in SeqKinds, a \in Leaves \cup Splices}
      \cup {TColl(c, <<a, b>>) : c \in SeqKinds, a \in L2, b \in L2}
      \cup {TColl(c, <<a, b, d>>) : c \in SeqKinds, a \in L3, b \in L3, d \in L3}
      \cup {TColl("map", <<k, v>>) : k \in MapKeys, v \in L2 \ Splices}
      \cup {TColl("map", <<k, v, k2, v2>>) : k \in MapKeys, v \in {TGs("x"), TUnq("eint")},
                                              k2 \in MapKeys2, v2 \in {TSym("", "map"), TGs("x"), TGs("y")}}
(* reduced inner families *)
R1 == {TColl("list", <<TGs("x"), TSym("", "first")>>), TColl("vec", <<TGs("x"), TSpl("evec")>>),
       TColl("set", <<TGs("y")>>), TColl("map", <<TK(K("c")), TGs("x")>>), TColl("list", <<>>), TColl("vec", <<>>),
       TColl("list", <<TSpl("enil")>>), TColl("vec", <<TUnq("evar"), TSym("o", "ov")>>),
       TColl("list", <<TSym("", "if"), TSym("", "lv"), TSym("", "map")>>),
       TColl("set", <<TSym("", "ov"), TSpl("elist")>>), TColl("map", <<TSym("", "lv"), TUnq("evec")>>),
       TColl("list", <<TSym("", "let*"), TSym("", "nope"), TGs("y")>>)}
Wrap(S) == {TColl(c, <<t>>) : c \in SeqKinds, t \in S}
           \cup {TColl(c, <<l, t>>) : c \in SeqKinds, l \in L3, t \in S}
           \cup {TColl(c, <<t, l>>) : c \in SeqKinds, l \in L3, t \in S}
           \cup {TColl("map", <<TK(K("c")), t>>) : t \in S}
           \cup {TColl("map", <<TGs("x"), t, TK(K("d")), TGs("x")>>) : t \in S}
C2 == Wrap(R1)
R2 == {TColl("list", <<TGs("x"), t>>) : t \in R1} \cup {TColl("vec", <<t, TSpl("eqlst")>>) : t \in R1}
      \cup {TColl("map", <<TK(K("c")), t>>) : t \in R1}
C3 == Wrap(R2)
NestInner == {TGs("x"), TColl("list", <<TGs("x"), TSym("", "first")>>), TColl("vec", <<TGs("x"), TGs("y"), TGs("x")>>),
              TColl("map", <<TK(K("c")), TGs("y")>>), TColl("list", <<TSym("", "lv"), TK(I(7))>>)}
CN == {TColl(c, <<a, TNest(i)>>) : c \in {"list", "vec"}, a \in {TGs("x"), TGs("y"), TSym("", "lv")}, i \in NestInner}
      \cup {TColl("list", <<TGs("x"), TGs("y"), TNest(i)>>) : i \in NestInner}
      \cup {TColl("vec", <<TNest(i)>>) : i \in NestInner}
      \cup {TColl("map", <<TGs("x"), TNest(i)>>) : i \in NestInner}
Templates == Leaves \cup C1 \cup CN \cup (IF MaxDepth >= 2 THEN C2 ELSE {}) \cup (IF MaxDepth >= 3 THEN C3 ELSE {})

(* sets and maps must be readable: no two equal elements / keys in the text, none after evaluation either *)
RECURSIVE WellFormed(_, _)
WellFormed(t, ns) ==
  t.t # "coll" \/
  /\ \A j \in 1..Len(t.xs) : WellFormed(t.xs[j], ns)
  /\ t.c = "set" => LET vs == Flat([j \in 1..Len(t.xs) |->
                                     IF t.xs[j].t = "spl" THEN SpliceElems(ExprVal(t.xs[j].e))
                                     ELSE <<Denote(t.xs[j], ns, FirstOcc(t), 0)>>])
                    IN /\ Len(Dedup(vs)) = Len(vs)
                       /\ \A i, j \in 1..Len(t.xs) : i # j => t.xs[i] # t.xs[j]
  /\ t.c = "map" => /\ Len(t.xs) % 2 = 0
                    /\ \A i, j \in 1..(Len(t.xs) \div 2) :
                          i # j => /\ t.xs[2 * i - 1] # t.xs[2 * j - 1]
                                   /\ Denote(t.xs[2 * i - 1], ns, FirstOcc(t), 0) # Denote(t.xs[2 * j - 1], ns, FirstOcc(t), 0)

Sensitive(t) == \E s \in SymsOf(t) : s.n \in {"first", "ov", "rfn"} \/ s.q = "o"
Renamed(t) == \E s \in SymsOf(t) : s.q = "" /\ s.n = "rfn"
StatesFor(t) == IF Renamed(t) THEN NsStates ELSE IF Sensitive(t) THEN {n \in NsStates : ~n.rename} ELSE {Plain}

(* ------------------------------- the machine --------------------------------------- *)
(* one state per (namespace state, template); the second step exists only to spread the work over the workers *)
VARIABLES tpl, ns, done
vars == <<tpl, ns, done>>
NoT == TK(K("none"))
Init == tpl = NoT /\ ns \in NsStates /\ done = FALSE
Pick == tpl = NoT /\ tpl' \in {t \in Templates : ns \in StatesFor(t) /\ WellFormed(t, ns)} /\ UNCHANGED <<ns, done>>
Finish == tpl # NoT /\ ~done /\ done' = TRUE /\ UNCHANGED <<tpl, ns>>
Next == Pick \/ Finish
Spec == Init /\ [][Next]_vars

RECURSIVE NestGs(_)
NestGs(t) == CASE t.t = "nest" -> Len(FirstOcc(t.inner))
               [] t.t = "coll" -> (IF t.xs = <<>> THEN 0 ELSE NestGs(t.xs[Len(t.xs)]))     \* (a nest is a last element)
               [] OTHER -> 0
HasGs(t) == GsOf(t) # <<>> \/ NestGs(t) > 0
Prog(t) == IF HasGs(t) THEN <<t, t, t>> ELSE <<t>>
Forms == Expand(Prog(tpl), ns)
NG == Len(FirstOcc(tpl)) + NestGs(tpl)            \* generated symbols per instance: the template's and its nested one's

(* ------------------------------- what TLC checks ----------------------------------- *)
(* evaluating the form the reader must produce gives the direct reading of the template *)
EvalAgrees == done =>
  \A k \in 1..Len(Forms) : EvalForm(Forms[k]) = Denote(tpl, ns, FirstOcc(tpl), (k - 1) * NG)
(* without unquotes: the quoted, fully qualified data *)
QuotedData == (done /\ ~HasUnq(tpl)) => EvalForm(Forms[1]) = QData(tpl, ns, FirstOcc(tpl), 0)
(* the gensym map is a function within a template, injective, and fresh across templates *)
RECURSIVE GIds(_)
GIds(F) == CASE F.f = "gquote" -> {F.id}
             [] F.f = "nest" -> GIds(F.g)
             [] F.f = "build" -> UNION {IF F.segs[j].k = "one" THEN GIds(F.segs[j].f) ELSE {} : j \in 1..Len(F.segs)}
             [] OTHER -> {}
GensymFunction == done => \A k \in 1..Len(Forms) : Cardinality(GIds(Forms[k])) = NG
GensymFresh == done => \A k, m \in 1..Len(Forms) : k # m => GIds(Forms[k]) \cap GIds(Forms[m]) = {}
(* resolution depends on the namespace state only through the symbols that are there *)
NsIrrelevant == (done /\ ~Sensitive(tpl)) => \A other \in NsStates : Expand(Prog(tpl), other) = Forms
(* special forms are never qualified; everything else unqualified ends up qualified *)
RECURSIVE QSyms(_)
QSyms(F) == CASE F.f = "quote" -> {F.s}
              [] F.f = "build" -> UNION {IF F.segs[j].k = "one" THEN QSyms(F.segs[j].f) ELSE {} : j \in 1..Len(F.segs)}
              [] OTHER -> {}
AllQualified == done => \A s \in QSyms(Forms[1]) : (s.q = "") <=> (s.n \in Special)
DepthBound == done => Depth(tpl) <= MaxDepth

(* ------------------------------- emission ------------------------------------------ *)
(* hygiene: a vector / list template all of whose leaves are symbols denoting Vars: the data, evaluated as code
   in ANOTHER namespace that gives all these names other meanings, must still reach the Vars of this one *)
RECURSIVE VarOnly(_, _)
VarOnly(t, n) == \/ t.t = "sym" /\ DenotesVar([q |-> t.q, n |-> t.n], n) /\ ~(t.q = "" /\ t.n \in Special)
                 \/ t.t = "coll" /\ t.c = "vec" /\ t.xs # <<>> /\ \A j \in 1..Len(t.xs) : VarOnly(t.xs[j], n)
(* a splice outside a collection must be rejected by the reader (a syntax error) *)
EmitExprs == PrintT(<<"EXPR", ToJson([exprs |-> Exprs, reject |-> Splices])>>)
Emit ==
  IF tpl = NoT THEN (ns = Plain => EmitExprs)
  ELSE IF ~done THEN TRUE
  ELSE PrintT(<<"TAB", ToJson([ns |-> ns, tpl |-> tpl, forms |-> Forms,
                              vals |-> [k \in 1..Len(Forms) |-> EvalForm(Forms[k])],
                              hyg |-> tpl.t = "coll" /\ VarOnly(tpl, ns), depth |-> Depth(tpl)])>>)
=====================================================================================
