CONSTANTS MaxFix = 4  MaxArgc = 8  MaxTail = 6  MaxPartial = 3  InfLead = 5  MaxIter = 6  Mut = "none"
SPECIFICATION Spec
INVARIANT OneOutcome
INVARIANT ErrorBeforeBody
INVARIANT BodyOnlyAfterBinding
INVARIANT BoundKnown
INVARIANT LazinessBound
INVARIANT DepthConstant
INVARIANT RestNeverEmptySeq
INVARIANT EnteredOncePerIteration
CONSTRAINT Emit
