CONSTANTS Tags <- TagsD  Classes <- ClassesT  Bases = {}  VecElems <- NoVecs  Dflt = "dflt"
          Edges <- EdgesT  PrefPairs <- PrefsT
          MaxDepth = 4  Prune = TRUE
INIT GInit
NEXT GNext
CONSTRAINT Emit
CHECK_DEADLOCK FALSE
