CONSTANTS MaxFix = 2  MaxArgc = 4  MaxTail = 3  MaxPartial = 1  InfLead = 2  MaxIter = 2  Mut = "gt"
SPECIFICATION Spec
INVARIANT OneOutcome
INVARIANT ErrorBeforeBody
INVARIANT BodyOnlyAfterBinding
INVARIANT BoundKnown
INVARIANT LazinessBound
INVARIANT DepthConstant
INVARIANT RestNeverEmptySeq
INVARIANT EnteredOncePerIteration
