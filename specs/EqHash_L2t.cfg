CONSTANTS U <- UT  DevBoolSeq = FALSE  DevBoolKey = FALSE  DevHashByRep = FALSE  KeySeq <- KeysT  MaxDepth = 2
INIT InitL
NEXT NextL
INVARIANT LookupRespectsEq
CONSTRAINT EmitL
CHECK_DEADLOCK FALSE
