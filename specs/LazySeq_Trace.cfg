SPECIFICATION Spec
INVARIANT RunsAtMostOnce
INVARIANT ThrowKeepsCell
INVARIANT DemandBound
CONSTRAINT Accept
CHECK_DEADLOCK FALSE
