\* C07 / Xform.tla -- generated layout: see the header of harness/c07.py for what each job is for
CONSTANTS Depth = 2  Mode = "exh"  MaxLen = 3  NSamp = 0  MinLen = 0
CONSTANTS CheckMin = FALSE  EmitCases = TRUE  Mutant = "none"
SPECIFICATION Spec
CONSTRAINT WellTyped
INVARIANT FinalAgrees
INVARIANT ReducedSound
INVARIANT FunctionalAgrees
INVARIANT CompletedOnce
PROPERTY Quiescent
PROPERTY NoPullAfterReduced
PROPERTY CompleteAfterLastPull
CONSTRAINT Emit
CHECK_DEADLOCK FALSE
