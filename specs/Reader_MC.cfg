CONSTANTS
  Alphabet <- AlphaM
  MaxLen = 3
  DetailLen = 0
  CRIsNewline = TRUE
SPECIFICATION SpecMC
INVARIANT ClassIndependent
INVARIANT SpanReread
INVARIANT PosSaneMC
INVARIANT Total
INVARIANT EofIffOwed
CHECK_DEADLOCK FALSE
