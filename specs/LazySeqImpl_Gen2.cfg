CONSTANTS Threads <- T2  N = 2  FailPolicy = "retry"  Progs <- ProgsQ  Plans <- PlansK2
          LockUnderGIL = FALSE  ErrLeavesComputing = FALSE  Record = TRUE  Steer = TRUE
SPECIFICATION Spec
INVARIANT Simulates
CONSTRAINT Emit
