CONSTANTS Seeds <- S2  MaxVersion = 3  BadVersions <- V2  MTimes <- T2  Sizes <- T2
          EditDuringLoad = FALSE  AllowUndetectableEdit = FALSE
          Checks <- All4  StatFirst = TRUE  WriteOnlyOk = TRUE
          DevInternByForeignHash = FALSE  EmitMode = "all"
SPECIFICATION ESpec
INVARIANT TypeOK
INVARIANT NeverExecStale
INVARIANT CacheSound
INVARIANT LoadRunsCurrent
INVARIANT ValidAfterLoad
INVARIANT FailedLeavesNoValidCache
INVARIANT SnapshotEqual
INVARIANT InternOK
CONSTRAINT EmitTab
