CONSTANTS U <- UQ  DevBoolSeq = FALSE  DevBoolKey = FALSE  DevHashByRep = FALSE  KeySeq <- KeysQ  MaxDepth = 0
INIT InitTI
NEXT NextTI
INVARIANT Reflexive
INVARIANT NaNIrreflexive
INVARIANT Symmetric
INVARIANT Transitive
INVARIANT SeqByElements
INVARIANT BoolNeverNum
INVARIANT KindsApart
INVARIANT Refines
INVARIANT HashRespects
CONSTRAINT EmitT
CHECK_DEADLOCK FALSE
