------------------------------- MODULE AtomImpl_Gen -------------------------------
(* spec -> code for C12: random behaviours of the as-built mechanism (tlc -simulate), each *)
(* printed as the sequence of (thread, step) with the value the specification says the     *)
(* atom holds after the step and the result of every call.  The harness replays the        *)
(* interleaving on the real Atom (the scheduler runs thread t up to its next observable    *)
(* step boundary) and compares the state after every step.                                 *)
EXTENDS AtomImpl_MC, Json

VARIABLES hist, p0
gvars == <<vars, hist, p0>>

GInit == Init /\ hist = <<>> /\ p0 = prog
GNext == /\ \E t \in Threads :
               /\ Step(t)
               /\ hist' = Append(hist, [t |-> t, at |-> pc[t], to |-> pc'[t], val |-> ival',
                                        res |-> IF pc'[t] = "ret" THEN ires'[t] ELSE NilV])
         /\ UNCHANGED p0
GSpec == GInit /\ [][GNext]_gvars

Emit == AllDone => PrintT(<<"BEH", ToJson([progs |-> p0, steps |-> hist, final |-> ival])>>)
===================================================================================
