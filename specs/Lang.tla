----------------------------------- MODULE Lang -----------------------------------
(* C01 / C02 -- the evaluation rules of the special-form fragment as a small-step      *)
(* abstract machine (CEK style).                                                      *)
(*                                                                                    *)
(*   mode   "ev" evaluate expression ctl in env | "rt" return value ctl |             *)
(*          "th" unwind with exception value ctl | "done"                             *)
(*   env    lexical environment: sequence of <<name, address>>, innermost last        *)
(*   store  cells; a cell is written once, when it is allocated (locals are immutable *)
(*          bindings; recur allocates FRESH cells for all loop locals at once, so a   *)
(*          closure keeps the cells - the bindings - that were in effect when it was  *)
(*          created)                                                                  *)
(*   kont   continuation: sequence of frames, top first                               *)
(*   glob   Var roots of the scratch namespace: sequence of <<name, value>>           *)
(*   log    the sequence of effect markers observed so far (C02)                      *)
(*                                                                                    *)
(* Expressions (JSON records, field t):                                               *)
(*   c(v) l(n) b(n) g(n) if(a,b,c) do(xs) let(bs,xs) loop(bs,xs) recur(args)          *)
(*   fn(self,ps,xs) call(f,args) vec(xs) letfn(fs,xs) try(xs,cs,fin) throw(e)         *)
(*   mfn(self,ars) with ars[i] = [ps, rest ("" = none), xs]: several arities, at most  *)
(*   one of them variadic                                                             *)
(*   mkexc(c) def(n,e) callall(e) obj field(e,n) mcall(e,n,args)                      *)
(* Values (field ty): nil bool(i) int(i) kw(n) vec(xs) bi(n) clo(..) exc(c) var(n)    *)
(*                                                                                    *)
(* Order of evaluation is what the rules say: function position, then arguments left  *)
(* to right; vector elements left to right; let/loop initialisers in order; body      *)
(* forms in order; finally after body and handler on every exit.                      *)
EXTENDS LangValues

(* ---- environments ------------------------------------------------------------------ *)
RECURSIVE LookupFrom(_, _, _)
LookupFrom(env, n, i) == IF i = 0 THEN 0 ELSE IF env[i][1] = n THEN env[i][2] ELSE LookupFrom(env, n, i - 1)
Lookup(env, n) == LookupFrom(env, n, Len(env))          \* address, 0 = unbound
RECURSIVE GLookupFrom(_, _, _)
GLookupFrom(g, n, i) == IF i = 0 THEN [ty |-> "unbound"] ELSE IF g[i][1] = n THEN g[i][2] ELSE GLookupFrom(g, n, i - 1)
GLookup(g, n) == GLookupFrom(g, n, Len(g))
(* bind names to values in fresh cells: returns [env, store] *)
Bind(env, store, names, vals) ==
  [env |-> env \o [i \in 1..Len(names) |-> <<names[i], Len(store) + i>>],
   store |-> store \o vals]

(* ---- frames ------------------------------------------------------------------------ *)
Push(f, k) == <<f>> \o k

VARIABLES mode, ctl, env, kont, store, glob, log
mvars == <<mode, ctl, env, kont, store, glob, log>>

MInit(prog) == /\ mode = "ev" /\ ctl = prog /\ env = <<>> /\ kont = <<>> /\ store = <<>>
               /\ glob = <<>> /\ log = <<>>

(* helpers producing the next (mode, ctl, env, kont, store, glob, log) *)
Go(m, c, e, k, s, g, l) == /\ mode' = m /\ ctl' = c /\ env' = e /\ kont' = k /\ store' = s
                           /\ glob' = g /\ log' = l
Ret(v, k) == Go("rt", v, env, k, store, glob, log)
Thr(x, k) == Go("th", x, env, k, store, glob, log)
Ev(e, en, k) == Go("ev", e, en, k, store, glob, log)

(* evaluate a body (implicit do) in environment en with continuation k *)
EvBody(xs, en, k, s) ==
  IF xs = <<>> THEN Go("rt", NilV, en, k, s, glob, log)
  ELSE IF Len(xs) = 1 THEN Go("ev", xs[1], en, k, s, glob, log)
  ELSE Go("ev", xs[1], en, Push([k |-> "do", rest |-> Tail(xs), env |-> en], k), s, glob, log)

(* ---- closures ---------------------------------------------------------------------- *)
(* fn with a self name: the name is bound, in the closure's own environment, to the closure *)
MkClo(e, en, s) ==
  IF e.self = "" THEN [clo |-> [ty |-> "clo", ps |-> e.ps, xs |-> e.xs, env |-> en], store |-> s]
  ELSE LET a == Len(s) + 1
           en2 == Append(en, <<e.self, a>>)
           c == [ty |-> "clo", ps |-> e.ps, xs |-> e.xs, env |-> en2]
       IN [clo |-> c, store |-> Append(s, c)]

(* ---- functions of several arities ---------------------------------------------------- *)
(* The arity whose fixed parameter count equals the number of arguments runs; failing that, the   *)
(* variadic arity if it has at most that many fixed parameters; failing that the call is an arity *)
(* error and NO body code runs.  Surplus arguments reach the rest parameter as a sequence in      *)
(* order, nil when there are none.  recur re-enters the RUNNING arity: its last argument becomes  *)
(* the rest parameter as given.                                                                   *)
AllPs(a) == IF a.rest = "" THEN a.ps ELSE Append(a.ps, a.rest)
SelArity(ars, n) ==
  LET fx == {i \in 1..Len(ars) : ars[i].rest = "" /\ Len(ars[i].ps) = n}
      vr == {i \in 1..Len(ars) : ars[i].rest # "" /\ Len(ars[i].ps) <= n}
  IN IF fx # {} THEN CHOOSE i \in fx : TRUE ELSE IF vr # {} THEN CHOOSE i \in vr : TRUE ELSE 0
MkMClo(e, en, s) ==
  IF e.self = "" THEN [clo |-> [ty |-> "mclo", ars |-> e.ars, env |-> en], store |-> s]
  ELSE LET a == Len(s) + 1
           c == [ty |-> "mclo", ars |-> e.ars, env |-> Append(en, <<e.self, a>>)]
       IN [clo |-> c, store |-> Append(s, c)]

(* ---- application ------------------------------------------------------------------- *)
ApplyPrim(n, args, k) ==
  LET r == Prim(n, args) IN
    IF r.ok THEN Go("rt", r.v, env, k, store, glob, IF r.mark # 0 THEN Append(log, r.mark) ELSE log)
    ELSE Thr(r.v, k)

Apply(f, args, k) ==
  CASE f.ty = "bi" -> ApplyPrim(f.n, args, k)
    [] f.ty = "clo" ->
         IF Len(args) # Len(f.ps) THEN Thr(ExcV("TypeError"), k)          \* arity error, before any body code
         ELSE LET b == Bind(f.env, store, f.ps, args)
              IN EvBody(f.xs, b.env, Push([k |-> "fn", clo |-> f], k), b.store)
    [] f.ty = "mclo" ->
         LET i == SelArity(f.ars, Len(args)) IN
           IF i = 0 THEN Thr(ArityError(Len(f.ars)), k)                    \* before any body code
           ELSE LET a == f.ars[i]
                    c == [ty |-> "clo", ps |-> AllPs(a), xs |-> a.xs, env |-> f.env]
                    b == Bind(f.env, store, c.ps, PackArgs(Len(a.ps), a.rest # "", args))
                IN EvBody(a.xs, b.env, Push([k |-> "fn", clo |-> c], k), b.store)
    [] OTHER -> Thr(ExcV("TypeError"), k)                                 \* not callable

(* ---- recur: all new values are computed first, then all locals are rebound at once --- *)
RECURSIVE DropToRecurPoint(_)
DropToRecurPoint(k) == IF k = <<>> THEN k ELSE IF Head(k).k \in {"loop", "fn"} THEN k ELSE DropToRecurPoint(Tail(k))
DoRecur(vals, k0) ==
  LET k == DropToRecurPoint(k0) IN
    IF k = <<>> THEN Thr(ExcV("BadRecur"), k)
    ELSE LET f == Head(k) IN
      IF f.k = "loop"
        THEN LET b == Bind(f.env, store, f.names, vals) IN EvBody(f.xs, b.env, k, b.store)
        ELSE LET b == Bind(f.clo.env, store, f.clo.ps, vals) IN EvBody(f.clo.xs, b.env, k, b.store)

(* ---- "ev": one rule per kind of expression ------------------------------------------ *)
StepEv ==
  LET e == ctl IN
  CASE e.t = "c" -> Ret(e.v, kont)
    [] e.t = "l" -> Ret(store[Lookup(env, e.n)], kont)
    [] e.t = "b" -> Ret([ty |-> "bi", n |-> e.n], kont)
    [] e.t = "g" -> Ret(GLookup(glob, e.n), kont)
    [] e.t = "mkexc" -> Ret(ExcV(e.c), kont)
    [] e.t = "if" -> Ev(e.a, env, Push([k |-> "if", b |-> e.b, c |-> e.c, env |-> env], kont))
    [] e.t = "do" -> EvBody(e.xs, env, kont, store)
    [] e.t \in {"let", "loop"} ->
         IF e.bs = <<>>
           THEN IF e.t = "let" THEN EvBody(e.xs, env, kont, store)
                ELSE EvBody(e.xs, env, Push([k |-> "loop", names |-> <<>>, xs |-> e.xs, env |-> env], kont), store)
           ELSE Ev(e.bs[1].e, env, Push([k |-> "bind", loop |-> (e.t = "loop"), n |-> e.bs[1].n, rest |-> Tail(e.bs),
                                         xs |-> e.xs, env |-> env, base |-> env,
                                         names |-> <<e.bs[1].n>>, vals |-> <<>>], kont))
    [] e.t = "fn" -> LET c == MkClo(e, env, store) IN Go("rt", c.clo, env, kont, c.store, glob, log)
    [] e.t = "mfn" -> LET c == MkMClo(e, env, store) IN Go("rt", c.clo, env, kont, c.store, glob, log)
    [] e.t = "call" -> Ev(e.f, env, Push([k |-> "arg", done |-> <<>>, todo |-> e.args, env |-> env], kont))
    [] e.t = "vec" -> IF e.xs = <<>> THEN Ret(VecV(<<>>), kont)
                      ELSE Ev(e.xs[1], env, Push([k |-> "vec", done |-> <<>>, todo |-> Tail(e.xs), env |-> env], kont))
    [] e.t = "recur" -> IF e.args = <<>> THEN DoRecur(<<>>, kont)
                        ELSE Ev(e.args[1], env, Push([k |-> "recur", done |-> <<>>, todo |-> Tail(e.args), env |-> env], kont))
    [] e.t = "letfn" ->
         \* cells for all names first, every closure sees all of them (mutual recursion)
         LET n == Len(e.fs)
             en2 == env \o [i \in 1..n |-> <<e.fs[i].n, Len(store) + i>>]
             clos == [i \in 1..n |-> [ty |-> "clo", ps |-> e.fs[i].ps, xs |-> e.fs[i].xs, env |-> en2]]
         IN EvBody(e.xs, en2, kont, store \o clos)
    [] e.t = "try" -> EvBody(e.xs, env, Push([k |-> "try", cs |-> e.cs, fin |-> e.fin, env |-> env], kont), store)
    [] e.t = "throw" -> Ev(e.e, env, Push([k |-> "throw"], kont))
    [] e.t = "def" -> Ev(e.e, env, Push([k |-> "def", n |-> e.n], kont))
    [] e.t = "callall" -> Ev(e.e, env, Push([k |-> "callall0"], kont))
    \* host interop on the harness object o: reading property p<n> logs 100+n; calling method m<n> logs 200+n
    [] e.t = "obj" -> Ret([ty |-> "obj"], kont)
    [] e.t = "field" -> Ev(e.e, env, Push([k |-> "field", n |-> e.n], kont))
    [] e.t = "mcall" -> Ev(e.e, env, Push([k |-> "marg", n |-> e.n, done |-> <<>>, todo |-> e.args, env |-> env], kont))

(* ---- "rt": a value reaches the top frame -------------------------------------------- *)
RunFinally(fin, en, resume, saved, k) ==
  IF fin = <<>> THEN Go(resume, saved, en, k, store, glob, log)
  ELSE EvBody(fin, en, Push([k |-> "fin", resume |-> resume, saved |-> saved], k), store)

StepRt ==
  LET v == ctl IN
  IF kont = <<>> THEN Go("done", [outcome |-> "val", v |-> v], env, kont, store, glob, log)
  ELSE LET f == Head(kont)  k == Tail(kont) IN
  CASE f.k = "if" -> Ev(IF Truthy(v) THEN f.b ELSE f.c, f.env, k)
    [] f.k = "do" -> EvBody(f.rest, f.env, k, store)
    [] f.k = "bind" ->
         LET b == Bind(f.env, store, <<f.n>>, <<v>>)
             vals == Append(f.vals, v) IN
           IF f.rest = <<>>
             THEN IF f.loop
                    THEN EvBody(f.xs, b.env, Push([k |-> "loop", names |-> f.names, xs |-> f.xs, env |-> f.base], k), b.store)
                    ELSE EvBody(f.xs, b.env, k, b.store)
             ELSE Go("ev", f.rest[1].e, b.env,
                     Push([f EXCEPT !.n = f.rest[1].n, !.rest = Tail(f.rest), !.env = b.env,
                                    !.names = Append(f.names, f.rest[1].n), !.vals = vals], k),
                     b.store, glob, log)
    [] f.k = "arg" ->
         LET done == Append(f.done, v) IN
           IF f.todo = <<>> THEN Apply(done[1], Tail(done), k)
           ELSE Ev(f.todo[1], f.env, Push([f EXCEPT !.done = done, !.todo = Tail(f.todo)], k))
    [] f.k = "vec" ->
         LET done == Append(f.done, v) IN
           IF f.todo = <<>> THEN Ret(VecV(done), k)
           ELSE Ev(f.todo[1], f.env, Push([f EXCEPT !.done = done, !.todo = Tail(f.todo)], k))
    [] f.k = "recur" ->
         LET done == Append(f.done, v) IN
           IF f.todo = <<>> THEN DoRecur(done, k)
           ELSE Ev(f.todo[1], f.env, Push([f EXCEPT !.done = done, !.todo = Tail(f.todo)], k))
    [] f.k \in {"loop", "fn"} -> Ret(v, k)
    [] f.k = "throw" -> IF v.ty = "exc" THEN Thr(v, k) ELSE Thr(ExcV("TypeError"), k)
    [] f.k = "def" -> Go("rt", [ty |-> "var", n |-> f.n], env, k, store, Append(glob, <<f.n, v>>), log)
    [] f.k = "try" -> RunFinally(f.fin, f.env, "rt", v, k)
    [] f.k = "catch" -> RunFinally(f.fin, f.env, "rt", v, k)
    [] f.k = "fin" -> Go(f.resume, f.saved, env, k, store, glob, log)       \* value of the finally body is dropped
    [] f.k = "field" ->        \* the target is evaluated, then the property is read exactly once
         IF v.ty = "obj" THEN Go("rt", IF f.n = 0 THEN NilV ELSE IntV(f.n), env, k, store, glob, Append(log, 100 + f.n))
         ELSE Thr(ExcV("AttributeError"), k)
    [] f.k = "marg" ->         \* target first, then the arguments left to right, then the call
         LET done == Append(f.done, v) IN
           IF f.todo # <<>> THEN Ev(f.todo[1], f.env, Push([f EXCEPT !.done = done, !.todo = Tail(f.todo)], k))
           ELSE IF done[1].ty = "obj" THEN Go("rt", VecV(Tail(done)), env, k, store, glob, Append(log, 200 + f.n))
           ELSE Thr(ExcV("AttributeError"), k)
    [] f.k = "callall0" ->
         IF v.ty # "vec" THEN Thr(ExcV("TypeError"), k)
         ELSE IF v.xs = <<>> THEN Ret(VecV(<<>>), k)
         ELSE Apply(v.xs[1], <<>>, Push([k |-> "callall", done |-> <<>>, todo |-> Tail(v.xs)], k))
    [] f.k = "callall" ->
         LET done == Append(f.done, v) IN
           IF f.todo = <<>> THEN Ret(VecV(done), k)
           ELSE Apply(f.todo[1], <<>>, Push([f EXCEPT !.done = done, !.todo = Tail(f.todo)], k))

(* ---- "th": an exception unwinds the continuation ------------------------------------- *)
FirstHandler(cs, c) == LET hs == {i \in 1..Len(cs) : Handles(cs[i].c, c)} IN
                         IF hs = {} THEN 0 ELSE CHOOSE i \in hs : \A j \in hs : i <= j
StepTh ==
  LET x == ctl IN
  IF kont = <<>> THEN Go("done", [outcome |-> "exc", v |-> x], env, kont, store, glob, log)
  ELSE LET f == Head(kont)  k == Tail(kont) IN
  CASE f.k = "try" ->
         LET h == FirstHandler(f.cs, x.c) IN
           IF h = 0 THEN RunFinally(f.fin, f.env, "th", x, k)
           ELSE LET b == Bind(f.env, store, <<f.cs[h].n>>, <<x>>)
                IN EvBody(f.cs[h].xs, b.env, Push([k |-> "catch", fin |-> f.fin, env |-> f.env], k), b.store)
    [] f.k = "catch" -> RunFinally(f.fin, f.env, "th", x, k)
    [] OTHER -> Thr(x, k)        \* every other frame (including a running finally) is simply abandoned

MNext == \/ mode = "ev" /\ StepEv
         \/ mode = "rt" /\ StepRt
         \/ mode = "th" /\ StepTh

(* ---- what the machine guarantees (checked by TLC on every state of every program) ---- *)
(* the log only grows; a cell, once allocated, never changes (closures keep their bindings) *)
IsPrefixOf(s, t) == Len(s) <= Len(t) /\ \A i \in 1..Len(s) : s[i] = t[i]
LogAppendOnly == [][IsPrefixOf(log, log')]_mvars
CellsImmutable == [][IsPrefixOf(store, store')]_mvars
GlobalsAppendOnly == [][IsPrefixOf(glob, glob')]_mvars

===================================================================================
