---------------------------------- MODULE Xform ----------------------------------
(* C07 -- sequence functions and their transducers agree with each other and the model.  *)
(*                                                                                       *)
(* Every listed function is specified TWICE:                                              *)
(*   (1) a declarative REFERENCE on whole TLA+ sequences   (RefTake, RefPartitionBy, ...) *)
(*   (2) a transducer MACHINE: per-stage state, Step(stage, state, x) returning the        *)
(*       elements emitted downstream, the next state and whether `reduced` is signalled,   *)
(*       and Flush(stage, state) -- what completion still emits.                           *)
(* A process specification (Pull / StepThrough / Complete over the variables input (cursor  *)
(* cur), held, ss, out, reduced, completed, pulls) drives a pipeline of stages over an input *)
(* that is revealed element by element; the input may end after any element, so the state    *)
(* graph is the prefix tree of all inputs and every (pipeline, input) is one completed run.  *)
(* TLC checks for ALL pipelines and inputs within the bounds of a configuration that         *)
(*   * the completed run equals the composition of the references on the input: after every  *)
(*     prefix, machine output + what completion flushes = references on it    (FinalAgrees), *)
(*   * a run that stopped early (reduced) equals the composition of the references on EVERY  *)
(*     input that continues what it consumed                                 (ReducedSound), *)
(*   * Complete happens exactly once, after the last Pull and its StepThrough; nothing is    *)
(*     pulled after `reduced`; nothing happens after completion; every run ends completed    *)
(*        (CompletedOnce, CompleteAfterLastPull, NoPullAfterReduced, Quiescent, Terminal),   *)
(*   * a single stage never pulls more than it needs: after every step in which it has not   *)
(*     signalled `reduced` some continuation of the input still changes the result (NeedMore).*)
(* `pulls` of the completed run is MinPulls: what a pipeline of such stages consumes.  The    *)
(* property demands that consumption STOPS after termination, not that it is minimal: an      *)
(* implementation may notice the end one element late, so there are two bounds, MinPulls and  *)
(* MinPulls + Slack (Slack = 1); only the second is enforced on the code, anything beyond it  *)
(* (a `cat` that drains its input although `take` is satisfied) is a violation.               *)
(*                                                                                       *)
(* Values are tagged records.  Stage parameters come from a small vocabulary of TOTAL       *)
(* functions on the universe (Apply1 / Apply2 / ApplyC).  `cat` is partial (its inputs must *)
(* be collections): WellTyped removes the cases in which something else would reach it.    *)
(*                                                                                       *)
(* As-built deviations (named; empty set = required behaviour) parameterise the equality    *)
(* used by distinct / dedupe / partition-by, the head of the lazy dedupe, and whether the    *)
(* application form runs completion at all: with them TLC predicts what the pinned tree      *)
(* computes, so that the driver can give every mismatch the name of its cause -- or none,    *)
(* if it has another one.                                                                    *)
EXTENDS Integers, Sequences, FiniteSets, TLC, Json, Randomization

CONSTANTS Depth,      \* number of stages of a pipeline
          Mode,       \* "exh": all inputs of length 0..MaxLen; "samp": NSamp random (pipeline, input <= MaxLen) pairs;
                      \* "inf": NSamp random (pipeline, cycle) pairs, the cycle unrolled to MaxLen ("longer than any demand")
          MaxLen,
          NSamp,
          MinLen,     \* "samp": shortest sampled input
          CheckMin,   \* evaluate NeedMore (single stages, continuations up to ContLen)
          EmitCases,  \* print one <<"TAB", json>> line per completed run
          Mutant      \* "none"; otherwise a deliberately wrong machine that TLC must reject (negative configurations)

(* ------------------------------ values ------------------------------------------------ *)
Nil == [ty |-> "nil"]
B(b) == [ty |-> "bool", b |-> b]
I(i) == [ty |-> "int", i |-> i]
Ka == [ty |-> "kw"]
V(xs) == [ty |-> "vec", xs |-> xs]
None == [ty |-> "none"]                    \* "no element" (held, first key); never an element itself

U == <<Nil, B(FALSE), I(0), I(1), I(2), Ka>>                                       \* the element universe
VU == <<Nil, V(<<>>), V(<<Nil>>), V(<<I(0), I(1)>>), V(<<B(FALSE)>>), V(<<Ka, I(2), I(1)>>)>>  \* inputs of a leading cat

Truthy(x) == ~(x.ty = "nil") /\ ~(x.ty = "bool" /\ ~x.b)
Min(a, b) == IF a < b THEN a ELSE b

(* ------------------------------ parameter vocabulary ---------------------------------- *)
Apply1(f, x) ==
  CASE f = "identity" -> x
    [] f = "incish"   -> IF x.ty = "int" THEN I(x.i + 1) ELSE x       \* (fn [x] (if (number? x) (inc x) x))
    [] f = "vector"   -> V(<<x>>)
    [] f = "cnil"     -> Nil                                           \* (constantly nil)
    [] f = "nilp"     -> B(x.ty = "nil")
    [] f = "numberp"  -> B(x.ty = "int")
    [] f = "inset"    -> IF x = I(2) \/ x = Ka THEN x ELSE Nil         \* the set #{2 :a} used as a function

Apply2(g, i, x) ==
  CASE g = "ixvec"  -> V(<<I(i), x>>)                                  \* vector
    [] g = "ixeven" -> IF i % 2 = 0 THEN x ELSE Nil                    \* (fn [i x] (when (even? i) x))
    [] g = "ixnum"  -> IF x.ty = "int" THEN I(i + x.i) ELSE Nil        \* (fn [i x] (when (number? x) (+ i x)))

ApplyC(h, x) ==
  CASE h = "dup"  -> <<x, x>>                                          \* (fn [x] (list x x))
    [] h = "rng"  -> IF x.ty = "int" THEN [j \in 1..x.i |-> I(j - 1)] ELSE <<x>>   \* (if (number? x) (range x) [x])
    [] h = "cnil" -> <<>>                                              \* (constantly nil)

SepOf(e) == CASE e = "nil" -> Nil [] e = "a" -> Ka [] e = "0" -> I(0)

S(op, f, n) == [op |-> op, f |-> f, n |-> n]
Preds == <<"identity", "nilp", "numberp", "inset">>
StageSeq ==
     [i \in 1..4 |-> S("map", <<"identity", "incish", "vector", "cnil">>[i], 0)]
  \o [i \in 1..4 |-> S("filter", Preds[i], 0)]
  \o [i \in 1..3 |-> S("remove", <<"identity", "numberp", "inset">>[i], 0)]
  \o [i \in 1..4 |-> S("keep", <<"identity", "nilp", "inset", "cnil">>[i], 0)]
  \o [i \in 1..3 |-> S("keepix", <<"ixvec", "ixeven", "ixnum">>[i], 0)]
  \o [i \in 1..2 |-> S("mapix", <<"ixvec", "ixeven">>[i], 0)]
  \o [i \in 1..4 |-> S("take", "-", i - 1)]
  \o [i \in 1..4 |-> S("takewhile", Preds[i], 0)]
  \o [i \in 1..3 |-> S("takenth", "-", i)]
  \o [i \in 1..4 |-> S("drop", "-", i - 1)]
  \o [i \in 1..4 |-> S("dropwhile", Preds[i], 0)]
  \o [i \in 1..3 |-> S("interpose", <<"nil", "a", "0">>[i], 0)]
  \o [i \in 1..3 |-> S("partall", "-", i)]
  \o [i \in 1..4 |-> S("partby", <<"identity", "nilp", "numberp", "vector">>[i], 0)]
  \o <<S("distinct", "-", 0), S("dedupe", "-", 0), S("cat", "-", 0)>>
  \o [i \in 1..3 |-> S("mapcat", <<"dup", "rng", "cnil">>[i], 0)]
NS == Len(StageSeq)

(* ------------------------------ as-built deviations ----------------------------------- *)
DevDistinct == "DistinctConflatesBoolInt"     \* distinct looks elements up by Python hash/==: false is 0, true is 1
DevVecEq    == "VecEqConflatesBoolInt"        \* = on two sequential collections compares their elements with Python ==
DevDedupe   == "DedupeFalseyHead"             \* lazy dedupe: a first element that is nil/false ends the sequence
DevNoCompl  == "CompletionNeverRuns"          \* the application form never calls the completion arity (eduction, as built)
AllDevs == {DevDistinct, DevVecEq, DevDedupe, DevNoCompl}
InCompletion == "InCompletion"                \* not a deviation: marks the elements that completion hands down (counted apart)

RECURSIVE Norm(_)
Norm(x) == CASE x.ty = "bool" -> I(IF x.b THEN 1 ELSE 0)
             [] x.ty = "vec"  -> V([i \in 1..Len(x.xs) |-> Norm(x.xs[i])])
             [] OTHER -> x
KeyD(x, d) == IF DevDistinct \in d THEN Norm(x) ELSE x
EqD(x, y, d) == IF DevVecEq \in d /\ x.ty = "vec" /\ y.ty = "vec" THEN Norm(x) = Norm(y) ELSE x = y

(* ------------------------------ (1) declarative references ---------------------------- *)
Rank(Is, i) == Cardinality({b \in Is : b <= i})
Nth(Is, j) == CHOOSE i \in Is : Rank(Is, i) = j
SelIdx(s, Is) == [j \in 1..Cardinality(Is) |-> s[Nth(Is, j)]]          \* the elements at the positions Is, in order
RECURSIVE Cat(_)
Cat(ss) == IF Len(ss) = 0 THEN <<>> ELSE Head(ss) \o Cat(Tail(ss))
LongestPrefix(f, s) == CHOOSE k \in 0..Len(s) : /\ \A i \in 1..k : Truthy(Apply1(f, s[i]))
                                                /\ (k = Len(s) \/ ~Truthy(Apply1(f, s[k + 1])))

RefMap(f, s) == [i \in 1..Len(s) |-> Apply1(f, s[i])]
RefFilter(f, s) == SelIdx(s, {i \in 1..Len(s) : Truthy(Apply1(f, s[i]))})
RefRemove(f, s) == SelIdx(s, {i \in 1..Len(s) : ~Truthy(Apply1(f, s[i]))})
RefKeep(f, s) == SelIdx(RefMap(f, s), {i \in 1..Len(s) : Apply1(f, s[i]) # Nil})
RefMapIndexed(g, s) == [i \in 1..Len(s) |-> Apply2(g, i - 1, s[i])]
RefKeepIndexed(g, s) == SelIdx(RefMapIndexed(g, s), {i \in 1..Len(s) : Apply2(g, i - 1, s[i]) # Nil})
RefTake(n, s) == SubSeq(s, 1, Min(n, Len(s)))
RefDrop(n, s) == SubSeq(s, Min(n, Len(s)) + 1, Len(s))
RefTakeWhile(f, s) == SubSeq(s, 1, LongestPrefix(f, s))
RefDropWhile(f, s) == SubSeq(s, LongestPrefix(f, s) + 1, Len(s))
RefTakeNth(n, s) == [j \in 1..((Len(s) + n - 1) \div n) |-> s[(j - 1) * n + 1]]
RefInterpose(sep, s) == [j \in 1..(IF Len(s) = 0 THEN 0 ELSE 2 * Len(s) - 1) |->
                            IF j % 2 = 1 THEN s[(j + 1) \div 2] ELSE sep]
RefPartitionAll(n, s) == [j \in 1..((Len(s) + n - 1) \div n) |-> V(SubSeq(s, (j - 1) * n + 1, Min(j * n, Len(s))))]
RefPartitionBy(f, s, d) ==
  LET starts == {i \in 1..Len(s) : i = 1 \/ ~EqD(Apply1(f, s[i]), Apply1(f, s[i - 1]), d)}
      np == Cardinality(starts)
  IN [j \in 1..np |-> V(SubSeq(s, Nth(starts, j), IF j = np THEN Len(s) ELSE Nth(starts, j + 1) - 1))]
RefDistinct(s, d) == SelIdx(s, {i \in 1..Len(s) : \A j \in 1..(i - 1) : KeyD(s[j], d) # KeyD(s[i], d)})
RefDedupe(s, d) == IF DevDedupe \in d /\ Len(s) > 0 /\ ~Truthy(s[1]) THEN <<>>
                   ELSE SelIdx(s, {i \in 1..Len(s) : i = 1 \/ ~EqD(s[i], s[i - 1], d)})
RefMapcat(h, s) == Cat([i \in 1..Len(s) |-> ApplyC(h, s[i])])
RefCat(s) == Cat([i \in 1..Len(s) |-> IF s[i].ty = "vec" THEN s[i].xs ELSE <<>>])

RefStage(st, s, d) ==
  CASE st.op = "map"       -> RefMap(st.f, s)
    [] st.op = "filter"    -> RefFilter(st.f, s)
    [] st.op = "remove"    -> RefRemove(st.f, s)
    [] st.op = "keep"      -> RefKeep(st.f, s)
    [] st.op = "keepix"    -> RefKeepIndexed(st.f, s)
    [] st.op = "mapix"     -> RefMapIndexed(st.f, s)
    [] st.op = "take"      -> RefTake(st.n, s)
    [] st.op = "takewhile" -> RefTakeWhile(st.f, s)
    [] st.op = "takenth"   -> RefTakeNth(st.n, s)
    [] st.op = "drop"      -> RefDrop(st.n, s)
    [] st.op = "dropwhile" -> RefDropWhile(st.f, s)
    [] st.op = "interpose" -> RefInterpose(SepOf(st.f), s)
    [] st.op = "partall"   -> RefPartitionAll(st.n, s)
    [] st.op = "partby"    -> RefPartitionBy(st.f, s, d)
    [] st.op = "distinct"  -> RefDistinct(s, d)
    [] st.op = "dedupe"    -> RefDedupe(s, d)
    [] st.op = "mapcat"    -> RefMapcat(st.f, s)
    [] st.op = "cat"       -> RefCat(s)

RECURSIVE RefFrom(_, _, _, _)
RefFrom(p, k, s, d) == IF k > Len(p) THEN s ELSE RefFrom(p, k + 1, RefStage(p[k], s, d), d)
RefPipe(p, s, d) == RefFrom(p, 1, s, d)           \* composition of the references, first stage first

(* ------------------------------ (2) the transducer machine ---------------------------- *)
St(c, buf, key, seen) == [c |-> c, buf |-> buf, key |-> key, seen |-> seen, m |-> 0, mc |-> 0]
   \* m: elements this stage was handed by steps, mc: by the completion of the stages above it
Init0(st) == St(IF st.op \in {"take", "drop"} THEN st.n ELSE 0, <<>>, None, {})
R(out, s, red) == [out |-> out, s |-> s, red |-> red]

Step(st, s, x, d) ==
  CASE st.op = "map"    -> R(<<Apply1(st.f, x)>>, s, FALSE)
    [] st.op = "filter" -> R(IF Truthy(Apply1(st.f, x)) THEN <<x>> ELSE <<>>, s, FALSE)
    [] st.op = "remove" -> R(IF Truthy(Apply1(st.f, x)) THEN <<>> ELSE <<x>>, s, FALSE)
    [] st.op = "keep"   -> LET v == Apply1(st.f, x) IN R(IF v = Nil THEN <<>> ELSE <<v>>, s, FALSE)
    [] st.op = "keepix" -> LET v == Apply2(st.f, s.c, x) IN
                             R(IF v = Nil THEN <<>> ELSE <<v>>, [s EXCEPT !.c = s.c + 1], FALSE)
    [] st.op = "mapix"  -> R(<<Apply2(st.f, s.c, x)>>, [s EXCEPT !.c = s.c + 1], FALSE)
    [] st.op = "take"   -> IF Mutant = "latetake"
                             THEN (IF s.c > 0 THEN R(<<x>>, [s EXCEPT !.c = s.c - 1], FALSE) ELSE R(<<>>, s, TRUE))
                           ELSE IF s.c > 0 THEN R(<<x>>, [s EXCEPT !.c = s.c - 1], s.c = 1)   \* reduced WITH the n-th element
                           ELSE R(<<>>, s, TRUE)
    [] st.op = "takewhile" -> IF s.c = 0 /\ Truthy(Apply1(st.f, x)) THEN R(<<x>>, s, FALSE)
                              ELSE R(<<>>, [s EXCEPT !.c = 1], TRUE)       \* over for good: what the completion of a stage above
                                                                          \* still hands down is not looked at again
    [] st.op = "takenth"   -> R(IF s.c = 0 THEN <<x>> ELSE <<>>, [s EXCEPT !.c = (s.c + 1) % st.n], FALSE)
    [] st.op = "drop"      -> IF s.c > 0 THEN R(<<>>, [s EXCEPT !.c = s.c - 1], FALSE) ELSE R(<<x>>, s, FALSE)
    [] st.op = "dropwhile" -> IF (s.c = 0 \/ Mutant = "dropwhileretest") /\ Truthy(Apply1(st.f, x)) THEN R(<<>>, s, FALSE)
                              ELSE R(<<x>>, [s EXCEPT !.c = 1], FALSE)
    [] st.op = "interpose" -> IF s.c = 0 THEN R(<<x>>, [s EXCEPT !.c = 1], FALSE) ELSE R(<<SepOf(st.f), x>>, s, FALSE)
    [] st.op = "partall"   -> LET b == Append(s.buf, x) IN
                                IF Len(b) = st.n THEN R(<<V(b)>>, [s EXCEPT !.buf = <<>>], FALSE)
                                ELSE R(<<>>, [s EXCEPT !.buf = b], FALSE)
    [] st.op = "partby"    -> LET k == Apply1(st.f, x) IN
                                IF s.key = None \/ EqD(s.key, k, d)
                                  THEN R(<<>>, [s EXCEPT !.buf = Append(s.buf, x), !.key = k], FALSE)
                                ELSE R(<<V(s.buf)>>, [s EXCEPT !.buf = <<x>>, !.key = k], FALSE)
    [] st.op = "distinct"  -> IF KeyD(x, d) \in s.seen THEN R(<<>>, s, FALSE)
                              ELSE R(<<x>>, [s EXCEPT !.seen = s.seen \cup {KeyD(x, d)}], FALSE)
    [] st.op = "dedupe"    -> IF s.key # None /\ EqD(s.key, x, d) THEN R(<<>>, s, FALSE)
                              ELSE R(<<x>>, [s EXCEPT !.key = x], FALSE)
    [] st.op = "mapcat"    -> R(ApplyC(st.f, x), s, FALSE)
    [] st.op = "cat"       -> R(IF x.ty = "vec" THEN x.xs ELSE <<>>, s, FALSE)

HasFlush(st) == st.op \in {"partall", "partby"}            \* stages whose completion has something to hand on
Flush(st, s) == IF HasFlush(st) /\ Len(s.buf) > 0 /\ Mutant # "noflush" THEN <<V(s.buf)>> ELSE <<>>

(* one element into stage k and on through the stages below it; the elements a stage emits go down one *)
(* by one and the rest is dropped as soon as `reduced` is signalled (by: the stage that signalled it); *)
(* ok: no `cat` stage was handed something that is not a collection                                    *)
M(ss, out, red, by, ok) == [ss |-> ss, out |-> out, red |-> red, by |-> by, ok |-> ok]
IsColl(x) == x.ty \in {"vec", "nil"}
RECURSIVE One(_, _, _, _, _), Feed(_, _, _, _, _)
One(p, ss, k, x, d) ==
  IF k > Len(p) THEN M(ss, <<x>>, FALSE, 0, TRUE)
  ELSE LET r == Step(p[k], ss[k], x, d)
           dn == Feed(p, [ss EXCEPT ![k] = IF InCompletion \in d THEN [r.s EXCEPT !.mc = @ + 1] ELSE [r.s EXCEPT !.m = @ + 1]],
                      k + 1, r.out, d)
       IN M(dn.ss, dn.out, r.red \/ dn.red, IF dn.red THEN dn.by ELSE IF r.red THEN k ELSE 0,
            dn.ok /\ (p[k].op = "cat" => IsColl(x)))
Feed(p, ss, k, xs, d) ==
  IF Len(xs) = 0 THEN M(ss, <<>>, FALSE, 0, TRUE)
  ELSE LET a == One(p, ss, k, Head(xs), d) IN
       IF a.red THEN a
       ELSE LET b == Feed(p, a.ss, k, Tail(xs), d) IN M(b.ss, a.out \o b.out, b.red, b.by, a.ok /\ b.ok)

(* completion: every stage, first to last, hands what it still holds to the stages below it *)
RECURSIVE FlushFrom(_, _, _, _)
FlushFrom(p, ss, k, d) ==
  IF k > Len(p) THEN M(ss, <<>>, FALSE, 0, TRUE)
  ELSE LET dn == Feed(p, [ss EXCEPT ![k].buf = <<>>], k + 1, Flush(p[k], ss[k]), d \cup {InCompletion})
           rest == FlushFrom(p, dn.ss, k + 1, d)
       IN M(rest.ss, dn.out \o rest.out, FALSE, 0, TRUE)

InitStates(p) == [k \in 1..Len(p) |-> Init0(p[k])]

(* the machine as a function (used for the as-built predictions): input consumed until reduced / the end *)
RECURSIVE RunFrom(_, _, _, _, _, _)
RunFrom(p, ss, s, i, acc, d) ==
  IF i > Len(s) THEN [ss |-> ss, out |-> acc, n |-> Len(s)]
  ELSE LET a == One(p, ss, 1, s[i], d) IN
       IF a.red THEN [ss |-> a.ss, out |-> acc \o a.out, n |-> i] ELSE RunFrom(p, a.ss, s, i + 1, acc \o a.out, d)
MachineRun(p, s, d) ==
  LET r == RunFrom(p, InitStates(p), s, 1, <<>>, d)
  IN [out |-> IF DevNoCompl \in d THEN r.out ELSE r.out \o FlushFrom(p, r.ss, 1, d).out, pulls |-> r.n]
MachineOut(p, s, d) == MachineRun(p, s, d).out

(* ------------------------------ the process -------------------------------------------- *)
(* The input is revealed one element at a time.  In mode "exh" the environment chooses every next      *)
(* element and when the input ends (Complete is possible after every element), so that TLC's state      *)
(* graph is the prefix tree of all inputs up to MaxLen: one run per input, prefixes shared.  In the     *)
(* sampled modes the whole input (`plan`) is fixed in the initial state.                                *)
VARIABLES pipe,       \* the pipeline: indices into StageSeq
          plan,       \* sampled modes: the whole input; "exh": <<>>
          clen,       \* mode "inf": plan is the unrolling of its first clen elements, repeated for ever; else 0
          input,      \* the elements pulled so far (the input cursor is cur == Len(input))
          held,       \* the element pulled and not yet stepped through the stages (None: nothing)
          ss,         \* stage states
          out,        \* elements that left the last stage
          reduced, redby, completed, pulls,
          wt          \* FALSE: a cat stage received a non-collection (the case is outside the domain; pruned)
vars == <<pipe, plan, clen, input, held, ss, out, reduced, redby, completed, pulls, wt>>
cur == Len(input)

Pipes == [1..Depth -> 1..NS]
PipeOf(ix) == [k \in 1..Len(ix) |-> StageSeq[ix[k]]]
P == PipeOf(pipe)
Univ(p) == IF p[1].op = "cat" THEN VU ELSE U
UnivSet(p) == {Univ(p)[j] : j \in 1..6}
InputOf(p, ix) == [k \in 1..Len(ix) |-> Univ(p)[ix[k]]]
Unroll(c, n) == [k \in 1..n |-> c[((k - 1) % Len(c)) + 1]]
Whole == IF Mode = "exh" THEN input ELSE plan           \* the input of this run

Start(ix, s, c) == /\ pipe = ix /\ plan = s /\ clen = c /\ input = <<>> /\ held = None /\ ss = InitStates(PipeOf(ix)) /\ out = <<>>
                /\ reduced = FALSE /\ redby = 0 /\ completed = 0 /\ pulls = 0 /\ wt = TRUE

(* a random sample is drawn as ONE function into 1..6 (the only kind of set TLC samples without enumerating it, *)
(* and its size must stay below 2^63): three base-6 digits select a stage, two the length, the rest are elements *)
SampleSpace(n) == [1..(3 * Depth + 2 + n) -> 1..6]
Dig(t, i) == t[i] - 1
PipeIx(t) == [k \in 1..Depth |-> ((36 * Dig(t, 3 * k - 2) + 6 * Dig(t, 3 * k - 1) + Dig(t, 3 * k)) % NS) + 1]
LenSel(t) == 6 * Dig(t, 3 * Depth + 1) + Dig(t, 3 * Depth + 2)
ElemIx(t, len) == [k \in 1..len |-> t[3 * Depth + 2 + k]]
Init ==
  CASE Mode = "exh"  -> \E ix \in Pipes : Start(ix, <<>>, 0)
    [] Mode = "samp" -> \E t \in RandomSubset(NSamp, SampleSpace(MaxLen)) :
                            LET len == MinLen + (LenSel(t) % (MaxLen - MinLen + 1)) IN
                              Start(PipeIx(t), InputOf(PipeOf(PipeIx(t)), ElemIx(t, len)), 0)
    [] Mode = "inf"  -> \E t \in RandomSubset(NSamp, SampleSpace(3)) :
                            LET len == 1 + (LenSel(t) % 3) IN
                              Start(PipeIx(t), Unroll(InputOf(PipeOf(PipeIx(t)), ElemIx(t, len)), MaxLen), len)

Pull == /\ completed = 0 /\ ~reduced /\ held = None
        /\ IF Mode = "exh" THEN cur < MaxLen /\ \E x \in UnivSet(P) : held' = x
           ELSE cur < Len(plan) /\ held' = plan[cur + 1]
        /\ input' = Append(input, held') /\ pulls' = pulls + 1
        /\ UNCHANGED <<pipe, plan, clen, ss, out, reduced, redby, completed, wt>>

StepThrough == /\ held # None
               /\ LET r == One(P, ss, 1, held, {}) IN
                    /\ ss' = r.ss /\ out' = out \o r.out /\ reduced' = r.red /\ redby' = r.by /\ wt' = (wt /\ r.ok)
               /\ held' = None
               /\ UNCHANGED <<pipe, plan, clen, input, completed, pulls>>

Complete == /\ completed = 0 /\ held = None
            /\ (IF Mode = "exh" \/ reduced THEN TRUE ELSE cur = Len(plan))       \* "exh": the input may end anywhere
            /\ LET f == FlushFrom(P, ss, 1, {}) IN ss' = f.ss /\ out' = out \o f.out
            /\ completed' = completed + 1
            /\ UNCHANGED <<pipe, plan, clen, input, held, reduced, redby, pulls, wt>>

Next == Pull \/ StepThrough \/ Complete
Spec == Init /\ [][Next]_vars
WellTyped == wt                               \* state constraint: runs outside the domain of cat are not continued

(* ------------------------------ what TLC checks ----------------------------------------- *)
(* every completed run = every (pipeline, input): the machine's output is the composition of the references *)
FinalAgrees == (completed = 1 /\ wt) => /\ out = RefPipe(P, Whole, {})
                                        /\ pulls = cur
                                        /\ (~reduced => cur = Len(Whole))
(* ... also when the run stopped early: whatever the input would still have held, the result is the same *)
Tails(n) == UNION {[1..k -> UnivSet(P)] : k \in 1..n}
ReducedSound == (Mode = "exh" /\ completed = 1 /\ wt /\ reduced /\ cur < MaxLen) =>
                   \A t \in Tails(MaxLen - cur) : out = RefPipe(P, input \o t, {})
(* the machine written as a function (used for the as-built predictions) is the same machine *)
FunctionalAgrees == (completed = 1 /\ wt) => LET r == MachineRun(P, Whole, {}) IN out = r.out /\ pulls = r.pulls
Terminal == (~ENABLED Next) => completed = 1                            \* every run ends, and ends completed
CompletedOnce == completed \in {0, 1}
Quiescent == [][completed = 1 => FALSE]_vars                            \* nothing happens after completion
NoPullAfterReduced == [][reduced => (pulls' = pulls /\ input' = input)]_vars
CompleteAfterLastPull == [][completed' # completed => (held = None /\ (Mode = "exh" \/ reduced \/ cur = Len(plan)))]_vars

(* a single stage has pulled no more than it had to: a stage can signal `reduced` only from a step; after every step *)
(* in which it has not done so, some continuation of what it has seen changes the result (stages whose parameter   *)
(* makes them constant are exempt)                                                                                 *)
ContLen == 4
Degenerate(p) == \E k \in 1..Len(p) : p[k].op \in {"keep", "mapcat"} /\ p[k].f = "cnil"
NeedMore == (CheckMin /\ Depth = 1 /\ cur >= 1 /\ held = None /\ completed = 0 /\ ~reduced /\ ~Degenerate(P)) =>
               \E k \in 1..ContLen : \E t \in [1..k -> UnivSet(P)] :
                  RefPipe(P, input \o t, {}) # RefPipe(P, input, {})

(* ------------------------------ what leaves TLC ------------------------------------------ *)
RECURSIVE Enc(_)
Enc(x) == CASE x.ty = "nil"  -> "n"
            [] x.ty = "bool" -> (IF x.b THEN "t" ELSE "f")
            [] x.ty = "int"  -> x.i
            [] x.ty = "kw"   -> "a"
            [] x.ty = "vec"  -> [i \in 1..Len(x.xs) |-> Enc(x.xs[i])]
EncSeq(s) == [i \in 1..Len(s) |-> Enc(s[i])]

Slack == 1                                  \* elements an implementation may consume beyond MinPulls
HasOp(p, ops) == \E k \in 1..Len(p) : p[k].op \in ops
Applicable(p) == (IF HasOp(p, {"distinct"}) THEN {DevDistinct} ELSE {})
            \cup (IF HasOp(p, {"dedupe", "partby"}) THEN {DevVecEq} ELSE {})
            \cup (IF HasOp(p, {"dedupe"}) THEN {DevDedupe} ELSE {})
            \cup (IF HasOp(p, {"partall", "partby"}) THEN {DevNoCompl} ELSE {})
OutUnder(fc, p, s, d) == IF fc = "lazy" THEN RefPipe(p, s, d) ELSE MachineOut(p, s, d)
PullsUnder(p, s, d) == MachineRun(p, s, d \ {DevDedupe}).pulls
(* the application forms fall into three classes; per class the sets of deviations that can show in it, smallest first. *)
(* A prediction is written out when it differs from what is required in the result or in what is consumed.              *)
Subsets3(a, b, c) == <<{a}, {b}, {c}, {a, b}, {a, c}, {b, c}, {a, b, c}>>
AltCands == [i \in 1..7 |-> <<"lazy", Subsets3(DevDistinct, DevVecEq, DevDedupe)[i]>>]
         \o [i \in 1..7 |-> <<"xf", Subsets3(DevDistinct, DevVecEq, DevNoCompl)[i]>>]
         \o [i \in 1..7 |-> <<"edu", Subsets3(DevDistinct, DevVecEq, DevNoCompl)[i]>>]
Alts(p, s) == LET sel == SelectSeq(AltCands, LAMBDA c : c[2] \subseteq Applicable(p)
                                     /\ (OutUnder(c[1], p, s, c[2]) # out \/ PullsUnder(p, s, c[2]) # pulls))
              IN [i \in 1..Len(sel) |-> [fc |-> sel[i][1], devs |-> sel[i][2], out |-> EncSeq(OutUnder(sel[i][1], p, s, sel[i][2])),
                                         minp |-> PullsUnder(p, s, sel[i][2])]]

(* one line per (pipeline, input); steps[k] = how many elements stage k was handed before completion,      *)
(* stepsc[k] = including those that completion handed down.                                               *)
(* A run that stopped early stands for every input that continues the                                    *)
(* consumed prefix (ReducedSound): `ext` = how long a continuation TLC has checked; the driver appends     *)
(* them.  Where an as-built deviation applies the continuations are written out, each with its own          *)
(* predictions.  In mode "inf" only runs that stop well inside the unrolled prefix are cases.               *)
Line(shown, s, ext) == PrintT(<<"TAB", ToJson([pi |-> pipe, inp |-> EncSeq(shown), out |-> EncSeq(out), minp |-> pulls,
                                               red |-> reduced, redby |-> redby, ext |-> ext,
                                               steps |-> [k \in 1..Len(pipe) |-> ss[k].m],
                                               stepsc |-> [k \in 1..Len(pipe) |-> ss[k].m + ss[k].mc],
                                               alts |-> IF Applicable(P) = {} THEN <<>> ELSE Alts(P, s)])>>)
Emit == (EmitCases /\ completed = 1 /\ wt) =>
           CASE Mode = "inf"  -> (reduced /\ pulls + Slack + 1 <= Len(plan)) => Line(SubSeq(plan, 1, clen), plan, -1)
             [] Mode = "samp" -> Line(plan, plan, 0)
             [] OTHER -> IF reduced /\ cur < MaxLen /\ Applicable(P) # {}
                           THEN Line(input, input, 0) /\ \A t \in Tails(MaxLen - cur) : Line(input \o t, input \o t, 0)
                         ELSE Line(input, input, IF reduced THEN MaxLen - cur ELSE 0)

(* the vocabulary, once per run: the driver builds the real transducers and inputs from it *)
ASSUME PrintT(<<"VOC", ToJson([stages |-> StageSeq, u |-> EncSeq(U), vu |-> EncSeq(VU), slack |-> Slack,
                               flush |-> {StageSeq[i].op : i \in {j \in 1..NS : HasFlush(StageSeq[j])}}])>>)
===================================================================================
