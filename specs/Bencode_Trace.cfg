INIT InitT
NEXT StepT
CONSTRAINT Accept
CHECK_DEADLOCK FALSE
