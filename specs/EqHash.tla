---------------------------------- MODULE EqHash ----------------------------------
(* C05 -- equality is an equivalence that hashing and lookup respect (required).       *)
(*                                                                                    *)
(* A universe U (a sequence, so that a value is named by its index) of abstract values *)
(* each with a REPRESENTATION: the same mathematical value occurs as vector / list /   *)
(* cons / lazy seq / queue / map entry / range, as int / float / ratio / decimal, as   *)
(* persistent map / record, ...                                                        *)
(*   Canon(v)  the equivalence class of v as the property defines it: representation   *)
(*             is forgotten for sequential values and numbers, booleans never merge    *)
(*             with numbers at any depth, maps and sets are sets of entry / element    *)
(*             classes, a record carries its type (basilisp and Clojure: a record      *)
(*             equals only a record of the same type), NaN is in no class with itself. *)
(*   Eq(x, y)  == Canon(x) = Canon(y)  (and neither is NaN)                             *)
(* Machine T: one state per triple of indices; equivalence laws are invariants.        *)
(* The lookup machine (keyed by class) is in EqHashImpl, next to the as-built keying.  *)
EXTENDS Integers, Sequences, FiniteSets, TLC

CONSTANTS U        \* the universe: a sequence of value records (built with the constructors below)

(* ------------------------------ value constructors ---------------------------------- *)
Nil == [k |-> "nil"]
B(x) == [k |-> "bool", b |-> x]
(* a number n/d (d > 0) in representation r: "int" "float" "nfloat" (negative zero) "ratio" "dec" *)
N(r, n, d) == [k |-> "num", r |-> r, n |-> n, d |-> d]
I(n) == N("int", n, 1)
NaN == [k |-> "nan"]
Str(s) == [k |-> "str", s |-> s]
Kw(s) == [k |-> "kw", s |-> s]
Sym(s) == [k |-> "sym", s |-> s]
(* sequential value: r in "vector" "list" "cons" "lazy" "queue" "entry" "range" *)
S(r, xs) == [k |-> "seq", r |-> r, xs |-> xs]
(* map: r = "pmap" or "rec:<Type>"; es = sequence of <<key, value>> *)
M(r, es) == [k |-> "map", r |-> r, es |-> es]
St(xs) == [k |-> "set", xs |-> xs]

(* ------------------------------ the classes ----------------------------------------- *)
RECURSIVE Gcd(_, _)
Gcd(x, y) == IF y = 0 THEN x ELSE Gcd(y, x % y)
Abs(x) == IF x < 0 THEN -x ELSE x
NumClass(n, d) == LET g == Gcd(Abs(n), d) IN IF n = 0 THEN <<"num", 0, 1>> ELSE <<"num", n \div g, d \div g>>

RECURSIVE Canon(_)
Canon(v) ==
  CASE v.k = "nil" -> <<"nil">>
    [] v.k = "bool" -> <<"bool", IF v.b THEN 1 ELSE 0>>
    [] v.k = "num" -> NumClass(v.n, v.d)
    [] v.k = "nan" -> <<"nan">>
    [] v.k \in {"str", "kw", "sym"} -> <<v.k, v.s>>
    [] v.k = "seq" -> <<"seq", [i \in 1..Len(v.xs) |-> Canon(v.xs[i])]>>
    [] v.k = "set" -> <<"set", {Canon(v.xs[i]) : i \in 1..Len(v.xs)}>>
    [] v.k = "map" -> <<IF v.r = "pmap" THEN "map" ELSE v.r,
                        {<<Canon(v.es[i][1]), Canon(v.es[i][2])>> : i \in 1..Len(v.es)}>>

IsNaN(v) == v.k = "nan"
Eq(x, y) == ~IsNaN(x) /\ ~IsNaN(y) /\ Canon(x) = Canon(y)

(* does a boolean / a number occur anywhere in v ? (for the anti-vacuity assumptions) *)
RECURSIVE Has(_, _)
Has(v, kind) == \/ v.k = kind
                \/ v.k \in {"seq", "set"} /\ \E i \in 1..Len(v.xs) : Has(v.xs[i], kind)
                \/ v.k = "map" /\ \E i \in 1..Len(v.es) : Has(v.es[i][1], kind) \/ Has(v.es[i][2], kind)

VARIABLES a, b, c
tvars == <<a, b, c>>
NU == Len(U)
El(i) == U[i]

(* U is a constant: the tables are evaluated once *)
CanonTab == [i \in 1..NU |-> Canon(U[i])]
EqTab == [i \in 1..NU |-> [j \in 1..NU |-> ~IsNaN(U[i]) /\ ~IsNaN(U[j]) /\ CanonTab[i] = CanonTab[j]]]
EqI(i, j) == EqTab[i][j]

InitT == a \in 1..NU /\ b \in 1..NU /\ c \in 1..NU
NextT == UNCHANGED tvars

Reflexive == ~IsNaN(El(a)) => EqI(a, a)
NaNIrreflexive == IsNaN(El(a)) => (~EqI(a, a) /\ ~EqI(a, b) /\ ~EqI(b, a))
Symmetric == EqI(a, b) <=> EqI(b, a)
Transitive == (EqI(a, b) /\ EqI(b, c)) => EqI(a, c)
(* sequential values: equal exactly when their elements are pairwise equal in order *)
SeqByElements == (c = 1 /\ El(a).k = "seq" /\ El(b).k = "seq") =>
                   (EqI(a, b) <=> (/\ Len(El(a).xs) = Len(El(b).xs)
                                          /\ \A i \in 1..Len(El(a).xs) : Eq(El(a).xs[i], El(b).xs[i])))
(* a boolean never equals a number: values that differ in a boolean-for-number position are unequal *)
BoolNeverNum == (El(a).k = "bool" /\ El(b).k = "num") => (~EqI(a, b) /\ ~EqI(b, a))
(* only values of the same kind are ever equal (a vector is not a set, nil is not an empty list, ...) *)
KindsApart == EqI(a, b) => El(a).k = El(b).k

(* the universe really contains what the property is about *)
ASSUME \E i, j \in 1..NU : U[i].k = "seq" /\ U[j].k = "seq" /\ U[i].r # U[j].r /\ Eq(U[i], U[j])
ASSUME \E i, j \in 1..NU : U[i].k = "num" /\ U[j].k = "num" /\ U[i].r # U[j].r /\ Eq(U[i], U[j])
ASSUME \E i, j \in 1..NU : U[i].k = "seq" /\ U[j].k = "seq" /\ Has(U[i], "bool") /\ ~Has(U[j], "bool")
                            /\ ~Eq(U[i], U[j]) /\ Len(U[i].xs) = Len(U[j].xs)
ASSUME \E i \in 1..NU : IsNaN(U[i])
===================================================================================
