INIT InitG
NEXT NextG
CONSTANTS MaxMsgs = 3  UniSize = 9  Dev = "none"
INVARIANT EmitG
INVARIANT GotIsPrefix
INVARIANT BufIsRemainder
INVARIANT NeverPartial
CHECK_DEADLOCK FALSE
