CONSTANTS Threads <- T2  Progs <- GenProgs  InitVal <- MCInit  Validator = "lt3"  Watching = TRUE
          CasIdentityFirst = TRUE  UseLock = TRUE
SPECIFICATION GSpec
CONSTRAINT Emit
CHECK_DEADLOCK FALSE
