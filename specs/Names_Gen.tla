--------------------------------- MODULE Names_Gen ---------------------------------
(* Behaviour generation for C10 (spec -> code): NamesImpl with a history variable.     *)
(* One line per reached (history, state):                                              *)
(*   <<"BEH", [h: the actions so far, cur, t: per name, per spelling, per mode:        *)
(*             r = the outcomes Names.tla allows, i = the outcome of the as-built      *)
(*             model under the deviation sets {}, {MungeCollision}, {StaleRefer},      *)
(*             {MungeCollision, StaleRefer}]>>                                          *)
(* The driver replays h in fresh namespaces and compares every read with r; a read     *)
(* outside r is classified by the smallest deviation set whose i equals it.            *)
EXTENDS Names_MC

CONSTANTS MaxLen
VARIABLES hist
gvars == <<vr, refers, alias, req, cur, gl, hist>>

Act(a, n, fl) == [a |-> a, ns |-> cur, n |-> n, fl |-> fl]
GInit == IInit /\ hist = <<>>
GNext == /\ Len(hist) < MaxLen
         /\ \/ \E n \in Names, fl \in Flags :
                  IDef(n, fl) /\ hist' = Append(hist, [Act("def", n, fl) EXCEPT !.fl = fl] @@ [v |-> DefVal(cur, n, NextT(cur, n))])
            \/ IInNs /\ hist' = Append(hist, Act("inns", "-", "-") @@ [v |-> 0])
            \/ IRequireAs /\ hist' = Append(hist, Act("req", "-", "-") @@ [v |-> 0])
            \/ IAliasSelf /\ hist' = Append(hist, Act("aliasself", "-", "-") @@ [v |-> 0])
            \/ \E n \in Names : IRefer(n) /\ hist' = Append(hist, Act("refer", n, "-") @@ [v |-> 0])
            \/ \E n \in Names : IAlterRoot(n) /\ hist' = Append(hist, Act("alter", n, "-") @@ [v |-> AltVal(cur, n)])
GSpec == GInit /\ [][GNext]_gvars

SpSeq == <<"bare", "al", "fqA", "fqB", "loc", "var", "bind", "redef", "fqp">>
SetSeq(S) == IF Cardinality(S) = 1 THEN <<CHOOSE x \in S : TRUE>>
             ELSE LET a == CHOOSE x \in S : \A y \in S : x <= y IN <<a, CHOOSE x \in S : x # a>>
Cell(n, sp, m) == [r |-> SetSeq(Req(n, sp, m)),
                   i |-> <<Impl(n, sp, m, FALSE, FALSE), Impl(n, sp, m, TRUE, FALSE),
                           Impl(n, sp, m, FALSE, TRUE), Impl(n, sp, m, TRUE, TRUE)>>]
Table == [k \in 1..Len(NameSeq) |->
            [s \in 1..Len(SpSeq) |-> [d |-> Cell(NameSeq[k], SpSeq[s], "d"), i |-> Cell(NameSeq[k], SpSeq[s], "i")]]]
Emit == PrintT(<<"BEH", ToJson([h |-> hist, cur |-> cur, t |-> Table])>>)
(* simulation over the whole pool only CHOOSES histories (TLC evaluates a constraint on every candidate   *)
(* successor, so tables are not printed here): the history is printed when it has reached MaxLen and its  *)
(* expectations are produced by Names_Follow                                                               *)
EmitHist == Len(hist) = MaxLen => PrintT(<<"HIS", ToJson(hist)>>)

(* negative jobs: with a deviation switched on the refinement must fail; the violating state prints the   *)
(* history that leads to it (breadth-first search, one worker: a shortest one) and one failing read       *)
Bad(dm, ds) == {c \in Names \X Spellings \X Modes : ~Conforms(c[1], c[2], c[3], dm, ds)}
WitnessOf(B, dm, ds) ==
  LET c == CHOOSE c \in B : TRUE IN
  PrintT(<<"WIT", ToJson([h |-> hist, n |-> c[1], sp |-> c[2], m |-> c[3],
                           req |-> SetSeq(Req(c[1], c[2], c[3])), impl |-> Impl(c[1], c[2], c[3], dm, ds)])>>)
Witness(dm, ds) == WitnessOf(Bad(dm, ds), dm, ds)
WitnessMunge == Refines(TRUE, FALSE) \/ (Witness(TRUE, FALSE) /\ FALSE)
WitnessStale == Refines(FALSE, TRUE) \/ (Witness(FALSE, TRUE) /\ FALSE)
(* the shortest history after which a read yields the VALUE of another name's binding *)
BadValue(dm, ds) == {c \in Bad(dm, ds) : Impl(c[1], c[2], c[3], dm, ds) > 0}
WitnessMungeValue == BadValue(TRUE, FALSE) = {} \/ (WitnessOf(BadValue(TRUE, FALSE), TRUE, FALSE) /\ FALSE)
====================================================================================
