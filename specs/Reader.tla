---------------------------------- MODULE Reader ----------------------------------
(* C16 -- the reader is total, classifies incomplete input, and reports true locations.     *)
(*                                                                                          *)
(* A pushdown automaton over code points.  A state `s` holds the stack of open contexts     *)
(* (collections, prefixes waiting for their operand, raw modes: string / regex / byte       *)
(* string / comment), the token under construction, the position [line, col, offset] of     *)
(* the next character (LF, CRLF and CR each end a line), the finished top-level forms with  *)
(* their spans and metadata, and `err`:                                                     *)
(*     "none"    no error so far                                                            *)
(*     "syntax"  the text is malformed (sticky)                                             *)
(*     "unspec"  the text left the fragment this specification describes (sticky):          *)
(*               nothing is required any more except totality / error class / data only     *)
(* `maybe` (sticky) records that a token or literal whose validity this specification       *)
(* leaves open (numbers other than plain decimal integers, names containing '/', \u escapes, *)
(* regex bodies with special characters, known data-reader tags, possibly duplicated keys)  *)
(* has been read: a syntax error is then also allowed.                                      *)
(*                                                                                          *)
(* EOI(s) is the verdict at end of input: the set of allowed outcomes among                 *)
(*   "ok" (forms), "eof" (unexpected end of input), "syntax" (other syntax error)           *)
(* `eof` is REQUIRED (the only allowed outcome) iff no syntax error occurred earlier and a  *)
(* form is still owed by one of the constructs the property lists: unterminated list,       *)
(* vector, map, set, #() body, string, regex, byte string (also with an escape cut off),    *)
(* and end of input right after quote, deref, unquote, unquote-splicing, metadata and a     *)
(* tag.  For the other prefixes (syntax-quote, #_, #', a lone #, ##, #:, a lone \) the      *)
(* verdict may be eof, syntax, or whatever the rest of the stack yields when the prefix     *)
(* reads as nothing.                                                                        *)
EXTENDS Integers, Sequences, FiniteSets, TLC, Json

CONSTANTS Alphabet,     \* sequence of code points enumerated by the generation job
          MaxLen,       \* every string of length <= MaxLen over Alphabet is classified
          DetailLen,    \* strings of length <= DetailLen get skeleton + spans, longer ones the verdict only
          CRIsNewline   \* TRUE in the specification; FALSE is the rejected deviation (anti-vacuity)

(* alphabets of the generation jobs (cfg: Alphabet <- AlphaW ...)                                  *)
(* ( ) [ ] { } " \ # ' ` ~ @ ^ ; : g 1 space newline _ b e-acute                                   *)
AlphaW == <<40, 41, 91, 93, 123, 125, 34, 92, 35, 39, 96, 126, 64, 94, 59, 58, 103, 49, 32, 10, 95, 98, 233>>
(* ( ) [ ] { } " \ # ' ^ ; g newline : the 14 delimiter / dispatch characters enumerated deepest    *)
AlphaD == <<40, 41, 91, 93, 123, 125, 34, 92, 35, 39, 94, 59, 103, 10>>

(* ------------------------------- characters --------------------------------------------- *)
LP == 40  RP == 41  LB == 91  RB == 93  LC == 123  RC == 125  DQ == 34  BS == 92  HASH == 35
QT == 39  BQ == 96  TILDE == 126  AT == 64  CARET == 94  SEMI == 59  COLON == 58  US == 95
QM == 63  BANG == 33  SLASH == 47  MINUS == 45  DOT == 46  PLUS == 43  LF == 10  CR == 13
WS == {9, 10, 11, 12, 13, 32, 44}
Term == {LP, RP, LB, RB, LC, RC, DQ, BS, CARET, SEMI, BQ, TILDE, AT}
Digit == 48..57
Alpha == (65..90) \cup (97..122)
ULetter == {233, 252, 955, 20013}                       \* é ü λ 中 : letters outside ASCII
Constit == ((33..126) \ (Term \cup {44})) \cup ULetter    \* may occur inside a symbol
Alnum == Digit \cup Alpha \cup ULetter
Known == WS \cup Term \cup Constit
Hex == Digit \cup (65..70) \cup (97..102)
NumCont == Digit \cup Alpha \cup {SLASH, DOT, PLUS}     \* continue a token that started with a digit
RegexPlain == Alnum \cup {32, 44, COLON, SEMI, QT, AT, TILDE, BQ, US, 37, 38, 60, 61, 62, 33, SLASH, MINUS, LF, CR, 9}

T_nil == <<110, 105, 108>>  T_true == <<116, 114, 117, 101>>  T_false == <<102, 97, 108, 115, 101>>
T_quote == <<113, 117, 111, 116, 101>>  T_var == <<118, 97, 114>>
T_core == <<98, 97, 115, 105, 108, 105, 115, 112, 46, 99, 111, 114, 101, 47>>
T_deref == T_core \o <<100, 101, 114, 101, 102>>
T_unquote == T_core \o <<117, 110, 113, 117, 111, 116, 101>>
T_unqs == T_unquote \o <<45, 115, 112, 108, 105, 99, 105, 110, 103>>
T_tag == <<116, 97, 103>>  T_ptags == <<112, 97, 114, 97, 109, 45, 116, 97, 103, 115>>
T_Inf == <<73, 110, 102>>  T_NInf == <<45, 73, 110, 102>>  T_NaN == <<78, 97, 78>>
T_b == <<98>>  T_f == <<102>>
KnownTags == {<<117, 117, 105, 100>>, <<105, 110, 115, 116>>, <<112, 121>>, <<113, 117, 101, 117, 101>>}
CharNames == {<<110, 101, 119, 108, 105, 110, 101>>, <<115, 112, 97, 99, 101>>, <<116, 97, 98>>,
              <<102, 111, 114, 109, 102, 101, 101, 100>>, <<98, 97, 99, 107, 115, 112, 97, 99, 101>>,
              <<114, 101, 116, 117, 114, 110>>}
CharNameCp(t) == CASE t[1] = 110 -> 10 [] t[1] = 115 -> 32 [] t[1] = 116 -> 9 [] t[1] = 102 -> 12
                   [] t[1] = 98 -> 8 [] OTHER -> 13
StrEsc == [c \in {34, 92, 97, 98, 102, 110, 114, 116, 118} |->
             CASE c = 97 -> 7 [] c = 98 -> 8 [] c = 102 -> 12 [] c = 110 -> 10 [] c = 114 -> 13
               [] c = 116 -> 9 [] c = 118 -> 11 [] OTHER -> c]

Has(t, c) == \E i \in 1..Len(t) : t[i] = c
Last(q) == q[Len(q)]
Front(q) == SubSeq(q, 1, Len(q) - 1)

(* ------------------------------- forms --------------------------------------------------- *)
(* k: sym kw akw(::k) num lit str regex bytes list vec map set fn sq opq cmt                 *)
(* t: text (code points); xs: children (map: k1 v1 k2 v2 ...); sp: <<line, col, eline, ecol>> *)
(* so: "req" span required exactly, "opt" exact if present, "any" not compared               *)
(* of: <<start offset, end offset>> into the text; m: metadata entries <<key, value>>        *)
(* ex: the value is determined by t (FALSE: only the kind is); w: wrapper made by a prefix   *)
Form(k, t, xs) == [k |-> k, t |-> t, xs |-> xs, sp |-> <<>>, so |-> "any", of |-> <<>>, m |-> <<>>,
                   ex |-> TRUE, w |-> ""]
Cmt == Form("cmt", <<>>, <<>>)
Opq == [Form("opq", <<>>, <<>>) EXCEPT !.ex = FALSE]
SynSym(t) == [Form("sym", t, <<>>) EXCEPT !.w = "syn"]     \* made by a prefix, not spelled in the text
KwForm(t) == [Form("kw", t, <<>>) EXCEPT !.w = "syn"]
TrueLit == Form("lit", T_true, <<>>)
Colls == {"list", "vec", "map", "set", "fn", "nsmap"}
HasMeta(f) == f.k \in {"sym", "list", "vec", "map", "set", "fn", "sq"}
MetaKinds == {"sym", "kw", "akw", "map", "vec"}
Opaque(f) == f.k \in {"fn", "sq", "opq", "regex"}

RECURSIVE Sure(_)
Sure(f) == f.ex /\ ~Opaque(f) /\ f.k # "lit" /\ \A i \in 1..Len(f.xs) : Sure(f.xs[i])

(* structural identity ignoring spans and metadata (sets and maps unordered) *)
RECURSIVE C1(_)
C1(f) == IF f.k = "set" THEN <<f.k, {C1(f.xs[i]) : i \in 1..Len(f.xs)}>>
         ELSE IF f.k = "map" THEN <<f.k, {<<C1(f.xs[2 * i - 1]), C1(f.xs[2 * i])>> : i \in 1..(Len(f.xs) \div 2)}>>
         ELSE <<f.k, f.t, [i \in 1..Len(f.xs) |-> C1(f.xs[i])]>>

SeqLike(f) == f.k \in {"list", "vec"}
RECURSIVE PossEq(_, _)
PossEq(f, g) ==
  IF Opaque(f) \/ Opaque(g) THEN TRUE
  ELSE IF SeqLike(f) /\ SeqLike(g) THEN Len(f.xs) = Len(g.xs) /\ \A i \in 1..Len(f.xs) : PossEq(f.xs[i], g.xs[i])
  ELSE IF f.k \in {"set", "map"} THEN g.k = f.k /\ Len(g.xs) = Len(f.xs)
  ELSE IF f.k \in {"num", "lit"} /\ g.k \in {"num", "lit"} THEN (~f.ex \/ ~g.ex \/ f.k = "lit" \/ g.k = "lit" \/ f.t = g.t)
  ELSE f.k = g.k /\ f.t = g.t
DefEq(f, g) == Sure(f) /\ Sure(g) /\ C1(f) = C1(g)

(* duplicates among a sequence of keys: "dup" certainly, "maybe" possibly, "no" *)
DupKind(ks) ==
  IF \E i, j \in 1..Len(ks) : i < j /\ DefEq(ks[i], ks[j]) THEN "dup"
  ELSE IF \E i, j \in 1..Len(ks) : i < j /\ PossEq(ks[i], ks[j]) THEN "maybe" ELSE "no"

(* ------------------------------- state --------------------------------------------------- *)
NoTok == [k |-> "none", t |-> <<>>, l |-> 0, c |-> 0, o |-> 0, a |-> FALSE]
Tok(k, t, p) == [k |-> k, t |-> t, l |-> p.l, c |-> p.c, o |-> p.o, a |-> FALSE]
Frame(k, p) == [k |-> k, xs |-> <<>>, l |-> p.l, c |-> p.c, o |-> p.o, a |-> <<>>, t |-> <<>>,
                esc |-> FALSE, fv |-> FALSE]
S0 == [st |-> <<>>, tok |-> NoTok, l |-> 1, c |-> 0, o |-> 0, cr |-> FALSE, forms |-> <<>>,
       err |-> "none", maybe |-> FALSE, why |-> ""]

Pos(s) == [l |-> s.l, c |-> s.c, o |-> s.o]
(* position after consuming ch at Pos(s) *)
Adv(s, ch) ==
  IF ch = CR /\ CRIsNewline THEN [l |-> s.l + 1, c |-> 0, o |-> s.o + 1, cr |-> TRUE]
  ELSE IF ch = LF THEN (IF s.cr THEN [l |-> s.l, c |-> s.c, o |-> s.o + 1, cr |-> FALSE]
                        ELSE [l |-> s.l + 1, c |-> 0, o |-> s.o + 1, cr |-> FALSE])
  ELSE [l |-> s.l, c |-> s.c + 1, o |-> s.o + 1, cr |-> FALSE]

SynW(s, w) == [s EXCEPT !.err = "syntax", !.tok = NoTok, !.why = w]     \* w: which rule was broken
Syn(s) == SynW(s, "malformed")
Unspec(s) == [s EXCEPT !.err = "unspec", !.tok = NoTok]
Maybe(s) == [s EXCEPT !.maybe = TRUE]
SynMaybe(s, w) == [s EXCEPT !.maybe = TRUE, !.why = IF @ = "" THEN w ELSE @]
Push(s, fr) == [s EXCEPT !.st = Append(@, fr), !.tok = NoTok]
Top(s) == Last(s.st)
Pop(s) == [s EXCEPT !.st = Front(@)]

(* inside syntax-quoted text (spans are not required there); innermost quote context *)
InSqText(st) == \E i \in 1..Len(st) : st[i].k = "sq"
RECURSIVE SqActive(_)
SqActive(st) == IF st = <<>> THEN FALSE
                ELSE IF Last(st).k = "sq" THEN TRUE
                ELSE IF Last(st).k \in {"unq", "unqs"} THEN FALSE ELSE SqActive(Front(st))
InFn(st) == \E i \in 1..Len(st) : st[i].k = "fn"

Spanned(f, st, p, e, so) ==
  [f EXCEPT !.sp = <<p.l, p.c, e.l, e.c>>, !.of = <<p.o, e.o>>, !.so = IF InSqText(st) THEN "any" ELSE so]

(* ------------------------------- metadata ------------------------------------------------ *)
MetaEntries(mf) ==
  CASE mf.k \in {"kw", "akw"} -> << <<mf, TrueLit>> >>
    [] mf.k = "sym" -> << <<KwForm(T_tag), mf>> >>
    [] mf.k = "vec" -> << <<KwForm(T_ptags), mf>> >>
    [] OTHER -> [i \in 1..(Len(mf.xs) \div 2) |-> <<mf.xs[2 * i - 1], mf.xs[2 * i]>>]
MergeMeta(old, new) ==
  SelectSeq(old, LAMBDA e : ~\E i \in 1..Len(new) : C1(new[i][1]) = C1(e[1])) \o new

(* ------------------------------- delivering a finished form ------------------------------ *)
WrapName(k) == CASE k = "quote" -> T_quote [] k = "deref" -> T_deref [] k = "unq" -> T_unquote
                 [] k = "unqs" -> T_unqs [] OTHER -> T_var
Wrap(st, top, f, e) ==
  Spanned([Form("list", <<>>, <<SynSym(WrapName(top.k)), f>>) EXCEPT !.w = top.k], st, top, e,
          IF top.k \in {"quote", "deref"} THEN "opt" ELSE "any")
SqResult(f) == IF f.w = "unq" THEN f.xs[2]
               ELSE IF HasMeta(f) THEN [Form("sq", <<>>, <<>>) EXCEPT !.ex = FALSE]
               ELSE f

RECURSIVE Emit(_, _, _)
Emit(s, f, e) ==
  IF s.st = <<>> THEN (IF f.k = "cmt" THEN s ELSE [s EXCEPT !.forms = Append(@, f)])
  ELSE LET top == Top(s)  below == Pop(s)  n == Len(s.st) IN
    CASE top.k \in Colls -> IF f.k = "cmt" THEN s ELSE [s EXCEPT !.st[n].xs = Append(@, f)]
      [] top.k \notin Colls /\ f.k = "cmt" -> s
      [] top.k \in {"quote", "deref", "unq", "unqs", "varq"} /\ f.k # "cmt" ->
            Emit(below, Wrap(below.st, top, f, e), e)
      [] top.k = "sq" /\ f.k # "cmt" -> IF f.w = "unqs" THEN Syn(s) ELSE Emit(below, SqResult(f), e)
      [] top.k = "meta1" /\ f.k # "cmt" ->
            IF f.k \in MetaKinds THEN [s EXCEPT !.st[n].k = "meta2", !.st[n].a = <<f>>] ELSE Syn(s)
      [] top.k = "meta2" /\ f.k # "cmt" ->
            IF HasMeta(f) THEN Emit(below, [f EXCEPT !.m = MergeMeta(@, MetaEntries(top.a[1]))], e)
            ELSE IF f.k = "opq" THEN Emit(Maybe(below), f, e)
            ELSE Syn(s)
      [] top.k = "discard" /\ f.k # "cmt" -> Emit(below, Cmt, e)
      [] top.k = "tag" /\ f.k # "cmt" ->
            IF top.t \in KnownTags \/ (Has(top.t, DOT) /\ ~Has(top.t, SLASH)) THEN Emit(SynMaybe(below, "data-reader"), Opq, e)
            ELSE SynW(s, "unknown-tag")
      [] OTHER -> Unspec(s)

(* ------------------------------- closing a collection ------------------------------------ *)
Keys(xs) == [i \in 1..(Len(xs) \div 2) |-> xs[2 * i - 1]]
NsKey(f, ns, auto) ==
  IF f.k \notin {"kw", "sym"} THEN f
  \* the key becomes another name than the one spelled in the text: its own span is not required
  ELSE IF ~Has(f.t, SLASH) THEN (IF auto THEN (IF f.k = "kw" THEN [f EXCEPT !.k = "akw"] ELSE [f EXCEPT !.ex = FALSE, !.so = "any"])
                                 ELSE [f EXCEPT !.t = ns \o <<SLASH>> \o @, !.so = "any"])
  ELSE IF Len(f.t) > 2 /\ f.t[1] = US /\ f.t[2] = SLASH THEN [f EXCEPT !.t = SubSeq(@, 3, Len(@)), !.so = "any"]
  ELSE f
NsXs(xs, ns, auto) == [i \in 1..Len(xs) |-> IF i % 2 = 1 THEN NsKey(xs[i], ns, auto) ELSE xs[i]]

Close(s, ch, e) ==
  IF s.st = <<>> THEN Syn(s)
  ELSE LET top == Top(s)  below == Pop(s) IN
    IF ~(top.k \in Colls) THEN Syn(s)
    ELSE IF ch # (CASE top.k \in {"list", "fn"} -> RP [] top.k = "vec" -> RB [] OTHER -> RC) THEN Syn(s)
    ELSE CASE top.k = "list" -> Emit(below, Spanned(Form("list", <<>>, top.xs), below.st, top, e, "req"), e)
           [] top.k = "vec" -> Emit(below, Spanned(Form("vec", <<>>, top.xs), below.st, top, e, "req"), e)
           [] top.k = "fn" -> Emit(below, Spanned([Form("fn", <<>>, <<>>) EXCEPT !.ex = FALSE], below.st, top, e, "any"), e)
           [] top.k = "set" ->
                LET d == DupKind(top.xs)
                    f == Spanned(Form("set", <<>>, top.xs), below.st, top, e, "req") IN
                IF d = "dup" THEN Syn(s) ELSE Emit(IF d = "maybe" THEN Maybe(below) ELSE below, f, e)
           [] OTHER ->   \* map, nsmap
                IF Len(top.xs) % 2 = 1 THEN Syn(s)
                ELSE LET xs == IF top.k = "nsmap" THEN NsXs(top.xs, top.t, top.fv) ELSE top.xs
                         d == DupKind(Keys(xs))
                         f == Spanned([Form("map", <<>>, xs) EXCEPT !.w = IF top.k = "nsmap" THEN "ns" ELSE ""],
                                      below.st, top, e, "req") IN
                     IF d = "dup" THEN Syn(s) ELSE Emit(IF d = "maybe" THEN Maybe(below) ELSE below, f, e)

(* ------------------------------- finishing a token --------------------------------------- *)
(* e: position of the first character after the token *)
NameOk(s, t) == ~(Last(t) = HASH /\ ~SqActive(s.st))       \* gensym only under syntax-quote
FinishTok(s, e) ==
  LET tk == s.tok  t == tk.t  s0 == [s EXCEPT !.tok = NoTok]  p == tk IN
  CASE tk.k = "sym" ->
         IF t \in {T_nil, T_true, T_false} THEN Emit(s0, Form("lit", t, <<>>), e)
         ELSE IF ~NameOk(s, t) THEN Syn(s)
         ELSE LET f == Spanned(Form("sym", t, <<>>), s0.st, p, e, "req") IN
              IF Has(t, SLASH) /\ t # <<SLASH>> THEN Emit(Maybe(s0), f, e) ELSE Emit(s0, f, e)
    [] tk.k = "kw" ->
         IF t = <<>> THEN Syn(s)
         ELSE IF t[1] \in Digit THEN Syn(s)
         ELSE LET f == Form(IF tk.a THEN "akw" ELSE "kw", t, <<>>) IN
              IF Has(t, SLASH) /\ t # <<SLASH>> THEN Emit(Maybe(s0), [f EXCEPT !.ex = FALSE], e) ELSE Emit(s0, f, e)
    [] tk.k = "kwnum" -> Emit(s0, Form("kw", t, <<>>), e)
    [] tk.k = "num" ->
         IF (\A i \in 1..Len(t) : t[i] \in Digit) /\ (Len(t) = 1 \/ t[1] # 48) THEN Emit(s0, Form("num", t, <<>>), e)
         ELSE Emit(Maybe(s0), [Form("num", t, <<>>) EXCEPT !.ex = FALSE], e)
    [] tk.k = "chr" ->
         IF Len(t) = 1 THEN Emit(s0, Form("str", t, <<>>), e)
         ELSE IF t \in CharNames THEN Emit(s0, Form("str", <<CharNameCp(t)>>, <<>>), e)
         ELSE IF t[1] = 117 THEN Emit(Maybe(s0), [Form("str", <<>>, <<>>) EXCEPT !.ex = FALSE], e)
         ELSE Syn(s)
    [] tk.k = "tag" ->
         IF ~NameOk(s, t) \/ t \in {T_nil, T_true, T_false} THEN Syn(s)      \* a tag is a symbol
         ELSE IF t = T_b THEN Push(s0, Frame("bstrws", p))
         ELSE IF t = T_f THEN Unspec(s)
         ELSE Push(IF Has(t, SLASH) THEN Maybe(s0) ELSE s0, [Frame("tag", p) EXCEPT !.t = t])
    [] tk.k = "var" ->
         IF t = <<>> THEN Syn(s)
         ELSE IF ~NameOk(s, t) \/ t[1] \in Digit THEN Syn(s)
         ELSE IF t[1] \notin Alpha \cup ULetter \/ Has(t, SLASH) THEN Unspec(s)
         ELSE Emit(s0, Wrap(s0.st, [Frame("varq", p) EXCEPT !.k = "varq"],
                            Spanned(Form("sym", t, <<>>), s0.st, [l |-> p.l, c |-> p.c + 2, o |-> p.o + 2], e, "req"), e), e)
    [] tk.k = "numconst" ->
         IF t \in {T_Inf, T_NInf, T_NaN} THEN Emit(s0, [Form("num", t, <<>>) EXCEPT !.ex = FALSE], e) ELSE Syn(s)
    [] tk.k = "nsmapns" ->
         IF tk.a THEN Push(s0, [Frame("nsmapws", p) EXCEPT !.fv = TRUE])
         ELSE IF t = <<>> \/ Has(t, SLASH) \/ t[1] \in Digit THEN Syn(s)
         ELSE Push(s0, [Frame("nsmapws", p) EXCEPT !.t = t])
    [] tk.k = "tilde" -> Push(s0, Frame("unq", p))
    [] OTHER -> Unspec(s)

(* ------------------------------- one character ------------------------------------------- *)
(* Start: ch begins a form (no token pending, top of stack is not a raw mode)                 *)
Start(s, ch, e) ==
  LET p == Pos(s) IN
  CASE ch \in WS -> s
    [] ch = LP -> Push(s, Frame("list", p))
    [] ch = LB -> Push(s, Frame("vec", p))
    [] ch = LC -> Push(s, Frame("map", p))
    [] ch \in {RP, RB, RC} -> Close(s, ch, e)
    [] ch = DQ -> Push(s, Frame("str", p))
    [] ch = QT -> Push(s, Frame("quote", p))
    [] ch = AT -> Push(s, Frame("deref", p))
    [] ch = BQ -> Push(s, Frame("sq", p))
    [] ch = CARET -> Push(s, Frame("meta1", p))
    [] ch = SEMI -> Push(s, Frame("cmt", p))
    [] ch = TILDE -> [s EXCEPT !.tok = Tok("tilde", <<>>, p)]
    [] ch = BS -> [s EXCEPT !.tok = Tok("chr", <<>>, p)]
    [] ch = HASH -> [s EXCEPT !.tok = Tok("hash", <<>>, p)]
    [] ch = COLON -> [s EXCEPT !.tok = Tok("kw", <<>>, p)]
    [] ch \in Digit -> [s EXCEPT !.tok = Tok("num", <<ch>>, p)]
    [] ch = MINUS -> [s EXCEPT !.tok = Tok("minus", <<ch>>, p)]
    [] ch \in Constit \ (Digit \cup {HASH, COLON, MINUS}) -> [s EXCEPT !.tok = Tok("sym", <<ch>>, p)]
    [] OTHER -> Unspec(s)

(* Raw: the top of the stack is a string / regex / byte string / comment / a waiting #:ns or #b *)
Raw(s, ch, e) ==
  LET top == Top(s)  n == Len(s.st)  below == Pop(s) IN
  CASE top.k = "cmt" -> IF ch \in {LF, CR} THEN below ELSE s
    [] top.k = "str" ->      \* top.a = <<n>>: n hex digits of a \u escape read so far (the reader may take up to 8)
         IF top.a # <<>> /\ ch \in Hex THEN
            (IF top.a[1] >= 4 THEN [Maybe(s) EXCEPT !.st[n].a = <<top.a[1] + 1>>]
             ELSE [s EXCEPT !.st[n].a = <<top.a[1] + 1>>])
         ELSE LET s9 == IF top.a # <<>> THEN [Maybe(s) EXCEPT !.st[n].a = <<>>] ELSE s IN
         IF top.esc THEN
            (IF ch \in DOMAIN StrEsc THEN [s9 EXCEPT !.st[n].esc = FALSE, !.st[n].t = Append(@, StrEsc[ch])]
             ELSE IF ch \in {117, 85} THEN [s9 EXCEPT !.st[n].esc = FALSE, !.st[n].fv = TRUE, !.st[n].a = <<0>>]
             ELSE Syn(s))
         ELSE IF ch = BS THEN [s9 EXCEPT !.st[n].esc = TRUE]
         ELSE IF ch = DQ THEN
            (IF top.fv THEN Emit(Maybe(Pop(s9)), [Form("str", <<>>, <<>>) EXCEPT !.ex = FALSE], e)
             ELSE Emit(below, Form("str", top.t, <<>>), e))
         ELSE [s9 EXCEPT !.st[n].t = Append(@, ch)]
    [] top.k = "regex" ->
         IF top.esc THEN (IF ch = DQ THEN Unspec(s) ELSE [s EXCEPT !.st[n].esc = FALSE])
         ELSE IF ch = BS THEN [s EXCEPT !.st[n].esc = TRUE, !.st[n].fv = TRUE]
         ELSE IF ch = DQ THEN Emit(IF top.fv THEN Maybe(below) ELSE below, [Form("regex", <<>>, <<>>) EXCEPT !.ex = FALSE], e)
         ELSE IF ch \in RegexPlain \cup ULetter THEN s ELSE [s EXCEPT !.st[n].fv = TRUE]
    [] top.k = "bstr" ->      \* top.t: the hex digits a \x escape still swallows (whatever they are)
         IF ch > 127 \/ ch < 1 THEN SynW(s, "non-ascii-in-byte-string")
         ELSE IF top.t # <<>> THEN
            (IF ch \in Hex THEN [s EXCEPT !.st[n].t = Tail(@)]
             \* a non-hex character where a hex digit is due: a malformed escape -- the reader may report the
             \* syntax error at once (even if the character is the closing quote and the input ends here)
             ELSE Maybe([s EXCEPT !.st[n].t = Tail(@), !.st[n].fv = TRUE]))
         ELSE IF top.esc THEN [s EXCEPT !.st[n].esc = FALSE, !.st[n].t = IF ch = 120 THEN <<1, 1>> ELSE <<>>]
         ELSE IF ch = BS THEN [s EXCEPT !.st[n].esc = TRUE]
         ELSE IF ch = DQ THEN Emit(IF top.fv THEN Maybe(below) ELSE below, [Form("bytes", <<>>, <<>>) EXCEPT !.ex = FALSE], e)
         ELSE s
    [] top.k = "nsmapws" ->
         IF ch \in WS THEN s
         ELSE IF ch = LC THEN [s EXCEPT !.st[n].k = "nsmap"]
         ELSE SynW(s, "namespaced-map-without-brace")
    [] top.k = "bstrws" ->
         IF ch \in WS THEN s
         ELSE IF ch = DQ THEN [s EXCEPT !.st[n] = Frame("bstr", top)]
         ELSE Syn(s)
    [] OTHER -> Unspec(s)
RawKinds == {"cmt", "str", "regex", "bstr", "nsmapws", "bstrws"}

Dispatch(s, ch, e) ==
  IF s.err # "none" THEN s
  ELSE IF s.st # <<>> /\ Top(s).k \in RawKinds THEN Raw(s, ch, e)
  ELSE IF ch \notin Known THEN Unspec(s)
  ELSE Start(s, ch, e)

(* a token is pending and ch arrives; p = position of ch, e = position after ch *)
Delim(ch) == ch \in WS \cup Term
Cont(s, ch) == [s EXCEPT !.tok.t = Append(@, ch)]
TokStep(s, ch, e) ==
  LET tk == s.tok  p == Pos(s)  fin == FinishTok(s, p) IN
  CASE tk.k \in {"sym", "tag", "numconst"} ->
         IF Delim(ch) THEN Dispatch(fin, ch, e) ELSE IF ch \in Constit THEN Cont(s, ch) ELSE Unspec(s)
    [] tk.k = "var" ->
         IF tk.t = <<>> /\ ch = TILDE THEN [Push(s, Frame("varq", tk)) EXCEPT !.tok = Tok("tilde", <<>>, p)]
         ELSE IF Delim(ch) THEN Dispatch(fin, ch, e) ELSE IF ch \in Constit THEN Cont(s, ch) ELSE Unspec(s)
    [] tk.k = "kw" ->
         IF tk.t = <<>> /\ ~tk.a /\ ch = COLON THEN [s EXCEPT !.tok.a = TRUE]
         ELSE IF tk.t = <<>> /\ tk.a /\ ch = COLON THEN Unspec(s)
         ELSE IF tk.t = <<>> /\ ~tk.a /\ ch \in Digit THEN [s EXCEPT !.tok.k = "kwnum", !.tok.t = <<ch>>]
         ELSE IF Delim(ch) THEN Dispatch(fin, ch, e) ELSE IF ch \in Constit THEN Cont(s, ch) ELSE Unspec(s)
    [] tk.k = "kwnum" -> IF ch \in Digit THEN Cont(s, ch) ELSE IF ch \in Known THEN Dispatch(fin, ch, e) ELSE Unspec(s)
    [] tk.k = "num" ->
         IF ch \in NumCont THEN Cont(s, ch)
         ELSE IF ch = MINUS THEN (IF tk.t[1] = MINUS THEN Unspec(s) ELSE Syn(s))
         ELSE IF ch \in Known THEN Dispatch(fin, ch, e)
         ELSE Unspec(s)
    [] tk.k = "minus" ->
         IF ch \in Digit THEN [s EXCEPT !.tok.k = "num", !.tok.t = Append(@, ch)]
         ELSE IF ch = MINUS THEN Unspec(s)
         ELSE IF Delim(ch) THEN Dispatch(FinishTok([s EXCEPT !.tok.k = "sym"], p), ch, e)
         ELSE IF ch \in Constit THEN [s EXCEPT !.tok.k = "sym", !.tok.t = Append(@, ch)]
         ELSE Unspec(s)
    [] tk.k = "chr" ->
         IF tk.t = <<>> THEN Cont(s, ch)
         ELSE IF ch \in Alnum THEN Cont(s, ch)
         ELSE IF ch \in Known THEN Dispatch(fin, ch, e)
         ELSE Unspec(s)
    [] tk.k = "tilde" ->
         IF ch = AT THEN Push(s, Frame("unqs", tk)) ELSE Dispatch(fin, ch, e)
    [] tk.k = "nsmapns" ->
         IF tk.t = <<>> /\ ~tk.a /\ ch = COLON THEN [s EXCEPT !.tok.a = TRUE]
         ELSE IF tk.a THEN (IF ch \in WS \cup {LC} THEN Dispatch(fin, ch, e) ELSE IF Delim(ch) THEN Syn(s) ELSE Unspec(s))
         ELSE IF Delim(ch) THEN Dispatch(fin, ch, e) ELSE IF ch \in Constit THEN Cont(s, ch) ELSE Unspec(s)
    [] tk.k = "hash" ->
         CASE ch = LC -> Push(s, Frame("set", tk))
           [] ch = LP -> IF InFn(s.st) THEN Syn(s) ELSE Push(s, Frame("fn", tk))
           [] ch = COLON -> [s EXCEPT !.tok.k = "nsmapns"]
           [] ch = QT -> [s EXCEPT !.tok.k = "var"]
           [] ch = DQ -> Push(s, Frame("regex", tk))
           [] ch = US -> Push(s, Frame("discard", tk))
           [] ch = BANG -> Push(s, Frame("cmt", tk))
           [] ch = QM -> Unspec(s)
           [] ch = HASH -> [s EXCEPT !.tok.k = "numconst"]
           [] ch \in Constit \ (Digit \cup {COLON, QT, US, BANG, QM, HASH}) -> [s EXCEPT !.tok.k = "tag", !.tok.t = <<ch>>]
           [] ch \in (Digit \cup WS \cup Term) \ {LC, LP, DQ} -> Syn(s)
           [] OTHER -> Unspec(s)
    [] OTHER -> Unspec(s)

Consume(s, ch) ==
  LET a == Adv(s, ch)
      e == [l |-> a.l, c |-> a.c, o |-> a.o]
      s1 == IF s.err # "none" THEN s
            ELSE IF s.tok.k # "none" THEN TokStep(s, ch, e)
            ELSE Dispatch(s, ch, e)
  IN [s1 EXCEPT !.l = a.l, !.c = a.c, !.o = a.o, !.cr = a.cr]

RECURSIVE Run(_, _)
Run(s, txt) == IF txt = <<>> THEN s ELSE Run(Consume(s, Head(txt)), Tail(txt))

(* ------------------------------- end of input -------------------------------------------- *)
\* (the #:ns prefix of a namespaced map owes its map just as a tag owes its form: it is not free)
FreeKinds == {"sq", "discard", "varq"}
RECURSIVE Allowed(_)
Allowed(st) == IF st = <<>> THEN {"ok"}
               ELSE IF Last(st).k \in FreeKinds THEN {"eof", "syntax"} \cup Allowed(Front(st))
               ELSE {"eof"}
FreeTok(tk) == tk.k \in {"hash"} \/ (tk.k \in {"chr", "numconst", "var"} /\ tk.t = <<>>)

(* which listed construct owes a form (for reports) *)
Why(fr) == CASE fr.k \in {"quote", "deref", "unq", "unqs"} -> "quote-like-prefix"
             [] fr.k \in {"meta1", "meta2"} -> "metadata-prefix"
             [] fr.k = "tag" -> "tag"
             [] fr.k = "bstrws" -> "byte-string-tag"
             [] fr.k \in Colls -> "collection"
             [] fr.k \in {"str", "regex", "bstr"} -> IF fr.esc \/ (fr.k = "str" /\ fr.a # <<>>) \/ (fr.k = "bstr" /\ fr.t # <<>>)
                                                         THEN "string-escape" ELSE "string"
             [] OTHER -> "free-prefix"
Res(al, forms, free, why) == [al |-> al, forms |-> forms, free |-> free, why |-> why]
(* free: ""       the forms are exactly `forms`                                                   *)
(*       "tail"   a free prefix at the end: `forms`, possibly followed by one more form           *)
(*       "unspec" nothing is said about the forms                                                 *)
EOI(s) ==
  IF s.err = "syntax" THEN Res({"syntax"}, <<>>, "", s.why)
  ELSE IF s.err = "unspec" THEN Res({"ok", "eof", "syntax"}, <<>>, "unspec", "")
  ELSE LET ft == FreeTok(s.tok)
           s0 == [s EXCEPT !.tok = NoTok]
           s1 == IF s.tok.k = "none" THEN s
                 ELSE IF ft THEN s0
                 ELSE IF s.tok.k = "minus" THEN FinishTok([s EXCEPT !.tok.k = "sym"], Pos(s))
                 ELSE FinishTok(s, Pos(s))
           s2 == IF s1.err = "none" /\ s1.st # <<>> /\ Top(s1).k = "cmt" THEN Pop(s1) ELSE s1
           (* a lone backslash may also be read as some string *)
           alt == IF s.tok.k = "chr" /\ ft
                  THEN LET sa == Emit(s0, [Form("str", <<>>, <<>>) EXCEPT !.ex = FALSE], Pos(s)) IN
                       IF sa.err = "none" THEN Allowed(sa.st) ELSE {"syntax"}
                  ELSE {}
           base == IF ft THEN {"eof", "syntax"} \cup Allowed(s2.st) \cup alt ELSE Allowed(s2.st)
       IN IF s2.err = "syntax" THEN Res({"syntax"}, <<>>, "", s2.why)
          ELSE IF s2.err = "unspec" THEN Res({"ok", "eof", "syntax"}, <<>>, "unspec", "")
          ELSE Res(base \cup (IF s2.maybe THEN {"syntax"} ELSE {}), s2.forms,
                   IF ft \/ s2.st # <<>> THEN "tail" ELSE "",
                   IF ft THEN "free-prefix" ELSE IF s2.st = <<>> THEN s2.why ELSE Why(Top(s2)))

(* ------------------------------- output --------------------------------------------------- *)
Mask(al) == (IF "ok" \in al THEN 1 ELSE 0) + (IF "eof" \in al THEN 2 ELSE 0) + (IF "syntax" \in al THEN 4 ELSE 0)
RECURSIVE J(_)
J(f) == <<f.k, f.t, [i \in 1..Len(f.xs) |-> J(f.xs[i])], f.sp, f.so,
          [i \in 1..Len(f.m) |-> <<J(f.m[i][1]), J(f.m[i][2])>>], f.ex, f.w>>
Code(r, detail) ==
  IF detail /\ "ok" \in r.al THEN <<Mask(r.al), r.why, r.free, [i \in 1..Len(r.forms) |-> J(r.forms[i])]>>
  ELSE IF detail THEN <<Mask(r.al), r.why>>
  ELSE <<Mask(r.al)>>

(* ------------------------------- generation job ------------------------------------------- *)
VARIABLES text, s
vars == <<text, s>>
Init == text = <<>> /\ s = S0
Next == /\ Len(text) < MaxLen - 1
        /\ \E i \in 1..Len(Alphabet) : text' = Append(text, Alphabet[i]) /\ s' = Consume(s, Alphabet[i])
Spec == Init /\ [][Next]_vars

(* one table block per state: the verdict of the state's own text and of each one-character extension *)
Emit1 == PrintT(<<"TAB", ToJson([p |-> text,
                                own |-> Code(EOI(s), Len(text) <= DetailLen),
                                ch |-> [i \in 1..Len(Alphabet) |->
                                          Code(EOI(Consume(s, Alphabet[i])), Len(text) + 1 <= DetailLen)]])>>)

(* ------------------------------- invariants ------------------------------------------------ *)
AllOut == {"ok", "eof", "syntax"}
Total == EOI(s).al # {} /\ EOI(s).al \subseteq AllOut
(* eof is required exactly when nothing went wrong and the innermost open construct is a strict one *)
StrictKinds == Colls \cup {"str", "regex", "bstr", "bstrws", "quote", "deref", "unq", "unqs", "meta1", "meta2", "tag"}
EofIffOwed ==
  (s.err = "none" /\ ~s.maybe /\ s.tok.k = "none" /\ s.st # <<>> /\ Top(s).k \in StrictKinds) => EOI(s).al = {"eof"}
OkOnlyWhenNothingOwed ==
  ("ok" \in EOI(s).al /\ s.err = "none" /\ s.tok.k = "none") => \A i \in 1..Len(s.st) : s.st[i].k \in FreeKinds \cup {"cmt"}
PosSane == s.l >= 1 /\ s.c >= 0 /\ s.o = Len(text)
===================================================================================
