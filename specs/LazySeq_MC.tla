--------------------------------- MODULE LazySeq_MC --------------------------------
(* Design check of the required specification LazySeq.tla itself: driven by consumer   *)
(* programs and producer plans it keeps its invariants, never deadlocks and every       *)
(* program finishes (weak fairness) -- for every policy after a throwing producer.       *)
EXTENDS LazySeqDrv, FiniteSets, TLC
CONSTANTS FailPolicy
VARIABLES st, runner, okruns, dem, stack
INSTANCE LazySeq
lv == <<st, runner, okruns, dem, stack>>   \* (UNCHANGED of a tuple defined inside the instance does not evaluate in TLC)
vars == <<st, runner, okruns, dem, stack, prog0, prog, hnd, att, pp, plan>>

Init == LInit /\ DInit

Call(t) == \E op \in Ops, c \in Cells : Depth(t) = 0 /\ DCall(t, op, c) /\ LCall(t, op, c)
Start(t) == \E k \in Cells : DStart(t, k) /\ LStart(t, k)
Park(t) == Depth(t) > 0 /\ Top(t).k = "prod" /\ DPark(t, Top(t).c) /\ UNCHANGED lv
Resume(t) == DResume(t) /\ UNCHANGED lv
Nest(t) == /\ Depth(t) > 0 /\ Top(t).k = "prod"
           /\ \E op \in Ops : DNest(t, Top(t).c, op) /\ LCall(t, op, Top(t).c)
End(t) == /\ Depth(t) > 0 /\ Top(t).k = "prod"
          /\ \E ok \in BOOLEAN : DEnd(t, Top(t).c, ok) /\ LEnd(t, Top(t).c, ok)
Silent(t) == (LObserve(t) \/ LObserveFailed(t)) /\ UNCHANGED dvars
Ret(t) == /\ Depth(t) > 0 /\ Top(t).k = "call" /\ Top(t).cur = 0
          /\ LRet(t, Top(t).res)
          /\ IF Depth(t) = 1 THEN DRetOuter(t, Top(t).op, Top(t).c, Top(t).res) ELSE DNestRet(t)

Step(t) == Call(t) \/ Start(t) \/ Park(t) \/ Resume(t) \/ Nest(t) \/ End(t) \/ Silent(t) \/ Ret(t)
AllDone == \A t \in Threads : Depth(t) = 0 /\ DDone(t)
Next == (\E t \in Threads : Step(t)) \/ (AllDone /\ UNCHANGED vars)
Spec == Init /\ [][Next]_vars /\ \A t \in Threads : WF_vars(Step(t))

Termination == <>[]AllDone
(* anti-vacuity: with these programs and plans a retry after a throw and a re-entrant view really occur *)
Retried == \E c \in Cells : att[c] >= 2
NeverRetried == ~Retried

====================================================================================
