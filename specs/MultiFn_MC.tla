------------------------------- MODULE MultiFn_MC -------------------------------
(* design checks of MultiFn / MultiFnImpl: the modules with the universes of MultiFn_U *)
EXTENDS MultiFnImpl, MultiFn_U
==================================================================================
