CONSTANTS
  StrLen = 2
  Depth = 1
  Dev = {"GreedyHex"}
SPECIFICATION Spec
INVARIANT RoundTrip
CHECK_DEADLOCK FALSE
