CONSTANTS Threads <- T3  N = 3  FailPolicy = "either"  Progs <- ProgsS  Plans <- PlansF3
SPECIFICATION Spec
INVARIANT LTypeOK
INVARIANT RunsAtMostOnce
INVARIANT ThrowKeepsCell
INVARIANT DemandBound
INVARIANT InOrder
PROPERTY Termination
