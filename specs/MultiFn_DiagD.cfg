CONSTANTS Tags <- TagsD  Classes = {}  Bases = {}  VecElems <- NoVecs  Dflt = "dflt"
          Edges <- EdgesD  PrefPairs <- PrefsD
          DevOrder = TRUE  DevClassAnc = TRUE  ResetOn = {}  CheckHier = TRUE
INIT DInit
NEXT DNext
INVARIANT MapsExact
INVARIANT DiagSane
CONSTRAINT Emit
CHECK_DEADLOCK FALSE
