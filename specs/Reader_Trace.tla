-------------------------------- MODULE Reader_Trace --------------------------------
(* code -> spec for C16: batch validation of recorded executions of the real reader.        *)
(* A record is a text (code points) with, for some prefix lengths i, what the real reader   *)
(* did on the first i characters: v[i+1] = 0 not observed, 1 forms, 2 unexpected end of     *)
(* input, 4 other syntax error; nf[i+1] = number of forms read (when v = 1).                *)
(* The automaton of Reader.tla is run over the text; a cut whose observation is not among   *)
(* the allowed outcomes prints <<"REJ", ..>>; a record all of whose cuts agree prints       *)
(* <<"ACC", id>> and, when the whole text was observed as `ok`, the predicted skeleton with  *)
(* spans (<<"EXP", ..>>) which the driver compares with the forms the real reader returned. *)
EXTENDS Reader, IOUtils

Traces == JsonDeserialize(IOEnv.TRACE_FILE)
VARIABLES tid, i, good
tvars == <<text, s, tid, i, good>>
Tr == Traces[tid]

ObsOK(r, v, nf) ==
  /\ \/ v = 1 /\ "ok" \in r.al
     \/ v = 2 /\ "eof" \in r.al
     \/ v = 4 /\ "syntax" \in r.al
  /\ v = 1 => \/ r.free = "unspec"
              \/ nf = Len(r.forms)
              \/ r.free = "tail" /\ nf = Len(r.forms) + 1
CutOK(st, n) == Tr.v[n + 1] = 0 \/ ObsOK(EOI(st), Tr.v[n + 1], Tr.nf[n + 1])

InitT == /\ tid \in 1..Len(Traces) /\ i = 0 /\ s = S0 /\ text = <<>>
         /\ good = CutOK(S0, 0)
NextT == /\ i < Len(Tr.cps)
         /\ s' = Consume(s, Tr.cps[i + 1])
         /\ i' = i + 1
         /\ good' = (good /\ CutOK(s', i + 1))
         /\ UNCHANGED <<text, tid>>
SpecT == InitT /\ [][NextT]_tvars

Report ==
  /\ (Tr.v[i + 1] # 0 /\ ~CutOK(s, i)) =>
        PrintT(<<"REJ", ToJson([id |-> Tr.id, at |-> i, mask |-> Mask(EOI(s).al), why |-> EOI(s).why,
                                 nf |-> Len(EOI(s).forms), free |-> EOI(s).free])>>)
  /\ (i = Len(Tr.cps) /\ good) => PrintT(<<"ACC", Tr.id>>)
  /\ (i = Len(Tr.cps) /\ good /\ Tr.v[i + 1] = 1) =>
        PrintT(<<"EXP", ToJson([id |-> Tr.id, code |-> Code(EOI(s), TRUE)])>>)
===================================================================================
