\* negative job: this mutant of the model must be rejected by GensymFunction (anti-vacuity)
CONSTANTS MaxDepth = 1  SharedEnv = FALSE  NoEnv = TRUE  QualSpecial = FALSE  NestShares = FALSE
SPECIFICATION Spec
INVARIANT GensymFunction
CHECK_DEADLOCK FALSE
