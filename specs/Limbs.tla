----------------------------------- MODULE Limbs -----------------------------------
(* Arbitrary-precision integers inside TLC (whose integers are 32 bit): sign and          *)
(* magnitude, magnitude = little-endian sequence of base-10000 limbs without leading       *)
(* zero limb (zero is the empty sequence).  Used by Arith_Trace to evaluate the            *)
(* arithmetic identities on results observed for operands far beyond 2^53.                 *)
EXTENDS Integers, Sequences

Base == 10000
Big(s, m) == [s |-> s, m |-> m]                 \* s in {-1, 0, 1}; s = 0 iff m = <<>>
WellFormed(x) == /\ x.s \in {-1, 0, 1} /\ (x.s = 0 <=> x.m = <<>>)
                 /\ \A i \in 1..Len(x.m) : x.m[i] \in 0..(Base - 1)
                 /\ (x.m # <<>> => x.m[Len(x.m)] # 0)

RECURSIVE Strip(_)
Strip(m) == IF m = <<>> THEN m ELSE IF m[Len(m)] = 0 THEN Strip(SubSeq(m, 1, Len(m) - 1)) ELSE m
Limb(m, i) == IF i <= Len(m) THEN m[i] ELSE 0
Max(a, b) == IF a > b THEN a ELSE b

RECURSIVE AddFrom(_, _, _, _)
AddFrom(a, b, i, carry) ==
  IF i > Max(Len(a), Len(b)) THEN (IF carry = 0 THEN <<>> ELSE <<carry>>)
  ELSE LET t == Limb(a, i) + Limb(b, i) + carry IN <<t % Base>> \o AddFrom(a, b, i + 1, t \div Base)
MagAdd(a, b) == AddFrom(a, b, 1, 0)

RECURSIVE CmpFrom(_, _, _)
CmpFrom(a, b, i) == IF i = 0 THEN 0 ELSE IF a[i] # b[i] THEN (IF a[i] < b[i] THEN -1 ELSE 1) ELSE CmpFrom(a, b, i - 1)
MagCmp(a, b) == IF Len(a) # Len(b) THEN (IF Len(a) < Len(b) THEN -1 ELSE 1) ELSE CmpFrom(a, b, Len(a))

RECURSIVE SubFrom(_, _, _, _)
SubFrom(a, b, i, borrow) ==                       \* requires a >= b
  IF i > Len(a) THEN <<>>
  ELSE LET t == Limb(a, i) - Limb(b, i) - borrow IN
         IF t < 0 THEN <<t + Base>> \o SubFrom(a, b, i + 1, 1) ELSE <<t>> \o SubFrom(a, b, i + 1, 0)
MagSub(a, b) == Strip(SubFrom(a, b, 1, 0))

RECURSIVE MulLimb(_, _, _, _)
MulLimb(a, k, i, carry) ==
  IF i > Len(a) THEN (IF carry = 0 THEN <<>> ELSE <<carry>>)
  ELSE LET t == a[i] * k + carry IN <<t % Base>> \o MulLimb(a, k, i + 1, t \div Base)
RECURSIVE MulFrom(_, _, _)
MulFrom(a, b, j) ==                                \* sum over j of (a * b[j]) shifted by j-1 limbs
  IF j > Len(b) THEN <<>>
  ELSE MagAdd([i \in 1..(j - 1) |-> 0] \o MulLimb(a, b[j], 1, 0), MulFrom(a, b, j + 1))
MagMul(a, b) == IF a = <<>> \/ b = <<>> THEN <<>> ELSE Strip(MulFrom(a, b, 1))

Neg(x) == Big(-x.s, x.m)
Add(x, y) == IF x.s = 0 THEN y ELSE IF y.s = 0 THEN x
             ELSE IF x.s = y.s THEN Big(x.s, MagAdd(x.m, y.m))
             ELSE LET c == MagCmp(x.m, y.m) IN
                    IF c = 0 THEN Big(0, <<>>)
                    ELSE IF c > 0 THEN Big(x.s, MagSub(x.m, y.m)) ELSE Big(y.s, MagSub(y.m, x.m))
Sub(x, y) == Add(x, Neg(y))
Mul(x, y) == IF x.s = 0 \/ y.s = 0 THEN Big(0, <<>>) ELSE Big(x.s * y.s, MagMul(x.m, y.m))
AbsLt(x, y) == MagCmp(x.m, y.m) < 0
One == Big(1, <<1>>)
Zero == Big(0, <<>>)
=====================================================================================
