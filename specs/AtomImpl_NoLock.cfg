CONSTANTS Threads <- T2  Progs <- MCProgs  InitVal <- MCInit  Validator = "lt3"  Watching = TRUE
          CasIdentityFirst = TRUE  UseLock = FALSE
SPECIFICATION Spec
INVARIANT SameValue
INVARIANT ResultsTruthful
INVARIANT WatchIsTransition
INVARIANT ValidAlways
PROPERTY Termination
