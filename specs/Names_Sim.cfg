\* simulation (-simulate -depth 12) over the whole pool: NAMES_CLASS=pool
CONSTANTS
  NameSeq <- ClassSeq
  Munge <- MungeAll
  Ambient <- AmbientCls
  Flags <- FlagsAll
  Toggle = TRUE
  AllowAlter = TRUE
  Definers = {"A", "B"}
  MaxLen = 12
SPECIFICATION GSpec
CONSTRAINT EmitHist

CHECK_DEADLOCK FALSE
