CONSTANTS Threads <- T2  Progs <- MCProgs  InitVal <- MCInit  Validator = "none"  Watching = TRUE
          CasIdentityFirst = TRUE  UseLock = TRUE
SPECIFICATION Spec
INVARIANT SameValue
INVARIANT ResultsTruthful
INVARIANT WatchIsTransition
INVARIANT ValidAlways
INVARIANT LockDiscipline
PROPERTY Termination
