-------------------------------- MODULE LangValues --------------------------------
(* Values and primitive functions shared by the required semantics (Lang.tla) and the  *)
(* as-built model (PyIR.tla / Gen.tla).                                                 *)
EXTENDS Integers, Sequences, FiniteSets, TLC

NilV == [ty |-> "nil"]
BoolV(b) == [ty |-> "bool", i |-> IF b THEN 1 ELSE 0]
IntV(i) == [ty |-> "int", i |-> i]
VecV(xs) == [ty |-> "vec", xs |-> xs]
ExcV(c) == [ty |-> "exc", c |-> c]
Truthy(v) == ~(v.ty = "nil" \/ (v.ty = "bool" /\ v.i = 0))       \* only nil and false are falsey

(* which catch class handles which exception class *)
Handles(cc, ec) == \/ cc = "Exception"
                   \/ cc = ec
                   \/ (cc = "LookupError" /\ ec \in {"KeyError", "IndexError"})
                   \/ (cc = "ArithmeticError" /\ ec = "ZeroDivisionError")

IsInt(v) == v.ty = "int"
(* primitive functions: [ok, v, mark]; ok = FALSE: raises v; mark # 0: appends mark to the effect log *)
POk(v) == [ok |-> TRUE, v |-> v, mark |-> 0]
PErr == [ok |-> FALSE, v |-> ExcV("TypeError"), mark |-> 0]
Prim(n, args) ==
  CASE n = "m" ->          \* the effect marker: (m k) logs k and returns k; (m k v) logs k and returns v
         IF Len(args) \in {1, 2} /\ IsInt(args[1]) THEN [ok |-> TRUE, v |-> args[Len(args)], mark |-> args[1].i] ELSE PErr
    [] n = "vector" -> POk(VecV(args))
    [] n = "identity" -> IF Len(args) = 1 THEN POk(args[1]) ELSE PErr
    [] n = "not" -> IF Len(args) = 1 THEN POk(BoolV(~Truthy(args[1]))) ELSE PErr
    [] n = "inc" -> IF Len(args) = 1 /\ IsInt(args[1]) THEN POk(IntV(args[1].i + 1)) ELSE PErr
    [] n = "dec" -> IF Len(args) = 1 /\ IsInt(args[1]) THEN POk(IntV(args[1].i - 1)) ELSE PErr
    [] n = "add" -> IF Len(args) = 2 /\ IsInt(args[1]) /\ IsInt(args[2]) THEN POk(IntV(args[1].i + args[2].i)) ELSE PErr
    [] n = "lt" -> IF Len(args) = 2 /\ IsInt(args[1]) /\ IsInt(args[2]) THEN POk(BoolV(args[1].i < args[2].i)) ELSE PErr
    [] n = "eq" -> IF Len(args) = 2 THEN POk(BoolV(args[1] = args[2])) ELSE PErr
    [] n = "truep" -> IF Len(args) = 1 THEN POk(BoolV(args[1] = BoolV(TRUE))) ELSE PErr
    [] n = "falsep" -> IF Len(args) = 1 THEN POk(BoolV(args[1] = BoolV(FALSE))) ELSE PErr
    [] n = "anyp" -> IF Len(args) = 1 THEN POk(BoolV(TRUE)) ELSE PErr
    [] n = "peek" -> IF Len(args) = 1 /\ args[1].ty = "vec"
                     THEN POk(IF args[1].xs = <<>> THEN NilV ELSE args[1].xs[Len(args[1].xs)]) ELSE PErr
    [] n = "conj" -> IF Len(args) = 2 /\ args[1].ty = "vec" THEN POk(VecV(Append(args[1].xs, args[2]))) ELSE PErr

(* calling a function of several arities: the arguments as the selected arity's parameters see them *)
SeqV(xs) == [ty |-> "seq", xs |-> xs]
PackArgs(nfix, variadic, args) ==
  IF ~variadic THEN args
  ELSE SubSeq(args, 1, nfix) \o << IF Len(args) = nfix THEN NilV ELSE SeqV(SubSeq(args, nfix + 1, Len(args))) >>
(* class of the arity error: a fn with one arity is a plain Python function (TypeError), a fn with several *)
(* arities dispatches on the argument count itself (RuntimeException)                                       *)
ArityError(narities) == ExcV(IF narities = 1 THEN "TypeError" ELSE "RuntimeException")

(* projection of a result to what can be observed from outside *)
RECURSIVE Proj(_)
Proj(v) == CASE v.ty \in {"clo", "bi", "pyfn", "mclo", "pymfn"} -> [ty |-> "fn"]
             [] v.ty \in {"vec", "seq"} -> [ty |-> v.ty, xs |-> [i \in 1..Len(v.xs) |-> Proj(v.xs[i])]]
             [] OTHER -> v
===================================================================================
