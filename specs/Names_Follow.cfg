\* follow the histories of TRACE_FILE (NAMES_CLASS=pool) and print the expectation table after every step
CONSTANTS
  NameSeq <- ClassSeq
  Munge <- MungeAll
  Ambient <- AmbientCls
  Flags <- FlagsAll
  Toggle = TRUE
  AllowAlter = TRUE
  Definers = {"A", "B"}
  MaxLen = 12
SPECIFICATION FSpec
CONSTRAINT FEmit
INVARIANT RefinesNoDev
CHECK_DEADLOCK FALSE
