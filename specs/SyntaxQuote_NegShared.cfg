\* negative job: this mutant of the model must be rejected by GensymFresh (anti-vacuity)
CONSTANTS MaxDepth = 1  SharedEnv = TRUE  NoEnv = FALSE  QualSpecial = FALSE  NestShares = FALSE
SPECIFICATION Spec
INVARIANT GensymFresh
CHECK_DEADLOCK FALSE
