------------------------------------ MODULE Gen ------------------------------------
(* The compilation scheme of the code generator (generator.py) as a function from the   *)
(* abstract syntax of Lang.tla to PyIR.  Part of the AS-BUILT model of C01/C02.         *)
(*                                                                                    *)
(* Every expression compiles to a pair (deps, node): statements that must run first and *)
(* a Python expression.  let/loop/catch locals get a fresh Python name in the frame of  *)
(* the ENCLOSING FUNCTION; if/let/do/try/loop/throw/def become statements plus a result *)
(* name; the deps of all sub-expressions of a call / vector / recur are concatenated    *)
(* and emitted BEFORE the enclosing expression.                                         *)
(*                                                                                    *)
(* Named deviations (switches of the record D):                                        *)
(*   D.hoist  TRUE (as built): see above -- a statement-generating argument runs before *)
(*            earlier inline siblings.  FALSE (ideal): an earlier sibling is first      *)
(*            stored in a temporary whenever a later sibling has dependencies.          *)
(*   D.late   see PyIR.tla (one Python variable per local, closures by reference).      *)
(*   D.munge  TRUE (as built): a fn whose parameters collide after munging (e.mdup) is  *)
(*            not expressible: the compilation unit fails with SyntaxError.             *)
EXTENDS PyIR

Nm(base, n) == <<base, n>>
Const(v) == [k |-> "const", v |-> v]
Name(n) == [k |-> "name", n |-> n]
Assign(n, e) == [s |-> "assign", n |-> n, e |-> e]

LookupSt(st, l) == LET idx == CHOOSE i \in 1..Len(st) : st[i].l = l /\ \A j \in 1..(i - 1) : st[j].l # l IN st[idx].p
IsLoopRecur(e, st) == e.t = "recur" /\ LookupSt(st, "__recur__") # <<"fn">>

RECURSIVE Gen(_, _, _, _), GenSeq(_, _, _, _), GenBody(_, _, _, _), GenBinds(_, _, _, _, _), GenFnDef(_, _, _, _, _, _, _)

(* sub-expressions of a call / vector / recur, left to right *)
GenSeq(xs, st, n, D) ==
  IF xs = <<>> THEN [deps |-> <<>>, nodes |-> <<>>, n |-> n]
  ELSE LET h == Gen(Head(xs), st, n, D)
           r == GenSeq(Tail(xs), st, h.n, D)
       IN IF ~D.hoist /\ r.deps # <<>> /\ h.node.k \notin {"const", "prim"}
            THEN LET tmp == Nm("tmp", r.n) IN
                   [deps |-> h.deps \o <<Assign(tmp, h.node)>> \o r.deps, nodes |-> <<Name(tmp)>> \o r.nodes, n |-> r.n + 1]
            ELSE [deps |-> h.deps \o r.deps, nodes |-> <<h.node>> \o r.nodes, n |-> r.n]

(* an implicit do: every form but the last becomes an expression statement *)
GenBody(xs, st, n, D) ==
  IF Len(xs) = 0 THEN [deps |-> <<>>, node |-> Const(NilV), n |-> n]
  ELSE IF Len(xs) = 1 THEN Gen(xs[1], st, n, D)
  ELSE LET h == Gen(Head(xs), st, n, D)
           r == GenBody(Tail(xs), st, h.n, D)
       IN [deps |-> h.deps \o <<[s |-> "expr", e |-> h.node]>> \o r.deps, node |-> r.node, n |-> r.n]

GenBinds(bs, st, n, acc, D) ==
  IF bs = <<>> THEN [deps |-> acc.deps, st |-> st, n |-> n, names |-> acc.names]
  ELSE LET b == Head(bs)
           i == Gen(b.e, st, n, D)
           pn == Nm(b.n, i.n)
           st2 == <<[l |-> b.n, p |-> pn]>> \o st
       IN GenBinds(Tail(bs), st2, i.n + 1,
                   [deps |-> acc.deps \o i.deps \o <<Assign(pn, i.node)>>, names |-> Append(acc.names, pn)], D)

(* a Python function definition for one fn: returns [def (statement), n] *)
GenFnDef(pyname, ps, mps, xs, st, n, D) ==
  \* parameters keep their munged name (no fresh suffix): with D.munge two Lisp names that munge alike are ONE
  \* Python variable, also across nested functions (the inner parameter then shadows the outer one)
  LET pn == [i \in 1..Len(ps) |-> IF D.munge THEN Nm(mps[i], 0) ELSE Nm(ps[i], 0)]
      pst == [i \in 1..Len(ps) |-> [l |-> ps[Len(ps) + 1 - i], p |-> pn[Len(ps) + 1 - i]]]
             \o <<[l |-> "__recur__", p |-> <<"fn">>]>> \o st
      body == GenBody(xs, pst, n, D)
  IN [def |-> [s |-> "def", n |-> pyname, ps |-> pn,
               body |-> body.deps \o <<[s |-> "return", e |-> body.node]>>],
      n |-> body.n]

Branch(e, g, res, st) == g.deps \o (IF IsLoopRecur(e, st) THEN <<>> ELSE <<Assign(res, g.node)>>)

Gen(e, st, n, D) ==
  CASE e.t = "c" -> [deps |-> <<>>, node |-> Const(e.v), n |-> n]
    [] e.t = "b" -> [deps |-> <<>>, node |-> [k |-> "prim", n |-> e.n], n |-> n]
    [] e.t = "l" -> [deps |-> <<>>, node |-> Name(LookupSt(st, e.n)), n |-> n]
    [] e.t = "g" -> [deps |-> <<>>, node |-> [k |-> "gname", n |-> e.n], n |-> n]
    [] e.t = "mkexc" -> [deps |-> <<>>, node |-> [k |-> "mkexc", c |-> e.c], n |-> n]
    [] e.t = "if" ->
         LET tg == Gen(e.a, st, n, D)
             res == Nm("if_result", tg.n)
             tst == Nm("if_test", tg.n + 1)
             thn == Gen(e.b, st, tg.n + 2, D)
             els == Gen(e.c, st, thn.n, D)
         IN [deps |-> tg.deps \o <<Assign(tst, tg.node),
                                   [s |-> "if", t |-> tst, a |-> Branch(e.b, thn, res, st), b |-> Branch(e.c, els, res, st)]>>,
             node |-> Name(res), n |-> els.n]
    [] e.t = "do" -> GenBody(e.xs, st, n, D)
    [] e.t = "let" ->
         LET bg == GenBinds(e.bs, st, n, [deps |-> <<>>, names |-> <<>>], D)
             body == GenBody(e.xs, bg.st, bg.n, D)
         IN [deps |-> bg.deps \o body.deps, node |-> body.node, n |-> body.n]
    [] e.t = "loop" ->
         LET bg == GenBinds(e.bs, st, n, [deps |-> <<>>, names |-> <<>>], D)
             res == Nm("loop_result", bg.n)
             st2 == <<[l |-> "__recur__", p |-> bg.names]>> \o bg.st
             body == GenBody(e.xs, st2, bg.n + 1, D)
             last == IF e.xs # <<>> /\ IsLoopRecur(e.xs[Len(e.xs)], st2) THEN <<>> ELSE <<Assign(res, body.node), [s |-> "break"]>>
         IN [deps |-> <<Assign(res, Const(NilV))>> \o bg.deps \o <<[s |-> "while", body |-> body.deps \o last]>>,
             node |-> Name(res), n |-> body.n]
    [] e.t = "recur" ->
         LET ag == GenSeq(e.args, st, n, D)
             tgt == LookupSt(st, "__recur__")
         IN IF tgt = <<"fn">>
              THEN [deps |-> ag.deps, node |-> [k |-> "tramp", args |-> ag.nodes], n |-> ag.n]
              ELSE [deps |-> ag.deps \o <<[s |-> "massign", ns |-> tgt, es |-> ag.nodes], [s |-> "continue"]>>,
                    node |-> Const(NilV), n |-> ag.n]
    [] e.t = "fn" ->
         LET fname == IF e.self = "" THEN Nm("lisp_fn", n) ELSE Nm(e.self, n)
             st2 == IF e.self = "" THEN st ELSE <<[l |-> e.self, p |-> fname]>> \o st
             d == GenFnDef(fname, e.ps, e.mps, e.xs, st2, n + 1, D)
         IN [deps |-> <<d.def>>, node |-> Name(fname), n |-> d.n]
    [] e.t = "mfn" ->       \* one Python def per arity + a dispatch function on the argument count (PyIR mdef)
         LET fname == IF e.self = "" THEN Nm("lisp_fn", n) ELSE Nm(e.self, n)
             st2 == IF e.self = "" THEN st ELSE <<[l |-> e.self, p |-> fname]>> \o st
             RECURSIVE ArDefs(_, _)
             ArDefs(i, m) == IF i > Len(e.ars) THEN [ars |-> <<>>, n |-> m]
                             ELSE LET a == e.ars[i]
                                      ps == IF a.rest = "" THEN a.ps ELSE Append(a.ps, a.rest)
                                      d == GenFnDef(Nm("arity", m), ps, a.mps, a.xs, st2, m + 1, D)
                                      r == ArDefs(i + 1, d.n)
                                  IN [ars |-> <<[def |-> d.def, nfix |-> Len(a.ps), var |-> (a.rest # "")]>> \o r.ars, n |-> r.n]
             ds == ArDefs(1, n + 1)
         IN [deps |-> <<[s |-> "mdef", n |-> fname, ars |-> ds.ars]>>, node |-> Name(fname), n |-> ds.n]
    [] e.t = "call" ->
         LET ag == GenSeq(<<e.f>> \o e.args, st, n, D)
         IN [deps |-> ag.deps, node |-> [k |-> "call", f |-> ag.nodes[1], args |-> Tail(ag.nodes)], n |-> ag.n]
    [] e.t = "vec" ->
         LET ag == GenSeq(e.xs, st, n, D)
         IN [deps |-> ag.deps, node |-> [k |-> "vec", xs |-> ag.nodes], n |-> ag.n]
    [] e.t = "callall" ->
         LET g == Gen(e.e, st, n, D)
         IN [deps |-> g.deps, node |-> [k |-> "callall", e |-> g.node], n |-> g.n]
    [] e.t = "obj" -> [deps |-> <<>>, node |-> Const([ty |-> "obj"]), n |-> n]
    [] e.t = "field" ->
         LET g == Gen(e.e, st, n, D)
         IN [deps |-> g.deps, node |-> [k |-> "attr", e |-> g.node, n |-> e.n], n |-> g.n]
    [] e.t = "mcall" ->        \* target and arguments are chained like the parts of a call
         LET ag == GenSeq(<<e.e>> \o e.args, st, n, D)
         IN [deps |-> ag.deps, node |-> [k |-> "mcall", e |-> ag.nodes[1], n |-> e.n, args |-> Tail(ag.nodes)], n |-> ag.n]
    [] e.t = "letfn" ->
         LET k == Len(e.fs)
             names == [i \in 1..k |-> Nm(e.fs[i].n, n + i)]
             st2 == [i \in 1..k |-> [l |-> e.fs[k + 1 - i].n, p |-> names[k + 1 - i]]] \o st
             RECURSIVE Defs(_, _)
             Defs(i, m) == IF i > k THEN [deps |-> <<>>, n |-> m]
                           ELSE LET fname == Nm("letfn_fn", m)
                                    d == GenFnDef(fname, e.fs[i].ps, e.fs[i].mps, e.fs[i].xs, st2, m + 1, D)
                                    r == Defs(i + 1, d.n)
                                IN [deps |-> <<d.def, Assign(names[i], Name(fname))>> \o r.deps, n |-> r.n]
             ds == Defs(1, n + k + 1)
             body == GenBody(e.xs, st2, ds.n, D)
         IN [deps |-> ds.deps \o body.deps, node |-> body.node, n |-> body.n]
    [] e.t = "try" ->
         LET res == Nm("try_expr", n)
             body == GenBody(e.xs, st, n + 1, D)
             RECURSIVE Hs(_, _)
             Hs(i, m) == IF i > Len(e.cs) THEN [hs |-> <<>>, n |-> m]
                         ELSE LET cn == Nm(e.cs[i].n, m)
                                  hb == GenBody(e.cs[i].xs, <<[l |-> e.cs[i].n, p |-> cn]>> \o st, m + 1, D)
                                  r == Hs(i + 1, hb.n)
                              IN [hs |-> <<[c |-> e.cs[i].c, n |-> cn, body |-> hb.deps \o <<Assign(res, hb.node)>>]>> \o r.hs,
                                  n |-> r.n]
             hs == Hs(1, body.n)
             fin == GenBody(e.fin, st, hs.n, D)
         IN [deps |-> <<[s |-> "try", body |-> body.deps \o <<Assign(res, body.node)>>, hs |-> hs.hs,
                         fin |-> IF e.fin = <<>> THEN <<>> ELSE fin.deps \o <<[s |-> "expr", e |-> fin.node]>>]>>,
             node |-> Name(res), n |-> fin.n]
    [] e.t = "throw" ->
         LET g == Gen(e.e, st, n, D)
         IN [deps |-> g.deps \o <<[s |-> "raise", e |-> g.node]>>, node |-> Const(NilV), n |-> g.n]
    [] e.t = "def" ->
         LET g == Gen(e.e, st, n, D)
         IN [deps |-> g.deps \o <<[s |-> "gassign", n |-> e.n, e |-> g.node]>>, node |-> [k |-> "varref", n |-> e.n], n |-> g.n]

(* ---- running a program the way the REPL / compile_and_exec_form does ------------------ *)
(* a top-level `do` is split: each of its forms is one compilation unit                      *)
RECURSIVE Units(_)
Units(e) == IF e.t = "do" THEN (IF e.xs = <<>> THEN <<>> ELSE Units(e.xs[1]) \o Units([t |-> "do", xs |-> Tail(e.xs)])) ELSE <<e>>

RECURSIVE DupParams(_), DupParamsSeq(_)
DupParamsSeq(xs) == \E i \in 1..Len(xs) : DupParams(xs[i])
DupParams(e) ==
  CASE e.t \in {"c", "l", "b", "g", "mkexc", "obj"} -> FALSE
    [] e.t = "field" -> DupParams(e.e)
    [] e.t = "mcall" -> DupParams(e.e) \/ DupParamsSeq(e.args)
    [] e.t = "if" -> DupParams(e.a) \/ DupParams(e.b) \/ DupParams(e.c)
    [] e.t = "do" -> DupParamsSeq(e.xs)
    [] e.t \in {"let", "loop"} -> (\E i \in 1..Len(e.bs) : DupParams(e.bs[i].e)) \/ DupParamsSeq(e.xs)
    [] e.t = "recur" -> DupParamsSeq(e.args)
    [] e.t = "fn" -> e.mdup \/ DupParamsSeq(e.xs)
    [] e.t = "mfn" -> \E i \in 1..Len(e.ars) : e.ars[i].mdup \/ DupParamsSeq(e.ars[i].xs)
    [] e.t = "call" -> DupParams(e.f) \/ DupParamsSeq(e.args)
    [] e.t = "vec" -> DupParamsSeq(e.xs)
    [] e.t = "callall" -> DupParams(e.e)
    [] e.t = "letfn" -> (\E i \in 1..Len(e.fs) : e.fs[i].mdup \/ DupParamsSeq(e.fs[i].xs)) \/ DupParamsSeq(e.xs)
    [] e.t = "try" -> DupParamsSeq(e.xs) \/ (\E i \in 1..Len(e.cs) : DupParamsSeq(e.cs[i].xs)) \/ DupParamsSeq(e.fin)
    [] e.t = "throw" -> DupParams(e.e)
    [] e.t = "def" -> DupParams(e.e)

RECURSIVE RunUnits(_, _, _, _)
RunUnits(us, st, last, D) ==
  IF us = <<>> THEN [outcome |-> "val", v |-> last, log |-> st.log]
  ELSE IF D.munge /\ DupParams(Head(us)) THEN [outcome |-> "exc", v |-> ExcV("SyntaxError"), log |-> st.log]
  ELSE LET g == Gen(Head(us), <<>>, 1, D)
           r == Exec(g.deps \o <<[s |-> "return", e |-> g.node]>>, st, 1, D)
       IN IF r.ctl = "raise" THEN [outcome |-> "exc", v |-> r.v, log |-> r.st.log]
          ELSE RunUnits(Tail(us), r.st, r.v, D)

AsBuilt(p, D) ==
  LET us == Units(p)
      r == RunUnits(IF us = <<>> THEN <<[t |-> "c", v |-> NilV]>> ELSE us,
                    [fr |-> <<[vars |-> <<>>, parent |-> 0, fn |-> 1]>>, gl |-> <<>>, log |-> <<>>], NilV, D)
  IN [outcome |-> r.outcome,
      val |-> IF r.outcome = "val" THEN Proj(r.v) ELSE [ty |-> "exc", c |-> r.v.c],
      log |-> r.log]

NoDev == [hoist |-> FALSE, late |-> FALSE, munge |-> FALSE]
AllDev == [hoist |-> TRUE, late |-> TRUE, munge |-> TRUE]
DevSets == [hoist : BOOLEAN, late : BOOLEAN, munge : BOOLEAN]
DevNames(D) == (IF D.hoist THEN <<"HoistDeps">> ELSE <<>>) \o (IF D.late THEN <<"LateBinding">> ELSE <<>>)
               \o (IF D.munge THEN <<"MungeParams">> ELSE <<>>)
Card(D) == Len(DevNames(D))
=====================================================================================
