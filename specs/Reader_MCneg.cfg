CONSTANTS
  Alphabet <- AlphaM
  MaxLen = 3
  DetailLen = 0
  CRIsNewline = FALSE
SPECIFICATION SpecMC
INVARIANT ClassIndependent
INVARIANT SpanReread
INVARIANT PosSaneMC
INVARIANT Total
INVARIANT EofIffOwed
CHECK_DEADLOCK FALSE
