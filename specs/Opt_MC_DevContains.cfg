CONSTANTS Size = 1  DevIsBecomesEq = FALSE  DevContainsSwaps = TRUE  DevDelitemAsExpr = FALSE
SPECIFICATION Spec
INVARIANT RewritePreserves
CHECK_DEADLOCK FALSE
